"""C12 - signature files round-trip exactly and foreign files are refused.

H1 attribute names written == read   H2 SignaturesMeta fields == names written == keywords on read
H3 None<->Empty symmetry, extra via json.dumps/loads   H4 datasets and list-path bounds/fill arithmetic
H5 dtype preservation / id kinds   H6 refusal guards precede opening / construction; required items read with the raising form
H7 k-mer parameters   H8 create(): id shape check, attributes before datasets, returns cls(group); dump is one `with h5.File(path, 'w')`
"""
import ast
import copy

from ..affine import Aff, sym
from ..astutil import (u, atoms, guard_map, path_atoms, stmts_in, calls_in, callee, callee_attr, reaching_def, def_value,
                       PARAM, AMBIGUOUS, get_arg, get_kw, is_none, is_const, raised_name, block_path, has_starstar, assigned_targets, walk_no_nested)
from ..model import FuncInfo
from ..mini import Mini, Opaque, Return as MiniReturn
from ..report import Undecided

H = 'gambit.sigs.hdf5'


def attr_key(ctx, fi, node):
    try:
        return ctx.model.const_value(fi.module, node)
    except Undecided:
        return f'<{u(node)}>'


# ---------------------------------------------------------------------- meaning-preserving pre-pass on the anchor functions
#
# The rules below talk about VALUES (which attribute name receives which field, which expression is stored under which
# condition).  Before they run, every anchor function is brought into an explicit form by transformations that do not change
# what is computed:
#   P1  a local that is only another name for a pure access path of an object that is never rebound (`attrs = group.attrs`,
#       `n = len(signatures)`) is replaced by that path;
#   P2  `for x in <constant tuple of strings>` / a list or dict comprehension over one is unrolled, `x` becoming the literal;
#   P3  `getattr(o, '<literal>')` is `o.<literal>`;
#   P4  `f(**d)` with `d` a dict display with literal string keys (directly, or a local bound once and used only there) is
#       `f(key=value, ...)`.

class _Subst(ast.NodeTransformer):
    def __init__(self, mapping):
        self.mapping = mapping

    def visit_Name(self, node):
        if isinstance(node.ctx, ast.Load) and node.id in self.mapping:
            return ast.copy_location(copy.deepcopy(self.mapping[node.id]), node)
        return node


def _subst(node, mapping):
    out = _Subst(mapping).visit(copy.deepcopy(node))
    return ast.fix_missing_locations(out)


def _bound_names(fnode):
    out = {}
    for s in stmts_in(fnode.body):
        for t in assigned_targets(s):
            for n in ast.walk(t):
                if isinstance(n, ast.Name):
                    out.setdefault(n.id, []).append(s)
        if isinstance(s, ast.Try):
            for h in s.handlers:
                if h.name:
                    out.setdefault(h.name, []).append(s)
    for n in ast.walk(fnode):
        if isinstance(n, (ast.NamedExpr,)) and isinstance(n.target, ast.Name):
            out.setdefault(n.target.id, []).append(n)
        elif isinstance(n, ast.comprehension):
            for x in ast.walk(n.target):
                if isinstance(x, ast.Name):
                    out.setdefault(x.id, []).append(n)
        elif isinstance(n, (ast.FunctionDef, ast.ClassDef)) and n is not fnode:
            out.setdefault(n.name, []).append(n)
    return out


def _pure_path_root(e):
    """Root Name of a pure access path (attribute chain, len(path)); None otherwise."""
    while True:
        if isinstance(e, ast.Attribute):
            e = e.value
        elif isinstance(e, ast.Call) and isinstance(e.func, ast.Name) and e.func.id == 'len' and len(e.args) == 1 and not e.keywords:
            e = e.args[0]
        elif isinstance(e, ast.Name):
            return e.id
        else:
            return None


_MUTATING = {'append', 'extend', 'insert', 'pop', 'remove', 'clear', 'sort', 'reverse', 'update', 'setdefault', 'popitem', 'add', 'discard', 'resize'}


def _touched(fnode, path, root):
    """May the value of the access path change inside the function?  (a component is stored to, or the root object is mutated)"""
    comps = {u(n) for n in ast.walk(path) if isinstance(n, ast.Attribute)}
    for s in stmts_in(fnode.body):
        tg = assigned_targets(s) + (list(s.targets) if isinstance(s, ast.Delete) else [])
        for t in tg:
            if isinstance(t, ast.Attribute) and u(t) in comps:
                return True
            if isinstance(t, ast.Subscript) and (u(t.value) == root or u(t.value) in comps):
                return True
    for c in ast.walk(fnode):
        if isinstance(c, ast.Call) and isinstance(c.func, ast.Attribute) and c.func.attr in _MUTATING and (u(c.func.value) == root or u(c.func.value) in comps):
            return True
    return False


def _const_strs(ctx, module, node):
    if not isinstance(node, (ast.Name, ast.Attribute, ast.Tuple, ast.List)):
        return None
    try:
        v = ctx.model.const_value(module, node)
    except Undecided:
        return None
    if isinstance(v, (tuple, list)) and all(isinstance(x, str) for x in v):
        return list(v)
    return None


def _loads(fnode, name):
    return [n for n in ast.walk(fnode) if isinstance(n, ast.Name) and n.id == name and isinstance(n.ctx, ast.Load)]


class _Unroll(ast.NodeTransformer):
    def __init__(self, ctx, module, fnode):
        self.ctx, self.module, self.fnode = ctx, module, fnode

    def _block(self, stmts):
        out = []
        for s in stmts:
            r = self.visit(s)
            out.extend(r if isinstance(r, list) else [r])
        return out

    def visit_For(self, node):
        node.body = self._block(node.body)
        node.orelse = self._block(node.orelse)
        node.iter = self.visit(node.iter)
        seq = _const_strs(self.ctx, self.module, node.iter)
        if seq is None or node.orelse or not isinstance(node.target, ast.Name) or not seq:
            return node
        tname = node.target.id
        inner = [x for b in node.body for x in ast.walk(b)]
        if any(isinstance(x, (ast.Break, ast.Continue, ast.Return, ast.Yield, ast.YieldFrom)) for x in inner):
            return node
        if any(isinstance(x, ast.Name) and x.id == tname and isinstance(x.ctx, (ast.Store, ast.Del)) for x in inner):
            return node
        inside = {id(x) for x in inner}
        if any(id(x) not in inside for x in _loads(self.fnode, tname)):
            return node         # the loop variable is read after the loop
        out = []
        for v in seq:
            for b in node.body:
                out.append(_subst(b, {tname: ast.Constant(v)}))
        return out

    def _comp(self, node, make):
        self.generic_visit(node)
        if len(node.generators) != 1:
            return node
        g = node.generators[0]
        seq = _const_strs(self.ctx, self.module, g.iter)
        if seq is None or g.ifs or g.is_async or not isinstance(g.target, ast.Name):
            return node
        return ast.copy_location(make([{g.target.id: ast.Constant(v)} for v in seq]), node)

    def visit_DictComp(self, node):
        return self._comp(node, lambda ms: ast.Dict(keys=[_subst(node.key, mp) for mp in ms], values=[_subst(node.value, mp) for mp in ms]))

    def visit_ListComp(self, node):
        return self._comp(node, lambda ms: ast.List(elts=[_subst(node.elt, mp) for mp in ms], ctx=ast.Load()))

    def visit_FunctionDef(self, node):
        if node is self.fnode:
            node.body = self._block(node.body)
        return node

    def visit_If(self, node):
        node.test = self.visit(node.test)
        node.body = self._block(node.body)
        node.orelse = self._block(node.orelse)
        return node

    def visit_With(self, node):
        for i in node.items:
            i.context_expr = self.visit(i.context_expr)
        node.body = self._block(node.body)
        return node

    def visit_While(self, node):
        node.test = self.visit(node.test)
        node.body = self._block(node.body)
        node.orelse = self._block(node.orelse)
        return node

    def visit_Try(self, node):
        node.body = self._block(node.body)
        for h in node.handlers:
            h.body = self._block(h.body)
        node.orelse = self._block(node.orelse)
        node.finalbody = self._block(node.finalbody)
        return node


class _FoldGetattr(ast.NodeTransformer):
    def visit_Call(self, node):
        self.generic_visit(node)
        if isinstance(node.func, ast.Name) and node.func.id == 'getattr' and len(node.args) == 2 and not node.keywords \
                and isinstance(node.args[1], ast.Constant) and isinstance(node.args[1].value, str) and node.args[1].value.isidentifier():
            return ast.copy_location(ast.Attribute(value=node.args[0], attr=node.args[1].value, ctx=ast.Load()), node)
        return node


def _remove_stmt(fnode, stmt):
    bp = block_path(fnode, stmt)
    block, idx, _ = bp[-1]
    del block[idx]
    if not block:
        block.append(ast.copy_location(ast.Pass(), stmt))


def _literal_str_dict(e):
    return isinstance(e, ast.Dict) and e.keys and all(isinstance(k, ast.Constant) and isinstance(k.value, str) for k in e.keys)


def prep(ctx, fi):
    """FuncInfo over an explicit-form copy of the function (P1-P4 above); the model itself is left untouched."""
    fnode = copy.deepcopy(fi.node)
    # P0 a method turned into a @staticmethod keeps the positions the rules use: a placeholder stands for the receiver
    if fi.cls is not None and any(u(d) == 'staticmethod' for d in fnode.decorator_list):
        fnode.args.args.insert(0, ast.arg(arg='__receiver__'))
    # P1 alias locals
    changed = True
    while changed:
        changed = False
        bound = _bound_names(fnode)
        a = fnode.args
        for name, sites in bound.items():
            if len(sites) != 1 or not isinstance(sites[0], ast.Assign):
                continue
            st = sites[0]
            if len(st.targets) != 1 or not isinstance(st.targets[0], ast.Name) or isinstance(st.value, ast.Name):
                continue
            if name in [x.arg for x in a.posonlyargs + a.args + a.kwonlyargs] or any(isinstance(x, (ast.Global, ast.Nonlocal)) for x in ast.walk(fnode)):
                continue
            root = _pure_path_root(st.value)
            if root is None or root in bound or _touched(fnode, st.value, root):
                continue
            if any(isinstance(d, (ast.FunctionDef, ast.Lambda, ast.ClassDef)) and d is not fnode for d in ast.walk(fnode)):
                continue
            _remove_stmt(fnode, st)
            fnode = _Subst({name: st.value}).visit(fnode)
            ast.fix_missing_locations(fnode)
            changed = True
            break
    # P2 / P3
    fnode = _Unroll(ctx, fi.module, fnode).visit(fnode)
    fnode = _FoldGetattr().visit(fnode)
    ast.fix_missing_locations(fnode)
    # P4
    for call in [n for n in ast.walk(fnode) if isinstance(n, ast.Call)]:
        for kw in list(call.keywords):
            if kw.arg is not None:
                continue
            d, def_stmt = kw.value, None
            if isinstance(d, ast.Name):
                sites = _bound_names(fnode).get(d.id, [])
                host = next((s for s in stmts_in(fnode.body) if not isinstance(s, (ast.If, ast.For, ast.While, ast.With, ast.Try)) and any(x is call for x in ast.walk(s))), None)
                if len(sites) == 1 and host is not None and reaching_def(fnode, d.id, host) is sites[0] and def_value(sites[0]) is not None and len(_loads(fnode, d.id)) == 1:
                    def_stmt, d = sites[0], def_value(sites[0])
            if not _literal_str_dict(d):
                continue
            explicit = {k.arg for k in call.keywords if k.arg is not None}
            keys = [k.value for k in d.keys]
            if explicit & set(keys) or len(set(keys)) != len(keys):
                continue
            i = call.keywords.index(kw)
            call.keywords[i:i + 1] = [ast.keyword(arg=k.value, value=v) for k, v in zip(d.keys, d.values)]
            if def_stmt is not None:
                _remove_stmt(fnode, def_stmt)
    ast.fix_missing_locations(fnode)
    return FuncInfo(fi.qualname, fnode, fi.module, fi.cls)


# ---------------------------------------------------------------------- values behind locals, case analysis

def binding_def(fnode, name, stmt):
    """Reaching definition of the NAME (stores into the object it denotes - `name[...] = v`, `name.a = v` - are stepped over)."""
    d = reaching_def(fnode, name, stmt)
    while isinstance(d, (ast.Assign, ast.AugAssign)) and not any(isinstance(x, ast.Name) and x.id == name and isinstance(x.ctx, ast.Store) for t in assigned_targets(d) for x in ast.walk(t)):
        d = reaching_def(fnode, name, d)
    return d


def _def_in_with(fnode, name, stmt):
    """The single binding of `name` in the function when it sits (unconditionally) in the body of `with` statements that precede
    `stmt`: a with body runs exactly once before what follows it."""
    sites = _bound_names(fnode).get(name, [])
    if len(sites) != 1 or not isinstance(sites[0], ast.Assign):
        return AMBIGUOUS
    bp, sp = block_path(fnode, sites[0]), block_path(fnode, stmt)
    if bp is None or sp is None:
        return AMBIGUOUS
    # strip the common prefix of blocks; what remains above the definition must be With statements only, starting before stmt
    k = 0
    while k < len(bp) and k < len(sp) and bp[k][0] is sp[k][0] and bp[k][1] == sp[k][1]:
        k += 1
    if k >= len(bp) or k >= len(sp) or bp[k][0] is not sp[k][0] or not bp[k][1] < sp[k][1]:
        return AMBIGUOUS
    if not all(isinstance(owner, (ast.With, ast.AsyncWith)) for (_, _, owner) in bp[k + 1:]) or len(bp) == k + 1:
        return AMBIGUOUS
    return sites[0]


def deep(fnode, e, stmt, _depth=0):
    """`e` (evaluated at `stmt`) with every local that has ONE structured reaching definition replaced by the defining
    expression, recursively: the value that flows, whatever it was called on the way."""
    if _depth > 12:
        return e

    class T(ast.NodeTransformer):
        def visit_Name(self, node):
            if not isinstance(node.ctx, ast.Load):
                return node
            d = reaching_def(fnode, node.id, stmt)
            if d == AMBIGUOUS:
                d = _def_in_with(fnode, node.id, stmt)
            if d in (None, PARAM, AMBIGUOUS) or isinstance(d, (ast.For, ast.With, ast.AsyncFor, ast.AsyncWith)):
                return node
            v = def_value(d)
            if v is None or isinstance(d, ast.AugAssign):
                return node
            r = deep(fnode, v, d, _depth + 1)
            # the defining expression denotes the same value here only if nothing it mentions was rebound in between
            for nm in {x.id for x in ast.walk(r) if isinstance(x, ast.Name)}:
                r1, r2 = reaching_def(fnode, nm, d), reaching_def(fnode, nm, stmt)
                if r1 is not r2 or r1 == AMBIGUOUS:
                    return node
            return ast.copy_location(r, node)

        def visit_Lambda(self, node):
            return node
    return ast.fix_missing_locations(T().visit(copy.deepcopy(e)))


def test_owner(fnode):
    """id(test expression) -> the statement it belongs to (for resolving the locals a guard mentions)."""
    out = {}
    for s in stmts_in(fnode.body):
        if isinstance(s, (ast.If, ast.While, ast.Assert)):
            out[id(s.test)] = s
    return out


def deep_atoms(fnode, gm, stmt, owners=None, key=u):
    """Path condition of `stmt` as atoms over fully resolved operands (a guard on a boolean local is the comparison it
    was computed from)."""
    owners = owners if owners is not None else test_owner(fnode)
    out = set()
    for t, pol in gm[stmt]:
        o = owners.get(id(t))
        a = atoms(deep(fnode, t, o) if o is not None else t, pol, key)
        if a:
            out |= a
    return out


def _contradictory(at):
    neg = {'is': 'isnot', 'isnot': 'is', 'eq': 'ne', 'ne': 'eq', 'in': 'notin', 'notin': 'in', 'true': 'false', 'false': 'true'}
    return any((neg.get(a[0]),) + tuple(a[1:]) in at for a in at)


def cases(e):
    """[(atoms, expression without conditional expressions)]: `e` split on every conditional expression it contains.
    Raises Undecided when a test is not a conjunction of atoms."""
    def first_ifexp(n):
        for x in walk_no_nested(n):
            if isinstance(x, ast.IfExp):
                return x
        return None
    work, out = [(frozenset(), e)], []
    while work:
        at, x = work.pop()
        ie = first_ifexp(x)
        if ie is None:
            out.append((at, x))
            continue
        for pol, arm in ((True, ie.body), (False, ie.orelse)):
            a = atoms(ie.test, pol)
            if a is None:
                raise Undecided(f'conditional expression with a non-conjunctive test: {u(ie)}')
            na = at | a
            if _contradictory(na):
                continue

            class R(ast.NodeTransformer):
                def visit_IfExp(self, node):
                    if u(node) == u(ie):
                        return copy.deepcopy(arm)
                    return self.generic_visit(node)
            work.append((frozenset(na), ast.fix_missing_locations(R().visit(copy.deepcopy(x)))))
    return sorted(out, key=lambda c: (sorted(c[0]), u(c[1])))


def is_str_empty(m, fi, e):
    """h5.Empty(<the variable-length string dtype>)"""
    return isinstance(e, ast.Call) and u(e.func) in ('h5.Empty', 'h5py.Empty') and len(e.args) == 1 and not e.keywords \
        and (m.resolve(fi.module, e.args[0]) == f'{H}.STR_DTYPE' or u(e.args[0]) in ('h5.string_dtype()', 'h5py.string_dtype()'))


def simplify_none_to_empty(m, fi, e):
    """none_to_empty(None, dt) is h5.Empty(dt); none_to_empty(<text produced by json.dumps / a string literal>, dt) is that text.
    (the definition of none_to_empty itself is an obligation of H3)"""
    if isinstance(e, ast.Call) and m.resolve_call(fi, e) == f'{H}.none_to_empty' and len(e.args) == 2 and not e.keywords:
        v = e.args[0]
        if is_none(v):
            return ast.fix_missing_locations(ast.copy_location(ast.Call(func=ast.Attribute(value=ast.Name(id='h5', ctx=ast.Load()), attr='Empty', ctx=ast.Load()), args=[e.args[1]], keywords=[]), e))
        if (isinstance(v, ast.Call) and u(v.func) == 'json.dumps') or (isinstance(v, ast.Constant) and isinstance(v.value, str)) or isinstance(v, ast.JoinedStr):
            return v
    return e


# ---------------------------------------------------------------------- loops as index maps

IDX = 'I__'


def iter_model(it, lens):
    """(count as Aff, elem) for the iterable of a for loop: elem(index expression) is the AST of the element produced in
    that iteration.  Vocabulary: range(N), enumerate(X), zip(X, ...), X[a:] / X[:-b] / X[a:-b], a plain sequence expression.
    Anything else -> Undecided."""
    def seq_len(x):
        return Aff.try_of(ast.Call(func=ast.Name(id='len', ctx=ast.Load()), args=[x], keywords=[]), lens)

    def plus(i, k):
        return i if k == 0 else ast.BinOp(left=i, op=ast.Add(), right=ast.Constant(k))
    if isinstance(it, ast.Call) and u(it.func) == 'range' and not it.keywords:
        if len(it.args) == 1:
            return Aff.try_of(it.args[0], lens), (lambda i: i)
        raise Undecided(f'loop over {u(it)}: only range(N) is evaluated')
    if isinstance(it, ast.Call) and u(it.func) == 'enumerate' and len(it.args) == 1 and not it.keywords:
        c, e = iter_model(it.args[0], lens)
        return c, (lambda i: ast.Tuple(elts=[i, e(i)], ctx=ast.Load()))
    if isinstance(it, ast.Call) and u(it.func) == 'zip' and it.args and not it.keywords and not any(isinstance(a, ast.Starred) for a in it.args):
        parts = [iter_model(a, lens) for a in it.args]
        counts = {repr(c) for c, _ in parts}
        if len(counts) != 1 or parts[0][0] is None:
            raise Undecided(f'loop over {u(it)}: the zipped sequences do not have one known common length ({sorted(counts)})')
        return parts[0][0], (lambda i: ast.Tuple(elts=[e(i) for _, e in parts], ctx=ast.Load()))
    if isinstance(it, ast.Subscript) and isinstance(it.slice, ast.Slice):
        sl = it.slice

        def cint(x, default):
            if x is None:
                return default
            a = Aff.try_of(x)
            return int(a.const) if a is not None and a.is_const() and a.const.denominator == 1 else None
        lo, hi = cint(sl.lower, 0), cint(sl.upper, 0)
        n = seq_len(it.value)
        if sl.step is not None or lo is None or hi is None or lo < 0 or hi > 0 or n is None:
            raise Undecided(f'loop over {u(it)}: only slices X[a:], X[:-b], X[a:-b] with literal a, b >= 0 are evaluated')
        base = it.value
        return n.plus(-lo + hi), (lambda i: ast.Subscript(value=base, slice=plus(i, lo), ctx=ast.Load()))
    if isinstance(it, (ast.Name, ast.Attribute)):
        n = seq_len(it)
        return n, (lambda i: ast.Subscript(value=it, slice=i, ctx=ast.Load()))
    raise Undecided(f'loop over {u(it)}: iterable outside the evaluated vocabulary (range / enumerate / zip / slice / sequence)')


def bind_target(target, value):
    """{loop variable: element expression} for a (possibly nested tuple) loop target."""
    if isinstance(target, ast.Name):
        return {target.id: value}
    if isinstance(target, (ast.Tuple, ast.List)) and isinstance(value, ast.Tuple) and len(target.elts) == len(value.elts):
        out = {}
        for t, v in zip(target.elts, value.elts):
            out.update(bind_target(t, v))
        return out
    raise Undecided(f'loop target {u(target)} cannot be matched with the elements {u(value)}')


# ---------------------------------------------------------------------- finite-domain execution of the id dispatch

NUMPY_KINDS = 'biufcmMOSUV'


class _Sym:
    """Named uninterpreted value."""

    def __init__(self, name):
        self.name = name

    def __repr__(self):
        return self.name


class _Stop(Exception):
    def __init__(self, data, dtype):
        self.data, self.dtype = data, dtype


class _Raised(Exception):
    def __init__(self, name):
        self.name = name


class _DispatchEval(Mini):
    def truth(self, v):
        if isinstance(v, _Sym):
            raise Undecided(f'truth value of {v.name} is not known')
        return super().truth(v)

    def compare(self, op, l, r, node):
        t = type(op).__name__
        if t in ('Is', 'IsNot'):
            if isinstance(l, Opaque) or isinstance(r, Opaque):
                raise Undecided(f'identity test on an unknown value in {u(node)}')
            same = (l is r) or (l is None and r is None)
            if isinstance(l, _Sym) and isinstance(r, _Sym) and l is not r:
                raise Undecided(f'identity of two symbolic values in {u(node)}')
            return same if t == 'Is' else not same
        if isinstance(l, _Sym) or isinstance(r, _Sym):
            raise Undecided(f'comparison of a symbolic value in {u(node)}')
        return super().compare(op, l, r, node)

    def assign(self, target, value, stmt):
        if isinstance(target, ast.Name):
            for k in [k for k in self.env if isinstance(k, str) and k.startswith(target.id + '.')]:
                del self.env[k]      # facts about the old object do not describe the new one
        super().assign(target, value, stmt)

    def stmt(self, s):
        if isinstance(s, ast.Raise):
            raise _Raised(raised_name(s))
        super().stmt(s)


def run_id_dispatch(m, f_ds, idsp, kind, ids_call):
    """Execute _init_datasets for an id array of dtype kind `kind` up to the creation of the ids dataset.
    -> ('write', data text, dtype text) | ('raise', exception name, None) | ('not written', None, None)"""
    def show(v):
        return v.name if isinstance(v, _Sym) else repr(v)

    def on_call(mi, call):
        if call is ids_call:
            d, t = get_kw(call, 'data'), get_kw(call, 'dtype')
            raise _Stop(show(mi.ev(d)) if d is not None else None, show(mi.ev(t)) if t is not None else None)
        f = call.func
        if isinstance(f, ast.Attribute) and isinstance(f.value, ast.Name) and f.value.id in mi.env and isinstance(mi.env[f.value.id], _Sym):
            head = f'{mi.env[f.value.id].name}.{f.attr}'
        else:
            head = u(f)
        return _Sym(f'{head}({", ".join([u(a) for a in call.args] + [f"{k.arg}={u(k.value)}" for k in call.keywords])})')
    env = {}
    a = f_ds.node.args
    for p in f_ds.params():
        env[p] = _Sym(p)
    for p in f_ds.params():
        d = f_ds.param_default(p)
        if d is not None and is_none(d):
            env[p] = None       # the internal caller may omit it; the is-None default branch is then the one taken
    local = {t.id for s in stmts_in(f_ds.node.body) for tt in assigned_targets(s) for t in ast.walk(tt) if isinstance(t, ast.Name)}
    for n in ast.walk(f_ds.node):
        if isinstance(n, ast.Name) and isinstance(n.ctx, ast.Load) and n.id not in env and n.id not in local:
            r = m.resolve(f_ds.module, n)
            env[n.id] = _Sym(r if r and r.startswith('gambit.') else n.id)
    env[f'{idsp}.dtype'] = _Sym(f'{idsp}.dtype')
    env[f'{idsp}.dtype.kind'] = ord(kind)
    mi = _DispatchEval(env, on_call=on_call)
    try:
        mi.run(f_ds.node.body)
    except _Stop as st:
        return ('write', st.data, st.dtype)
    except _Raised as r:
        return ('raise', r.name, None)
    except MiniReturn:
        pass
    return ('not written', None, None)


def attr_stores(ctx, fi, recv):
    """[(key, value node, stmt)] for `<recv>.attrs[key] = value`."""
    out = []
    for s in stmts_in(fi.node.body):
        if isinstance(s, ast.Assign) and len(s.targets) == 1 and isinstance(s.targets[0], ast.Subscript) and u(s.targets[0].value) == f'{recv}.attrs':
            out.append((attr_key(ctx, fi, s.targets[0].slice), s.value, s))
    return out


def attr_loads(ctx, fi, recv):
    """[(key, form, node)] form in raising|get|contains."""
    out = []
    for n in ast.walk(fi.node):
        if isinstance(n, ast.Subscript) and isinstance(n.ctx, ast.Load) and u(n.value) == f'{recv}.attrs':
            out.append((attr_key(ctx, fi, n.slice), 'raising', n))
        elif isinstance(n, ast.Call) and u(n.func) == f'{recv}.attrs.get' and n.args:
            out.append((attr_key(ctx, fi, n.args[0]), 'get' if len(n.args) == 1 and not n.keywords else 'get-default', n))
        elif isinstance(n, ast.Compare) and len(n.ops) == 1 and isinstance(n.ops[0], (ast.In, ast.NotIn)) and u(n.comparators[0]) == f'{recv}.attrs':
            out.append((attr_key(ctx, fi, n.left), 'contains', n))
    return out


def check(ctx):
    rep, m = ctx.rep, ctx.model
    rep.rule('H1', 'attribute names written by _init_attrs + write_metadata == names read by HDF5Signatures.__init__ + read_metadata')
    rep.rule('H2', 'attrs fields of SignaturesMeta == metadata names written == keywords passed to SignaturesMeta on read')
    rep.rule('H3', 'optional fields: none_to_empty on write, empty_to_none on read, same key as the field; extra json.dumps <-> json.loads')
    rep.rule('H4', 'datasets ids/values/bounds on both write paths and on read; list path bounds[0]=0, bounds[1:]=cumsum(sizes), fill values[bounds[i]:bounds[i+1]] = signatures[i]')
    rep.rule('H5', 'dtype preservation (values dtype, BOUNDS_DTYPE, id kinds), reader decodes object ids with asstr()')
    rep.rule('H6', 'refusal: magic comparison raises the SignaturesFileError before h5.File; marker test before construction; constructor raises SignaturesFileError first; raising read forms')
    rep.rule('H7', 'k-mer parameters written as (k, prefix_str) and read back as KmerSpec(k, prefix)')
    rep.rule('H8', 'create(): id shape check; returns cls(group); dump_signatures_hdf5 is one `with h5.File(path, "w")`')
    rep.rule('H9', 'the loaded collection (HDF5Signatures) resolves the whole indexing protocol to the ConcatenatedSignatureArray / AdvancedIndexingMixin implementations (nothing overridden on the way)')
    rep.rule('X3', 'C20-X3 re-evaluated on the class the reader returns: index normalisation')
    rep.rule('X4', 'C20-X4 re-evaluated on the class the reader returns: element / length / contiguous-slice arithmetic over values and bounds')
    rep.rule('X5', 'C20-X5 re-evaluated on the class the reader returns: slices and index lists keep kmerspec, dtype, order and repeats; no shortcut return')
    rep.trusted += ['h5py stores dtypes, variable-length strings and compressed chunks losslessly', 'h5py.Empty round-trips as h5py.Empty']
    hmod = m.module(H)
    cls = m.cls(f'{H}.HDF5Signatures')
    f_init = m.func(f'{H}.HDF5Signatures.__init__')
    f_ia = m.func(f'{H}.HDF5Signatures._init_attrs')
    f_ds = m.func(f'{H}.HDF5Signatures._init_datasets')
    f_cr = m.func(f'{H}.HDF5Signatures.create')
    f_wm = m.func(f'{H}.write_metadata')
    f_rm = m.func(f'{H}.read_metadata')
    f_ld = m.func(f'{H}.load_signatures_hdf5')
    f_dp = m.func(f'{H}.dump_signatures_hdf5')
    for f in (f_init, f_ia, f_ds, f_cr, f_wm, f_rm, f_ld, f_dp):
        rep.functions.add(f.qualname)
    # explicit-form copies (aliases of access paths resolved, loops over constant name tuples unrolled, **{literal dict} spelled out)
    f_init, f_ia, f_ds, f_cr, f_wm, f_rm, f_ld, f_dp = (prep(ctx, f) for f in (f_init, f_ia, f_ds, f_cr, f_wm, f_rm, f_ld, f_dp))

    # ------------------------------------------------------------------ H1
    g_ia = f_ia.params()[1]
    g_wm = f_wm.params()[0]
    w_core = attr_stores(ctx, f_ia, g_ia)
    w_meta = attr_stores(ctx, f_wm, g_wm)
    g_in = f_init.params()[1]
    g_rm = f_rm.params()[0]
    r_core = attr_loads(ctx, f_init, g_in)
    r_meta = attr_loads(ctx, f_rm, g_rm)
    written = {k for k, _, _ in w_core} | {k for k, _, _ in w_meta}
    read = {k for k, _, _ in r_core} | {k for k, _, _ in r_meta}
    for k in sorted(written | read, key=str):
        site = next((f_ia.site(s) for kk, _, s in w_core if kk == k), None) or next((f_wm.site(s) for kk, _, s in w_meta if kk == k), None) or f_init.site()
        rep.add('H1', site, f'attribute {k!r} is both written and read back', k in written and k in read, expected='written and read', found=('written' if k in written else 'NOT written') + ', ' + ('read' if k in read else 'NOT read'),
                stmt=f'attr {k}')
    # floor after the comparison: a name that is read but no longer written is a concrete deviation and is reported as such first
    rep.floor('H1', 'attribute names written', len(written), 9)
    calls_wm = [c for c in calls_in(f_ia.node) if m.resolve_call(f_ia, c) == f'{H}.write_metadata']
    rep.add('H1', f_ia.site(calls_wm[0] if calls_wm else None), '_init_attrs writes the metadata of the collection into the same group', len(calls_wm) == 1 and [u(a) for a in calls_wm[0].args] == [g_ia, f_ia.params()[3]],
            expected=f'write_metadata({g_ia}, meta)', found=[u(c) for c in calls_wm], stmt='write_metadata call')
    calls_rm = [c for c in calls_in(f_init.node) if m.resolve_call(f_init, c) == f'{H}.read_metadata']
    okrm = len(calls_rm) == 1 and [u(a) for a in calls_rm[0].args] == [g_in]
    st_rm = next((s for s in f_init.node.body if isinstance(s, ast.Assign) and calls_rm and s.value is calls_rm[0]), None)
    rep.add('H1', f_init.site(st_rm), 'the reader loads the metadata of the same group into .meta', okrm and st_rm is not None and u(st_rm.targets[0]) == 'self.meta', expected=f'self.meta = read_metadata({g_in})',
            found=u(st_rm) if st_rm is not None else None, stmt='read_metadata call')

    # ------------------------------------------------------------------ H2 / H3
    meta_cls = m.cls('gambit.sigs.base.SignaturesMeta')
    fields = [k for k, v in meta_cls.class_attrs.items() if isinstance(v, ast.Call) and u(v.func) == 'attrib']
    rep.floor('H2', 'SignaturesMeta fields', len(fields), 6)
    mw = {k: (v, s) for k, v, s in w_meta}
    ctor = [c for c in calls_in(f_rm.node) if m.resolve_call(f_rm, c) == 'gambit.sigs.base.SignaturesMeta']
    rep.require(len(ctor) == 1, 'read_metadata: expected one SignaturesMeta(...) construction')
    kws = {k.arg: k.value for k in ctor[0].keywords}
    rep.account_returns('H2', f_rm, [s for s in stmts_in(f_rm.node.body) if isinstance(s, ast.Return) and s.value is ctor[0]], 'metadata object')
    rep.add('H2', f_rm.site(ctor[0]), 'every metadata field is stored and restored (fields == names written == keywords on read)', set(fields) == set(mw) == set(kws) and not ctor[0].args,
            expected=sorted(fields), found=dict(written=sorted(map(str, mw)), restored=sorted(kws)), stmt='metadata coverage')
    metap = f_wm.params()[1]

    def load_of(expr):
        """The value passed for a keyword of the SignaturesMeta constructor, locals resolved."""
        if expr is None:
            return None
        host = next(s for s in stmts_in(f_rm.node.body) if any(x is ctor[0] for x in ast.walk(s)) and not isinstance(s, (ast.If, ast.For, ast.While, ast.With, ast.Try)))
        return deep(f_rm.node, expr, host)
    for fld in fields:
        wv = mw.get(fld)
        rv = kws.get(fld)
        if fld == 'extra':
            # write: the value stored under 'extra', by cases: json.dumps(meta.extra) when the field is not None, a string-typed Empty when it is.
            # (if/else with two stores, a conditional expression, a local in between, none_to_empty applied to the JSON text are the same table)
            stores = [(v, s) for k, v, s in w_meta if k == 'extra']
            gm = guard_map(f_wm.node)
            own = test_owner(f_wm.node)
            table = []
            for v, s in stores:
                for at, val in cases(deep(f_wm.node, v, s)):
                    at = set(at) | deep_atoms(f_wm.node, gm, s, own)
                    if not _contradictory(at):
                        table.append((at, simplify_none_to_empty(m, f_wm, val)))
            isn, notn = ('is', 'None', f'{metap}.extra'), ('isnot', 'None', f'{metap}.extra')
            dumps = [(at, v) for at, v in table if notn in at]
            empt = [(at, v) for at, v in table if isn in at]
            okx = len(table) == 2 and len(dumps) == 1 and len(empt) == 1 and u(dumps[0][1]) == f'json.dumps({metap}.extra)' and is_str_empty(m, f_wm, empt[0][1])
            rep.add('H3', f_wm.site(stores[0][1] if stores else None), 'extra is stored as JSON text, or Empty when None', okx, expected='json.dumps(meta.extra) when meta.extra is not None / h5.Empty(STR_DTYPE) when it is None',
                    found=[(sorted(at), u(v)) for at, v in table] or [u(s) for _, s in stores], stmt='extra write')
            # read: None when the stored value is Empty, json.loads of the stored text otherwise
            cst_rm = next(s for s in stmts_in(f_rm.node.body) if any(x is ctor[0] for x in ast.walk(s)) and not isinstance(s, (ast.If, ast.For, ast.While, ast.With, ast.Try)))
            rtable = cases(deep(f_rm.node, rv, cst_rm)) if rv is not None else []
            src = None
            ok = False
            loads_ = [(at, v) for at, v in rtable if isinstance(v, ast.Call) and u(v.func) == 'json.loads' and len(v.args) == 1 and not v.keywords]
            nones = [(at, v) for at, v in rtable if is_none(v)]
            if len(rtable) == 2 and len(loads_) == 1 and len(nones) == 1:
                src = loads_[0][1].args[0]
                ok = isinstance(src, ast.Call) and m.resolve_call(f_rm, src) == f'{H}.empty_to_none' and len(src.args) == 1 and isinstance(src.args[0], ast.Call) and u(src.args[0].func) == f'{g_rm}.attrs.get' \
                    and len(src.args[0].args) == 1 and not src.args[0].keywords and attr_key(ctx, f_rm, src.args[0].args[0]) == 'extra' \
                    and set(nones[0][0]) == {('is', 'None', u(src))} and set(loads_[0][0]) == {('isnot', 'None', u(src))}
            rep.add('H3', f_rm.site(ctor[0]), 'extra is restored by json.loads of the stored text, None when Empty', ok, expected="None if s is None else json.loads(s), s = empty_to_none(attrs.get('extra'))",
                    found=[(sorted(at), u(v)) for at, v in rtable], stmt='extra read')
            continue
        okw = wv is not None and isinstance(wv[0], ast.Call) and m.resolve_call(f_wm, wv[0]) == f'{H}.none_to_empty' and u(wv[0].args[0]) == f'{metap}.{fld}' \
            and m.resolve(f_wm.module, wv[0].args[1]) == f'{H}.STR_DTYPE'
        rep.add('H3', f_wm.site(wv[1]) if wv else f_wm.site(), f'{fld}: written from the field of the same name, None as a string-typed Empty', okw, expected=f"attrs['{fld}'] = none_to_empty(meta.{fld}, STR_DTYPE)",
                found=u(wv[1]) if wv else None, stmt=f'write {fld}')
        e = load_of(rv)
        okr = isinstance(e, ast.Call) and m.resolve_call(f_rm, e) == f'{H}.empty_to_none' and isinstance(e.args[0], ast.Call) and u(e.args[0].func) == f'{g_rm}.attrs.get' \
            and attr_key(ctx, f_rm, e.args[0].args[0]) == fld
        rep.add('H3', f_rm.site(ctor[0]), f'{fld}: restored from the attribute of the same name, Empty as None', okr, expected=f"{fld}=empty_to_none(attrs.get('{fld}'))", found=u(e), stmt=f'read {fld}')
    fn_ne = m.func(f'{H}.none_to_empty')
    b = [s for s in fn_ne.node.body if isinstance(s, ast.Return)]
    p0, p1 = fn_ne.params()[:2]
    okne = len(b) == 1 and isinstance(b[0].value, ast.IfExp) and atoms(b[0].value.test) == {('is', 'None', p0)} and u(b[0].value.body) in (f'h5.Empty({p1})', f'h5py.Empty({p1})') and u(b[0].value.orelse) == p0
    rep.add('H3', fn_ne.site(), 'none_to_empty maps None to Empty and passes everything else through', okne, expected=f'h5.Empty({p1}) if {p0} is None else {p0}', found=[u(x.value) for x in b], stmt='none_to_empty')
    fn_en = m.func(f'{H}.empty_to_none')
    b = [s for s in fn_en.node.body if isinstance(s, ast.Return)]
    p0 = fn_en.params()[0]
    oken = len(b) == 1 and isinstance(b[0].value, ast.IfExp) and is_none(b[0].value.body) and u(b[0].value.test) in (f'isinstance({p0}, h5.Empty)', f'isinstance({p0}, h5py.Empty)') and u(b[0].value.orelse) == p0
    rep.add('H3', fn_en.site(), 'empty_to_none maps Empty to None and passes everything else through', oken, expected=f'None if isinstance({p0}, h5.Empty) else {p0}', found=[u(x.value) for x in b], stmt='empty_to_none')
    rep.functions.update({fn_ne.qualname, fn_en.qualname})

    # ------------------------------------------------------------------ H4 / H5
    _, gd, sigs, idsp = f_ds.params()[:4]
    gmd = guard_map(f_ds.node)
    creates = [c for c in calls_in(f_ds.node) if u(c.func) == f'{gd}.create_dataset']
    by_name = {}
    for c in creates:
        st = next(s for s in stmts_in(f_ds.node.body) if any(x is c for x in ast.walk(s)) and isinstance(s, (ast.Assign, ast.Expr)))
        by_name.setdefault(attr_key(ctx, f_ds, c.args[0]), []).append((c, path_atoms(gmd[st]), st))
    isarr = ('true', f'isinstance({sigs}, SignatureArray)')
    notarr = ('false', f'isinstance({sigs}, SignatureArray)')
    okn = set(by_name) == {'ids', 'values', 'bounds'} and len(by_name['ids']) == 1 and len(by_name['values']) == 2 and len(by_name['bounds']) == 2
    rep.add('H4', f_ds.site(), 'both write paths create exactly the datasets ids, values and bounds', okn, expected="ids x1, values x2, bounds x2", found={k: len(v) for k, v in by_name.items()}, stmt='datasets written')
    rep.require(okn, '_init_datasets: dataset creation sites not recognised')
    # ... and every file gets them: no `return` leaves _init_datasets before, on its own path, ids, values and bounds have been
    # created (an empty or one-signature collection still needs all three - the reader opens them unconditionally)
    def _gs(st_):
        return {(id(t_), bool(p_)) for t_, p_ in gmd.get(st_, ())}
    early = []
    for r_ in [x for x in ast.walk(f_ds.node) if isinstance(x, ast.Return)]:
        for nm in ('ids', 'values', 'bounds'):
            done = any(st_.lineno < r_.lineno and _gs(st_) <= _gs(r_) for _, _, st_ in by_name[nm])
            if not done:
                early.append(f'line {r_.lineno}: returns before the dataset {nm!r} is created')
    rep.add('H4', f_ds.site(), 'no exit leaves a file without one of its datasets', not early, expected='ids, values and bounds created on every path that returns', found=early[:3] or 'ok', stmt='dataset exits')
    reads = {}
    for n in ast.walk(f_init.node):
        if isinstance(n, ast.Subscript) and u(n.value) == g_in and isinstance(n.ctx, ast.Load):
            reads[attr_key(ctx, f_init, n.slice)] = n
    rep.add('H4', f_init.site(), 'the reader opens the same three datasets (raising form)', set(reads) == {'ids', 'values', 'bounds'}, expected=['bounds', 'ids', 'values'], found=sorted(map(str, reads)), stmt='datasets read')
    assigns = {u(s.targets[0]): u(s.value) for s in f_init.node.body if isinstance(s, ast.Assign)}
    rep.add('H4', f_init.site(), 'values and bounds are bound to the datasets of those names (not crossed)', assigns.get('self.values') == f"{g_in}['values']" and assigns.get('self.bounds') == f"{g_in}['bounds']",
            expected="self.values = group['values']; self.bounds = group['bounds']", found={k: v for k, v in assigns.items() if k in ('self.values', 'self.bounds')}, stmt='dataset binding')
    # array path
    va = next((c for c, at, _ in by_name['values'] if isarr in at), None)
    ba = next((c for c, at, _ in by_name['bounds'] if isarr in at), None)
    rep.add('H5', f_ds.site(va), 'array path: values written from signatures.values with no dtype override', va is not None and u(get_kw(va, 'data')) == f'{sigs}.values' and get_kw(va, 'dtype') is None,
            expected=f'create_dataset("values", data={sigs}.values, **values_kw)', found=u(va), stmt='array values')
    rep.add('H5', f_ds.site(ba), 'array path: bounds written from signatures.bounds as BOUNDS_DTYPE', ba is not None and u(get_kw(ba, 'data')) == f'{sigs}.bounds' and u(get_kw(ba, 'dtype')) == 'BOUNDS_DTYPE',
            expected=f'create_dataset("bounds", data={sigs}.bounds, dtype=BOUNDS_DTYPE)', found=u(ba), stmt='array bounds')
    # list path.  The 'bounds' content B is either (a) the dataset handle `B = create_dataset('bounds', shape=S, dtype=...)` filled by stores
    # afterwards, or (b) an in-memory array `B = np.zeros/np.empty(S, dtype=...)` filled by stores and THEN written with
    # `create_dataset('bounds', data=B, dtype=...)`.  Either way the obligations are about B: S = n + 1, B[0] = 0, B[1:] = cumsum(sizes).
    vl = next(((c, st) for c, at, st in by_name['values'] if notarr in at), (None, None))
    bl = next(((c, st) for c, at, st in by_name['bounds'] if notarr in at), (None, None))
    rep.require(vl[0] is not None and bl[0] is not None, '_init_datasets: list path dataset creation (values / bounds outside the SignatureArray case) not found')
    rep.require(isinstance(vl[1], ast.Assign) and isinstance(vl[1].targets[0], ast.Name), '_init_datasets: list path values dataset is not bound to a local (the per-signature fill cannot be located)')
    vname = u(vl[1].targets[0])
    locs = {u(s.targets[0]): s.value for s in stmts_in(f_ds.node.body) if isinstance(s, ast.Assign) and isinstance(s.targets[0], ast.Name)}
    env = {f'len({sigs})': sym('n')}
    for k, v in locs.items():
        if u(v) == f'len({sigs})':
            env[k] = sym('n')
    bdata = get_kw(bl[0], 'data')
    in_memory = bdata is not None
    zero_init = False
    bdef = None
    if not in_memory:
        rep.require(isinstance(bl[1], ast.Assign) and isinstance(bl[1].targets[0], ast.Name), '_init_datasets: list path bounds dataset is created empty but not bound to a local (its stores cannot be located)')
        bname = u(bl[1].targets[0])
        bshape_e, bdtypes = get_kw(bl[0], 'shape'), [u(get_kw(bl[0], 'dtype'))]
    else:
        rep.require(isinstance(bdata, ast.Name), f'_init_datasets: list path bounds written from {u(bdata)}: not a local array whose construction can be followed')
        bname = bdata.id
        bdef = binding_def(f_ds.node, bname, bl[1])
        bval = def_value(bdef) if bdef not in (None, PARAM, AMBIGUOUS) else None
        rep.require(isinstance(bval, ast.Call) and u(bval.func) in ('np.zeros', 'numpy.zeros', 'np.empty', 'numpy.empty'), f'_init_datasets: list path bounds array {bname} is not built by np.zeros / np.empty(shape, dtype=...): {u(bval)}')
        zero_init = u(bval.func).endswith('zeros')
        bshape_e, bdtypes = get_arg(bval, 0, 'shape'), [u(get_arg(bval, 1, 'dtype')), u(get_kw(bl[0], 'dtype'))]
    shp = Aff.try_of(bshape_e, env) if bshape_e is not None and bshape_e is not Ellipsis else None
    rep.add('H4', f_ds.site(bl[0]), 'list path: bounds has len(signatures) + 1 entries of BOUNDS_DTYPE', shp == sym('n').plus(1) and all(d == 'BOUNDS_DTYPE' for d in bdtypes), expected='shape=n + 1, dtype=BOUNDS_DTYPE' + (' (array and dataset)' if in_memory else ''),
            found=(u(def_value(bdef)) + '; ' if in_memory else '') + u(bl[0]), stmt='list bounds shape')
    stores = [s for s in stmts_in(f_ds.node.body) if isinstance(s, ast.Assign) and isinstance(s.targets[0], ast.Subscript) and u(s.targets[0].value) == bname]
    b0 = [s for s in stores if u(s.targets[0].slice) == '0']
    b1 = [s for s in stores if isinstance(s.targets[0].slice, ast.Slice) and u(s.targets[0].slice.lower) == '1' and s.targets[0].slice.upper is None and s.targets[0].slice.step is None]
    okb0 = (len(b0) == 1 and is_const(b0[0].value, 0) and len(stores) == 2) or (zero_init and not b0 and len(stores) == 1)
    # in-memory array: every store must happen before the array is copied into the file, in the same straight-line block
    okorder = True
    if in_memory:
        blk = block_path(f_ds.node, bl[1])[-1]
        okorder = all(s in blk[0] and blk[0].index(bdef) < blk[0].index(s) < blk[1] for s in stores) if bdef in blk[0] else False
    okb1 = False
    szname = None
    if len(b1) == 1 and isinstance(b1[0].value, ast.Call) and u(b1[0].value.func) in ('np.cumsum', 'numpy.cumsum'):
        szname = u(b1[0].value.args[0])
        szdef = locs.get(szname)
        okb1 = (szdef is not None and u(szdef) in (f'np.asarray({sigs}.sizes())', f'{sigs}.sizes()', f'np.array({sigs}.sizes())')) or szname in (f'np.asarray({sigs}.sizes())', f'{sigs}.sizes()', f'np.array({sigs}.sizes())')
    rep.add('H4', f_ds.site(b0[0] if b0 else bl[0]), 'list path: bounds[0] = 0', okb0, expected=f'{bname}[0] = 0' + (' (or zero-initialised array)' if in_memory else ''), found=[u(s) for s in stores], stmt='list bounds[0]')
    rep.add('H4', f_ds.site(b1[0] if b1 else bl[0]), 'list path: bounds[1:] = cumulative sizes of the signatures in order' + (', stored before the array is written' if in_memory else ''), okb1 and okorder,
            expected=f'{bname}[1:] = np.cumsum({sigs}.sizes())', found=[u(s) for s in stores], stmt='list bounds[1:]')
    vshape = get_kw(vl[0], 'shape')
    okvs = vshape is not None and u(vshape) in (f'int({bname}[-1])', f'{bname}[-1]') and u(get_kw(vl[0], 'dtype')) == f'{sigs}.dtype'
    rep.add('H5', f_ds.site(vl[0]), 'list path: values sized by the last bound and typed like the collection', okvs, expected=f'shape=int({bname}[-1]), dtype={sigs}.dtype', found=u(vl[0]), stmt='list values')
    # fill: the loop is read as "for I in range(count): <targets> = <element expressions in I>"; range / enumerate / zip / slices of the
    # bounds are all reduced to expressions in the running index, then the store must be values[B[I] : B[I+1]] = signatures[I], count = n
    fills = [s for s in stmts_in(f_ds.node.body) if isinstance(s, ast.Assign) and isinstance(s.targets[0], ast.Subscript) and u(s.targets[0].value) == vname]
    okf = False
    found_fill = [u(s) for s in fills]
    if len(fills) == 1:
        fs = fills[0]
        bp = block_path(f_ds.node, fs)
        loop = next((o for (_, _, o) in reversed(bp) if isinstance(o, (ast.For, ast.While))), None)
        sl = fs.targets[0].slice
        if isinstance(loop, ast.For) and isinstance(sl, ast.Slice) and sl.step is None and not loop.orelse:
            lens = dict(env)
            if shp is not None:
                lens[f'len({bname})'] = shp
            count, elem = iter_model(loop.iter, lens)
            binding = bind_target(loop.target, elem(ast.Name(id=IDX, ctx=ast.Load())))
            rebound = [s for s in stmts_in(loop.body) for t in assigned_targets(s) for x in ast.walk(t) if isinstance(x, ast.Name) and isinstance(x.ctx, ast.Store) and x.id in binding]
            rep.require(not rebound, '_init_datasets: a loop variable of the fill loop is reassigned in the body')
            lo, hi, val = (_subst(x, binding) if x is not None else None for x in (sl.lower, sl.upper, fs.value))
            found_fill = [f'for {IDX} in range({count}): {vname}[{u(lo)}:{u(hi)}] = {u(val)}']

            def at_index(e, base, off):
                return isinstance(e, ast.Subscript) and u(e.value) == base and not isinstance(e.slice, ast.Slice) and Aff.try_of(e.slice, env) == sym(IDX).plus(off)
            okf = count == sym('n') and at_index(lo, bname, 0) and at_index(hi, bname, 1) and at_index(val, sigs, 0) and bp[-1][2] is loop
    rep.add('H4', f_ds.site(fills[0] if fills else vl[0]), 'list path: signature i is written to values[bounds[i] : bounds[i+1]] for every i (the slice the reader uses)', okf,
            expected=f'for i in range(n): {vname}[{bname}[i]:{bname}[i + 1]] = {sigs}[i]', found=found_fill, stmt='list fill')
    # ... and the fill is reached: no return / break between the creation of the values dataset and the end of the fill loop
    if len(fills) == 1:
        fs = fills[0]
        loop_ = next((o for (_, _, o) in reversed(block_path(f_ds.node, fs)) if isinstance(o, (ast.For, ast.While))), None)
        vst = next((st_ for c_, _, st_ in by_name['values'] if c_ is vl[0]), None)
        lo_line = getattr(vst, 'lineno', fs.lineno)
        hi_line = getattr(loop_, 'end_lineno', fs.lineno) if loop_ is not None else fs.lineno
        cut = [x for x in ast.walk(f_ds.node) if isinstance(x, (ast.Return, ast.Break)) and lo_line < x.lineno <= hi_line]
        gfs = {(id(t_), bool(p_)) for t_, p_ in gmd.get(fs, ())} - {(id(t_), bool(p_)) for t_, p_ in gmd.get(vst, ())} if vst is not None else set()
        rep.add('H4', f_ds.site(cut[0] if cut else fs), 'list path: every signature is copied once the dataset exists (no exit / extra guard before or inside the fill loop)', not cut and not gfs,
                expected='creation of values, then the fill loop, unconditionally', found=[f'line {x.lineno}: {u(x)}' for x in cut] + ([f'fill guarded by an extra test'] if gfs else []) or 'ok', stmt='list fill reached')
    for c, nm in ((va, 'array'), (vl[0], 'list')):
        rep.add('H5', f_ds.site(c), f'{nm} path: compression options are forwarded to the values dataset only', c is not None and has_starstar(c), expected='**values_kw', found=u(c), stmt=f'{nm} compression')
    # ids: the (data, dtype) handed to create_dataset('ids', ...) is computed by EXECUTING the function body for every numpy dtype kind
    # (finite domain), whatever the shape of the dispatch (if/elif order, grouped kinds, a local holding the kind, nested conversion)
    ic, iat, ist = by_name['ids'][0]
    ktable = {}
    for ch in NUMPY_KINDS:
        try:
            ktable[ch] = run_id_dispatch(m, f_ds, idsp, ch, ic)
        except Undecided as e:
            raise Undecided(f'_init_datasets: id dispatch not evaluable for dtype kind {ch!r}: {e}')
    STRD = ('h5.string_dtype()', 'h5py.string_dtype()', f'{H}.STR_DTYPE')
    shown = {k: v for k, v in ktable.items()}
    okk = all(ktable[k][0] == 'write' and ktable[k][2] in STRD for k in 'UOS') and all(ktable[k][0] == 'write' and ktable[k][2] == f'{idsp}.dtype' for k in 'ui')
    rep.add('H5', f_ds.site(ist), 'id kinds: unicode/object/bytes ids stored as variable-length strings, integer ids in their own dtype', okk, expected="U,O,S -> string dtype; u,i -> ids.dtype", found={k: shown[k] for k in 'UOSui'}, stmt='id kinds')
    okc = ktable['U'][:2] == ('write', f'{idsp}.astype(object)') and all(ktable[k][:2] == ('write', idsp) for k in 'OSui')
    rep.add('H5', f_ds.site(ist), 'unicode ids are converted to objects only in the unicode branch', okc, expected=f"data = {idsp}.astype(object) for kind 'U', {idsp} unchanged for O, S, u, i", found={k: shown[k][:2] for k in 'UOSui'}, stmt='unicode ids')
    others = [k for k in NUMPY_KINDS if k not in 'UOSui']
    rs = [s for s in stmts_in(f_ds.node.body) if isinstance(s, ast.Raise)]
    rep.add('H5', f_ds.site(rs[0] if rs else ist), 'any other id type is rejected', all(ktable[k] == ('raise', 'ValueError', None) for k in others), expected='raise ValueError before writing', found={k: shown[k] for k in others}, stmt='id reject')
    rep.add('H5', f_ds.site(ic), 'ids are written from the (converted) id array with the chosen dtype', get_kw(ic, 'data') is not None and get_kw(ic, 'dtype') is not None and len(ic.args) == 1 and {k.arg for k in ic.keywords} == {'data', 'dtype'},
            expected=f'create_dataset("ids", data={idsp}, dtype=<chosen dtype>)', found=u(ic), stmt='ids write')
    gmi = guard_map(f_init.node)
    owni = test_owner(f_init.node)
    # what is stored in self.ids, by cases (if/else with two stores, a conditional expression, a local view in between are the same table):
    # <ids dataset>.asstr()[:] exactly when the dataset's dtype kind is 'O', <ids dataset>[:] otherwise
    idset = [s for s in stmts_in(f_init.node.body) if isinstance(s, ast.Assign) and any(u(t) == 'self.ids' for t in s.targets)]
    itable = []
    for s in idset:
        for at, val in cases(deep(f_init.node, s.value, s)):
            at = set(at) | deep_atoms(f_init.node, gmi, s, owni)
            if not _contradictory(at):
                itable.append((at, val))
    dsx = f"{g_in}['ids']"
    is_o, not_o = ('eq', "'O'", f'{dsx}.dtype.kind'), ('ne', "'O'", f'{dsx}.dtype.kind')
    dec = [(at, v) for at, v in itable if is_o in at]
    raw = [(at, v) for at, v in itable if not_o in at]
    okd = len(itable) == 2 and len(dec) == 1 and len(raw) == 1 and u(dec[0][1]) == f'{dsx}.asstr()[:]' and u(raw[0][1]) == f'{dsx}[:]'
    rep.add('H5', f_init.site(idset[0] if idset else None), 'string ids are decoded with asstr() on read, integer ids read as stored', okd, expected=f"{dsx}.asstr()[:] if {dsx}.dtype.kind == 'O' else {dsx}[:]",
            found=[(sorted(at), u(v)) for at, v in itable] or [u(s) for s in idset], stmt='ids read')

    # ------------------------------------------------------------------ H6
    gml = guard_map(f_ld.node)
    pth = f_ld.params()[0]
    opens = [c for c in calls_in(f_ld.node) if u(c.func) in ('h5.File', 'h5py.File')]
    rep.require(len(opens) == 1, 'load_signatures_hdf5: expected one h5.File call')
    op = opens[0]
    ost = next(s for s in f_ld.node.body if any(x is op for x in ast.walk(s)))
    exc_defs = [s for s in f_ld.node.body if isinstance(s, ast.Assign) and isinstance(s.value, ast.Call) and (m.resolve_call(f_ld, s.value) or '').endswith('SignaturesFileError')]
    excname = u(exc_defs[0].targets[0]) if exc_defs else None
    # the header is the VALUE of `<handle>.read(N)` on the handle of `with open(path, 'rb')`, N evaluating to 8 (a literal, or the length
    # of the constant it is compared with); it may be compared in place, through a local, or through a boolean local
    with_open = [s for s in f_ld.node.body if isinstance(s, ast.With) and any(isinstance(i.context_expr, ast.Call) and u(i.context_expr.func) == 'open' for i in s.items)]
    handle = u(with_open[0].items[0].optional_vars) if with_open and with_open[0].items[0].optional_vars is not None else None
    hreads = [c for w in with_open for c in calls_in(w) if callee_attr(c) == 'read' and isinstance(c.func, ast.Attribute) and u(c.func.value) == handle]

    def const_of(node):
        if isinstance(node, ast.Call) and u(node.func) == 'len' and len(node.args) == 1 and not node.keywords:
            v = const_of(node.args[0])
            return len(v) if isinstance(v, (bytes, str, tuple, list)) else None
        try:
            return m.const_value(f_ld.module, node)
        except Undecided:
            return None
    okh = len(hreads) == 1 and len(hreads[0].args) == 1 and not hreads[0].keywords and const_of(hreads[0].args[0]) == 8
    htext = u(hreads[0]) if hreads else None
    MAGIC = b'\x89HDF\r\n\x1a\n'

    def hkey(node):
        if htext is not None and u(node) == htext:
            return '<header>'
        c = const_of(node) if not isinstance(node, ast.Call) else None
        return repr(c) if isinstance(c, (bytes, str, int)) and not isinstance(c, bool) else u(node)
    ownl = test_owner(f_ld.node)
    magic = repr(MAGIC)
    at = deep_atoms(f_ld.node, gml, ost, ownl, hkey)
    okm = any(a[0] == 'eq' and set(a[1:]) == {'<header>', magic} for a in at)
    rep.add('H6', f_ld.site(ost), 'the file is opened with h5py only after its first 8 bytes equal the HDF5 magic number', okh and okm, expected=f'<header> == {magic} on the path to h5.File, <header> = {handle}.read(8)',
            found=dict(header=htext, path=sorted(at)), stmt='magic guard')
    raises = [s for s in stmts_in(f_ld.node.body) if isinstance(s, ast.Raise)]
    mr = [r for r in raises if any(a[0] == 'ne' and '<header>' in a[1:] for a in deep_atoms(f_ld.node, gml, r, ownl, hkey))]
    rep.add('H6', f_ld.site(mr[0] if mr else ost), 'a foreign (non-HDF5) file raises the dedicated SignaturesFileError', len(mr) == 1 and u(mr[0].exc) == excname and excname is not None, expected=f'raise {excname} (SignaturesFileError)',
            found=[u(r) for r in mr], stmt='magic refusal')
    okwo = len(with_open) == 1 and [u(a) for a in with_open[0].items[0].context_expr.args] in ([pth, "'rb'"],) and f_ld.node.body.index(with_open[0]) < f_ld.node.body.index(ost)
    rep.add('H6', f_ld.site(with_open[0] if with_open else ost), 'the magic bytes are read from the same path in binary mode and the handle is closed again', okwo, expected=f"with open({pth}, 'rb')", found=[u(w)[:50] for w in with_open],
            stmt='magic read')
    ctor = [c for c in calls_in(f_ld.node) if m.resolve_call(f_ld, c) == f'{H}.HDF5Signatures']
    rep.require(len(ctor) == 1, 'load_signatures_hdf5: expected one HDF5Signatures construction')
    cst = next(s for s in stmts_in(f_ld.node.body) if any(x is ctor[0] for x in ast.walk(s)) and isinstance(s, (ast.Return, ast.Assign)))
    fh = u(ost.targets[0]) if isinstance(ost, ast.Assign) else None
    atc = path_atoms(gml[cst])
    okmk = any(a[0] == 'in' and a[2] == f'{fh}.attrs' and a[1] in ('FMT_VERSION_ATTR', "'gambit_signatures_version'") for a in atc)
    rep.add('H6', f_ld.site(cst), 'an HDF5 file of another kind (no format marker) is refused before a collection is built', okmk, expected=f'FMT_VERSION_ATTR in {fh}.attrs on the path', found=sorted(atc), stmt='marker guard')
    mk = [r for r in raises if any(a[0] == 'notin' and a[2] == f'{fh}.attrs' for a in path_atoms(gml[r]))]
    rep.add('H6', f_ld.site(mk[0] if mk else cst), 'the missing marker raises the dedicated SignaturesFileError', len(mk) == 1 and u(mk[0].exc) == excname, expected=f'raise {excname}', found=[u(r) for r in mk], stmt='marker refusal')
    rep.account_returns('H6', f_ld, [cst] if isinstance(cst, ast.Return) else [], 'loaded collection')
    rep.add('H6', f_ld.site(cst), 'the collection is built on the opened file', [u(a) for a in ctor[0].args] == [fh], expected=f'HDF5Signatures({fh})', found=u(ctor[0]), stmt='constructor operand')
    # constructor: marker test first, raising SignaturesFileError
    first_raise = next((s for s in stmts_in(f_init.node.body) if isinstance(s, ast.Raise)), None)
    # statement ORDER, not line numbers: statements of an expanded helper keep the helper's own line numbers
    _seq = list(stmts_in(f_init.node.body))

    def _pos(node):
        return next((i for i, s_ in enumerate(_seq) if any(x is node for x in ast.walk(s_)) and not isinstance(s_, (ast.If, ast.For, ast.While, ast.With, ast.Try))),
                    next((i for i, s_ in enumerate(_seq) if any(x is node for x in ast.walk(s_))), len(_seq)))
    loads_before = [n for (k, form, n) in r_core if form == 'raising' and first_raise is not None and _pos(n) < _pos(first_raise)]
    okfr = first_raise is not None and (raised_name(first_raise) or '').endswith('SignaturesFileError') and any(a[0] == 'notin' and a[2] == f'{g_in}.attrs' for a in path_atoms(gmi[first_raise])) and not loads_before
    rep.add('H6', f_init.site(first_raise), 'the constructor refuses a group without the marker with SignaturesFileError before any other read', okfr, expected='if FMT_VERSION_ATTR not in group.attrs: raise SignaturesFileError',
            found=u(first_raise)[:70] if first_raise is not None else None, stmt='constructor marker')
    ver = [s for s in stmts_in(f_init.node.body) if isinstance(s, ast.Raise) and s is not first_raise]
    okv = any(any(a[0] == 'ne' and 'CURRENT_FMT_VERSION' in a for a in path_atoms(gmi[r])) for r in ver)
    rep.add('H6', f_init.site(ver[0] if ver else None), 'an unknown format version is refused', okv, expected='raise under format_version != CURRENT_FMT_VERSION', found=[u(r)[:60] for r in ver], stmt='version guard')
    req_forms = {k: form for (k, form, n) in r_core if k in ('kmerspec_k', 'kmerspec_prefix', 'gambit_signatures_version') and form != 'contains'}
    rep.add('H6', f_init.site(), 'required attributes are read with the raising form (a truncated file cannot load with defaults)', all(f == 'raising' for f in req_forms.values()) and len(req_forms) == 3, expected='group.attrs[...]',
            found=req_forms, stmt='required attribute form')
    ffe = m.cls('gambit.sigs.base.SignaturesFileError')
    rep.add('H6', ffe.site(), 'SignaturesFileError is an Exception subclass of its own', ffe.bases == ['Exception'], expected=['Exception'], found=ffe.bases, stmt='error class')
    # load_signatures dispatches here, and only path/**kw flow
    fl = m.func('gambit.sigs.base.load_signatures')
    rets = [s for s in fl.node.body if isinstance(s, ast.Return)]
    rep.add('H6', fl.site(), 'load_signatures is the HDF5 loader (the only format)', len(rets) == 1 and u(rets[0].value) == f'load_signatures_hdf5({fl.params()[0]}, **kw)', expected='load_signatures_hdf5(path, **kw)', found=[u(r.value) for r in rets],
            stmt='load dispatch')

    # ------------------------------------------------------------------ H7
    kp = f_ia.params()[2]
    wk = {k: u(v) for k, v, _ in w_core}
    rep.add('H7', f_ia.site(), 'k and the prefix string are written from the collection parameters', wk.get('kmerspec_k') == f'{kp}.k' and wk.get('kmerspec_prefix') == f'{kp}.prefix_str', expected=f'{kp}.k, {kp}.prefix_str',
            found={k: v for k, v in wk.items() if str(k).startswith('kmerspec')}, stmt='kmerspec write')
    ks = [s for s in f_init.node.body if isinstance(s, ast.Assign) and u(s.targets[0]) == 'self.kmerspec']
    okk = len(ks) == 1 and isinstance(ks[0].value, ast.Call) and m.resolve_call(f_init, ks[0].value) == 'gambit.kmers.KmerSpec' \
        and [u(a) for a in ks[0].value.args] == [f"{g_in}.attrs['kmerspec_k']", f"{g_in}.attrs['kmerspec_prefix']"]
    rep.add('H7', f_init.site(ks[0] if ks else None), 'parameters are restored as KmerSpec(k, prefix) from the attributes of those names', okk, expected="KmerSpec(attrs['kmerspec_k'], attrs['kmerspec_prefix'])",
            found=[u(s.value) for s in ks], stmt='kmerspec read')
    okmarker = wk.get('gambit_signatures_version') == 'CURRENT_FMT_VERSION'
    rep.add('H7', f_ia.site(), 'the format marker carries the current format version', okmarker, expected='CURRENT_FMT_VERSION', found=wk.get('gambit_signatures_version'), stmt='marker write')

    # ------------------------------------------------------------------ H8
    gmc = guard_map(f_cr.node)
    _, gc, sc = f_cr.params()[:3]
    rs = [s for s in stmts_in(f_cr.node.body) if isinstance(s, ast.Raise)]
    ia_pre = [c for c in calls_in(f_cr.node) if u(c.func) == 'cls._init_attrs']
    ds_pre = [c for c in calls_in(f_cr.node) if u(c.func) == 'cls._init_datasets']
    idn = u(ds_pre[0].args[2]) if ds_pre and len(ds_pre[0].args) > 2 else 'ids'
    metan = u(ia_pre[0].args[2]) if ia_pre and len(ia_pre[0].args) > 2 else 'meta'
    oks = any(raised_name(r) == 'ValueError' and any(a[0] == 'ne' and f'{idn}.shape' in a and f'(len({sc}),)' in a for a in path_atoms(gmc[r])) for r in rs)
    rep.add('H8', f_cr.site(rs[0] if rs else None), 'one id per signature is enforced on write', oks, expected=f'raise ValueError when ids.shape != (len({sc}),)', found=[(u(r)[:40], sorted(path_atoms(gmc[r]))) for r in rs], stmt='id count')
    ia = [c for c in calls_in(f_cr.node) if u(c.func) == 'cls._init_attrs']
    ds = [c for c in calls_in(f_cr.node) if u(c.func) == 'cls._init_datasets']
    kwn = get_arg(ds[0], 3, 'values_kw') if ds else None
    kwd = def_value(reaching_def(f_cr.node, kwn.id, next(s for s in f_cr.node.body if any(x is ds[0] for x in ast.walk(s))))) if isinstance(kwn, ast.Name) else kwn
    okc = len(ia) == 1 and len(ds) == 1 and [u(a) for a in ia[0].args] == [gc, f'{sc}.kmerspec', metan] and [u(a) for a in ds[0].args[:3]] == [gc, sc, idn] \
        and isinstance(kwd, ast.Call) and u(kwd.func) == 'dict' and {k.arg: u(k.value) for k in kwd.keywords} == {'compression': 'compression', 'compression_opts': 'compression_opts'}
    rep.add('H8', f_cr.site(ia[0] if ia else None), 'attributes (own kmerspec, own metadata) and datasets (own signatures, own ids) are written into the same group', okc, expected='_init_attrs(group, signatures.kmerspec, meta); _init_datasets(group, signatures, ids, values_kw=kw)',
            found=[u(c) for c in ia + ds], stmt='create writes')
    metas = [s for s in stmts_in(f_cr.node.body) if isinstance(s, ast.Assign) and u(s.targets[0]) == metan]
    idsd = [s for s in stmts_in(f_cr.node.body) if isinstance(s, ast.Assign) and u(s.targets[0]) == idn]
    isref = ('true', f'isinstance({sc}, ReferenceSignatures)')
    okmeta = any(u(s.value) == f'{sc}.meta' and isref in path_atoms(gmc[s]) for s in metas) and any(u(s.value) == f'np.asarray({sc}.ids)' and isref in path_atoms(gmc[s]) for s in idsd)
    rep.add('H8', f_cr.site(metas[0] if metas else None), 'ids and metadata of an annotated collection are the ones stored', okmeta, expected=f'ids = np.asarray({sc}.ids); meta = {sc}.meta', found=[u(s) for s in metas + idsd], stmt='create sources')
    last = f_cr.node.body[-1]
    rep.account_returns('H8', f_cr, [last] if isinstance(last, ast.Return) else [], 'written collection')
    rep.add('H8', f_cr.site(last), 'create returns the reader over the group it has just written', isinstance(last, ast.Return) and u(last.value) == f'cls({gc})', expected=f'cls({gc})', found=u(last), stmt='create result')
    body = [s for s in f_dp.node.body if not (isinstance(s, ast.Expr) and isinstance(s.value, ast.Constant))]
    okd = len(body) == 1 and isinstance(body[0], ast.With) and len(body[0].items) == 1 and u(body[0].items[0].context_expr) in (f"h5.File({f_dp.params()[0]}, 'w')",) \
        and len(body[0].body) == 1 and u(body[0].body[0]) == f'HDF5Signatures.create({u(body[0].items[0].optional_vars)}, {f_dp.params()[1]}, **kw)'
    rep.add('H8', f_dp.site(), 'dump is a single open-write-close of a new file', okd, expected="with h5.File(path, 'w') as f: HDF5Signatures.create(f, signatures, **kw)", found=[u(s)[:90] for s in body], stmt='dump')
    fdz = m.func('gambit.sigs.base.dump_signatures')
    dcalls = [c for c in calls_in(fdz.node) if callee(c) == 'dump_signatures_hdf5']
    rep.add('H8', fdz.site(), 'dump_signatures forwards path and collection to the HDF5 writer', len(dcalls) == 1 and [u(a) for a in dcalls[0].args] == fdz.params()[:2], expected='dump_signatures_hdf5(path, signatures, **kw)',
            found=[u(c) for c in dcalls], stmt='dump dispatch')

    # ------------------------------------------------------------------ H9 / X3-X5
    # "for every index, slice or index list, the same signatures with the same integer type": the object handed back by the loader
    # is an HDF5Signatures over the datasets checked above (H4 'dataset binding'); what indexing it yields is decided by the methods
    # it INHERITS.  Establish which ones those are, then re-evaluate the C20 selection rules on exactly them.
    check_inherited_indexing(ctx, cls)


INDEX_PROTOCOL = ('__getitem__', '_check_index', '_getitem_int', '_getitem_slice', '_getitem_int_array', '_getitem_bool_array', '__len__', 'sizeof', 'sizes', 'dtype', '__iter__')


def _defines(ci, name):
    return name in ci.methods or name in ci.class_attrs


def check_inherited_indexing(ctx, cls):
    rep, m = ctx.rep, ctx.model
    from . import c20
    C = f'{c20.BASE}.ConcatenatedSignatureArray'
    conc = m.cls(C)
    chain_c = m.mro(C)
    chain_h = m.mro(cls.qualname)
    rep.add('H9', cls.site(), 'the reader class is a ConcatenatedSignatureArray (its values/bounds datasets are indexed by that implementation)', C in chain_h[1:], expected=C, found=chain_h[1:4], stmt='reader base class')
    rep.require(C in chain_h[1:], f'{cls.qualname} is not derived from ConcatenatedSignatureArray: the C20 slice / index-list rules do not describe what a loaded file yields')
    # Attribute lookup on the reader finds the same definition as on ConcatenatedSignatureArray when neither the reader itself nor any
    # ancestor OUTSIDE ConcatenatedSignatureArray's own ancestry defines the name (inside that ancestry C3 keeps the relative order).
    outside = [q for q in chain_h if q not in chain_c and q in m.classes]
    unknown = [q for q in chain_h[1:] if q not in chain_c and q not in m.classes and not q.startswith(('typing.', 'collections.abc.', 'builtins.'))]
    rep.require(not unknown, f'{cls.qualname} has base classes outside the analysed package besides its ConcatenatedSignatureArray ancestry: {unknown}')
    n = 0
    for name in INDEX_PROTOCOL:
        target = m.find_method(C, name)
        definers = [q for q in outside if _defines(m.classes[q], name)]
        if target is None and not any(_defines(m.classes[q], name) for q in chain_c if q in m.classes) and not definers:
            continue        # not defined anywhere in the package (inherited from collections.abc.Sequence, e.g. __iter__ -> __getitem__ + __len__)
        n += 1
        if definers:
            # an override would have to be the implementation analysed below; the C20 rules are written against ConcatenatedSignatureArray
            raise Undecided(f'{name} is overridden for the loaded collection by {definers}: the sub-collection rules (C20 X3-X5) analyse the ConcatenatedSignatureArray implementation, not this one')
        rep.add('H9', cls.site(), f'{name}: indexing a loaded file runs the analysed implementation', True, expected=target.qualname if target else f'{C} ancestry', found=target.qualname if target else 'class attribute', stmt=f'inherits {name}')
    rep.floor('H9', 'indexing protocol members resolved', n, 8)
    c20.check_arith(ctx)
    c20.check_subcollections(ctx)


from ..variants import V  # noqa: E402

_H = 'src/gambit/sigs/hdf5.py'
_B = 'src/gambit/sigs/base.py'
VARIANTS = [
    V('guard clause: a one-signature list returns before the values are copied (early-exit probe)', 'B', 'src/gambit/sigs/hdf5.py', "\t\t\tfor i in range(n):\n\t\t\t\tvalues[bounds[i]:bounds[i + 1]] = signatures[i]", "\t\t\tif n == 1:\n\t\t\t\treturn\n\t\t\tfor i in range(n):\n\t\t\t\tvalues[bounds[i]:bounds[i + 1]] = signatures[i]", 'H4'),
    V('guard clause: a one-signature collection returns before values and bounds are written (mutation probe)', 'B', 'src/gambit/sigs/hdf5.py', "\t\tgroup.create_dataset('ids', data=ids, dtype=ids_dtype)\n", "\t\tgroup.create_dataset('ids', data=ids, dtype=ids_dtype)\n\t\tif len(signatures) == 1:\n\t\t\treturn\n", 'H4'),
    V('E: the array path returns from its own branch', 'E', 'src/gambit/sigs/hdf5.py', "\t\t\tgroup.create_dataset('bounds', data=signatures.bounds, dtype=BOUNDS_DTYPE)\n", "\t\t\tgroup.create_dataset('bounds', data=signatures.bounds, dtype=BOUNDS_DTYPE)\n\t\t\treturn\n"),
    V("writer misspells 'id_attr'", 'B', _H, "group.attrs['id_attr'] = none_to_empty(meta.id_attr, STR_DTYPE)", "group.attrs['idattr'] = none_to_empty(meta.id_attr, STR_DTYPE)", 'H'),
    V('new metadata field not stored', 'B', _B, "\tdescription : Optional[str] = attrib(default=None, kw_only=True, repr=False)\n", "\tdescription : Optional[str] = attrib(default=None, kw_only=True, repr=False)\n\tsource : Optional[str] = attrib(default=None, kw_only=True)\n", 'H2'),
    V('bounds[:-1] = cumsum', 'B', _H, "bounds[1:] = np.cumsum(sizes, dtype=BOUNDS_DTYPE)", "bounds[:-1] = np.cumsum(sizes, dtype=BOUNDS_DTYPE)", 'H4'),
    V('list path drops dtype', 'B', _H, "shape=int(bounds[-1]), dtype=signatures.dtype, **values_kw)", "shape=int(bounds[-1]), **values_kw)", 'H5'),
    V('magic check after opening', 'B', _H, "\tif header != b'\\x89HDF\\r\\n\\x1a\\n':\n\t\traise exc\n\n\th5file = h5.File(path, **kw)\n", "\th5file = h5.File(path, **kw)\n\tif header != b'\\x89HDF\\r\\n\\x1a\\n':\n\t\traise exc\n", 'H6'),
    V('magic refusal raises ValueError', 'B', _H, "\tif header != b'\\x89HDF\\r\\n\\x1a\\n':\n\t\traise exc\n", "\tif header != b'\\x89HDF\\r\\n\\x1a\\n':\n\t\traise ValueError('not hdf5')\n", 'H6'),
    V('fill slice off by one', 'B', _H, "values[bounds[i]:bounds[i + 1]] = signatures[i]", "values[bounds[i]:bounds[i + 1]] = signatures[i - 1]", 'H4'),
    V('name written from id', 'B', _H, "group.attrs['name'] = none_to_empty(meta.name, STR_DTYPE)", "group.attrs['name'] = none_to_empty(meta.id, STR_DTYPE)", 'H3'),
    V('version restored from name', 'B', _H, "version=empty_to_none(group.attrs.get('version')),", "version=empty_to_none(group.attrs.get('name')),", 'H3'),
    V('kmerspec k read with default', 'B', _H, "KmerSpec(group.attrs['kmerspec_k'], group.attrs['kmerspec_prefix'])", "KmerSpec(group.attrs.get('kmerspec_k', 11), group.attrs['kmerspec_prefix'])", 'H'),
    V('marker guard dropped in loader', 'B', _H, "\tif FMT_VERSION_ATTR not in h5file.attrs:\n\t\traise exc\n", "", 'H6'),
    V('values/bounds crossed on read', 'B', _H, "\t\tself.values = group['values']\n\t\tself.bounds = group['bounds']", "\t\tself.values = group['bounds']\n\t\tself.bounds = group['values']", 'H4'),
    V('string ids not decoded', 'B', _H, "self.ids = ids_data.asstr()[:]", "self.ids = ids_data[:]", 'H5'),
    V('array path casts values to u4', 'B', _H, "group.create_dataset('values', data=signatures.values, **values_kw)", "group.create_dataset('values', data=signatures.values, dtype='u4', **values_kw)", 'H5'),
    V('empty_to_none inverted', 'B', _H, "return None if isinstance(value, h5.Empty) else value", "return value if isinstance(value, h5.Empty) else None", 'H3'),
    V('prefix written from bytes repr', 'B', _H, "group.attrs['kmerspec_prefix'] = kmerspec.prefix_str", "group.attrs['kmerspec_prefix'] = str(kmerspec.prefix)", 'H7'),
    V('id count check dropped', 'B', _H, "\t\t\tif ids.shape != (len(signatures),):\n\t\t\t\traise ValueError('Length of ids must match length of data')\n", "", 'H8'),
    V('E: fill via enumerate-free alias', 'E', _H, "\t\t\tn = len(signatures)\n", "\t\t\tn = len(signatures)  # number of signatures\n"),
    V('E: upper bound commuted', 'E', _H, "values[bounds[i]:bounds[i + 1]] = signatures[i]", "values[bounds[i]:bounds[1 + i]] = signatures[i]"),
]

# ---- generalised idioms: each new accepted form (E) with its broken twin (B)
_WM_OLD = ("\tgroup.attrs['id'] = none_to_empty(meta.id, STR_DTYPE)\n\tgroup.attrs['name'] = none_to_empty(meta.name, STR_DTYPE)\n\tgroup.attrs['id_attr'] = none_to_empty(meta.id_attr, STR_DTYPE)\n"
           "\tgroup.attrs['version'] = none_to_empty(meta.version, STR_DTYPE)\n\tgroup.attrs['description'] = none_to_empty(meta.description, STR_DTYPE)\n")
_TUP = "('id', 'name', 'id_attr', 'version', 'description')"
_RM_OLD = ("\treturn SignaturesMeta(\n\t\tid=empty_to_none(group.attrs.get('id')),\n\t\tname=empty_to_none(group.attrs.get('name')),\n\t\tid_attr=empty_to_none(group.attrs.get('id_attr')),\n"
           "\t\tversion=empty_to_none(group.attrs.get('version')),\n\t\tdescription=empty_to_none(group.attrs.get('description')),\n\t\textra=extra,\n\t)\n")
_XW_OLD = "\tif meta.extra is not None:\n\t\tgroup.attrs['extra'] = json.dumps(meta.extra)\n\telse:\n\t\tgroup.attrs['extra'] = h5.Empty(STR_DTYPE)\n"
_IDR_OLD = "\t\tif ids_data.dtype.kind == 'O':\n\t\t\t# String data set reads out bytes as default\n\t\t\tself.ids = ids_data.asstr()[:]\n\t\telse:\n\t\t\tself.ids = ids_data[:]\n"
_HDR_OLD = "\twith open(path, 'rb') as f:\n\t\theader = f.read(8)\n\tif header != b'\\x89HDF\\r\\n\\x1a\\n':\n\t\traise exc\n"
_KIND_OLD = ("\t\tif ids.dtype.kind == 'U':\n\t\t\t# h5py doesn't support writing Numpy U data type\n\t\t\tids = ids.astype(object)\n\t\t\tids_dtype = h5.string_dtype()\n\t\telif ids.dtype.kind in 'OS':\n"
             "\t\t\tids_dtype = h5.string_dtype()\n\t\telif ids.dtype.kind in 'ui':\n\t\t\tids_dtype = ids.dtype\n\t\telse:\n\t\t\traise ValueError('ids array must contain integers or strings.')\n")
_BND_OLD = "\t\t\tbounds = group.create_dataset('bounds', shape=n + 1, dtype=BOUNDS_DTYPE)\n\t\t\tbounds[0] = 0\n\t\t\tbounds[1:] = np.cumsum(sizes, dtype=BOUNDS_DTYPE)\n"
_FILL_OLD = "\t\t\tfor i in range(n):\n\t\t\t\tvalues[bounds[i]:bounds[i + 1]] = signatures[i]\n"


def _kind(inner_test, group='UOS'):
    return ("\t\tids_kind = ids.dtype.kind\n\t\tif ids_kind in 'ui':\n\t\t\tids_dtype = ids.dtype\n\t\telif ids_kind in '%s':\n\t\t\tif ids_kind == '%s':\n\t\t\t\tids = ids.astype(object)\n\t\t\tids_dtype = h5.string_dtype()\n"
            "\t\telse:\n\t\t\traise ValueError('ids array must contain integers or strings.')\n" % (group, inner_test))


VARIANTS += [
    # metadata written / read by loops over a constant tuple of names
    V('E: string fields written by a loop over a name tuple', 'E', _H, _WM_OLD, "\tfor name in " + _TUP + ":\n\t\tgroup.attrs[name] = none_to_empty(getattr(meta, name), STR_DTYPE)\n"),
    V('write loop takes every field from meta.name', 'B', _H, _WM_OLD, "\tfor name in " + _TUP + ":\n\t\tgroup.attrs[name] = none_to_empty(getattr(meta, 'name'), STR_DTYPE)\n", 'H3'),
    V('write loop over a tuple that lost a field', 'B', _H, _WM_OLD, "\tfor name in ('id', 'name', 'id_attr', 'description'):\n\t\tgroup.attrs[name] = none_to_empty(getattr(meta, name), STR_DTYPE)\n", 'H'),
    V('E: string fields read by a dict comprehension and passed as **fields', 'E', _H, _RM_OLD,
      "\tattrs = group.attrs\n\tfields = {name: empty_to_none(attrs.get(name)) for name in " + _TUP + "}\n\treturn SignaturesMeta(extra=extra, **fields)\n"),
    V('read comprehension forgets empty_to_none', 'B', _H, _RM_OLD,
      "\tattrs = group.attrs\n\tfields = {name: attrs.get(name) for name in " + _TUP + "}\n\treturn SignaturesMeta(extra=extra, **fields)\n", 'H3'),
    V('read comprehension: extra no longer passed', 'B', _H, _RM_OLD,
      "\tattrs = group.attrs\n\tfields = {name: empty_to_none(attrs.get(name)) for name in " + _TUP + "}\n\treturn SignaturesMeta(**fields)\n", 'H2'),
    # extra through a conditional JSON text and none_to_empty
    V('E: extra as none_to_empty of a conditional JSON text', 'E', _H, _XW_OLD, "\textra_str = None if meta.extra is None else json.dumps(meta.extra)\n\tgroup.attrs['extra'] = none_to_empty(extra_str, STR_DTYPE)\n"),
    V('conditional JSON text tests truthiness (empty dict stored as Empty)', 'B', _H, _XW_OLD, "\textra_str = json.dumps(meta.extra) if meta.extra else None\n\tgroup.attrs['extra'] = none_to_empty(extra_str, STR_DTYPE)\n", 'H3'),
    V('conditional JSON text with the arms swapped', 'B', _H, _XW_OLD, "\textra_str = json.dumps(meta.extra) if meta.extra is None else None\n\tgroup.attrs['extra'] = none_to_empty(extra_str, STR_DTYPE)\n", 'H3'),
    # ids read through a conditional view
    V('E: ids read through a conditional view and one [:]', 'E', _H, _IDR_OLD, "\t\tis_str = ids_data.dtype.kind == 'O'\n\t\tids_view = ids_data.asstr() if is_str else ids_data\n\t\tself.ids = ids_view[:]\n"),
    V('conditional view with the arms swapped', 'B', _H, _IDR_OLD, "\t\tis_str = ids_data.dtype.kind == 'O'\n\t\tids_view = ids_data if is_str else ids_data.asstr()\n\t\tself.ids = ids_view[:]\n", 'H5'),
    V('conditional view tests the kind of the values dataset', 'B', _H, _IDR_OLD, "\t\tis_str = self.values.dtype.kind == 'O'\n\t\tids_view = ids_data.asstr() if is_str else ids_data\n\t\tself.ids = ids_view[:]\n", 'H5'),
    # header compared through a boolean local and a named constant
    V('E: magic test through a boolean local and len(constant)', 'E', _H, _HDR_OLD,
      "\twith open(path, 'rb') as f:\n\t\tis_hdf5 = f.read(len(b'\\x89HDF\\r\\n\\x1a\\n')) == b'\\x89HDF\\r\\n\\x1a\\n'\n\tif not is_hdf5:\n\t\traise exc\n"),
    V('boolean magic test inverted', 'B', _H, _HDR_OLD,
      "\twith open(path, 'rb') as f:\n\t\tis_hdf5 = f.read(len(b'\\x89HDF\\r\\n\\x1a\\n')) == b'\\x89HDF\\r\\n\\x1a\\n'\n\tif is_hdf5:\n\t\traise exc\n", 'H6'),
    V('boolean magic test reads only 4 bytes', 'B', _H, _HDR_OLD,
      "\twith open(path, 'rb') as f:\n\t\tis_hdf5 = f.read(len(b'\\x89HDF')) == b'\\x89HDF\\r\\n\\x1a\\n'\n\tif not is_hdf5:\n\t\traise exc\n", 'H6'),
    V('boolean magic test computed but never consulted', 'B', _H, _HDR_OLD,
      "\twith open(path, 'rb') as f:\n\t\tis_hdf5 = f.read(8) == b'\\x89HDF\\r\\n\\x1a\\n'\n", 'H6'),
    # id dispatch regrouped
    V('E: id dispatch regrouped (integers first, string kinds share a branch)', 'E', _H, _KIND_OLD, _kind('U')),
    V('regrouped dispatch converts bytes ids instead of unicode ids', 'B', _H, _KIND_OLD, _kind('S'), 'H5'),
    V('regrouped dispatch lets bool ids through as strings', 'B', _H, _KIND_OLD, _kind('U', 'UOSb'), 'H5'),
    # bounds computed in memory, written in one go
    V('E: bounds built in a zero-initialised array and written with data=', 'E', _H, _BND_OLD,
      "\t\t\tbounds = np.zeros(n + 1, dtype=BOUNDS_DTYPE)\n\t\t\tbounds[1:] = np.cumsum(sizes, dtype=BOUNDS_DTYPE)\n\t\t\tgroup.create_dataset('bounds', data=bounds, dtype=BOUNDS_DTYPE)\n"),
    V('in-memory bounds from np.empty without the leading zero', 'B', _H, _BND_OLD,
      "\t\t\tbounds = np.empty(n + 1, dtype=BOUNDS_DTYPE)\n\t\t\tbounds[1:] = np.cumsum(sizes, dtype=BOUNDS_DTYPE)\n\t\t\tgroup.create_dataset('bounds', data=bounds, dtype=BOUNDS_DTYPE)\n", 'H4'),
    V('in-memory bounds filled after the array was written', 'B', _H, _BND_OLD,
      "\t\t\tbounds = np.zeros(n + 1, dtype=BOUNDS_DTYPE)\n\t\t\tgroup.create_dataset('bounds', data=bounds, dtype=BOUNDS_DTYPE)\n\t\t\tbounds[1:] = np.cumsum(sizes, dtype=BOUNDS_DTYPE)\n", 'H4'),
    V('in-memory bounds one entry short', 'B', _H, _BND_OLD,
      "\t\t\tbounds = np.zeros(n, dtype=BOUNDS_DTYPE)\n\t\t\tbounds[1:] = np.cumsum(sizes, dtype=BOUNDS_DTYPE)\n\t\t\tgroup.create_dataset('bounds', data=bounds, dtype=BOUNDS_DTYPE)\n", 'H4'),
    V('in-memory bounds accumulated in float64', 'B', _H, _BND_OLD,
      "\t\t\tbounds = np.zeros(n + 1)\n\t\t\tbounds[1:] = np.cumsum(sizes, dtype=BOUNDS_DTYPE)\n\t\t\tgroup.create_dataset('bounds', data=bounds, dtype=BOUNDS_DTYPE)\n", 'H4'),
    # fill loop over enumerate / zip of bound slices
    V('E: fill loop over enumerate(zip(bounds[:-1], bounds[1:]))', 'E', _H, _FILL_OLD, "\t\t\tfor i, (start, stop) in enumerate(zip(bounds[:-1], bounds[1:])):\n\t\t\t\tvalues[start:stop] = signatures[i]\n"),
    V('E: fill loop over enumerate(signatures)', 'E', _H, _FILL_OLD, "\t\t\tfor i, sig in enumerate(signatures):\n\t\t\t\tvalues[bounds[i]:bounds[i + 1]] = sig\n"),
    V('zip fill pairs every bound with itself', 'B', _H, _FILL_OLD, "\t\t\tfor i, (start, stop) in enumerate(zip(bounds[:-1], bounds[:-1])):\n\t\t\t\tvalues[start:stop] = signatures[i]\n", 'H4'),
    V('zip fill starts at the second bound (last signature never written)', 'B', _H, _FILL_OLD, "\t\t\tfor i, (start, stop) in enumerate(zip(bounds[1:-1], bounds[2:])):\n\t\t\t\tvalues[start:stop] = signatures[i]\n", 'H4'),
    V('zip fill with start and stop unpacked in the wrong order', 'B', _H, _FILL_OLD, "\t\t\tfor i, (stop, start) in enumerate(zip(bounds[:-1], bounds[1:])):\n\t\t\t\tvalues[start:stop] = signatures[i]\n", 'H4'),
    # create(): length taken once
    V('E: create takes len(signatures) once', 'E', _H, "\t\t\tif ids.shape != (len(signatures),):\n", "\t\t\tn_sigs = len(signatures)\n\t\t\tif ids.shape != (n_sigs,):\n"),
    V('create compares the id shape with the wrong length local', 'B', _H, "\t\t\tif ids.shape != (len(signatures),):\n", "\t\t\tn_sigs = len(ids)\n\t\t\tif ids.shape != (n_sigs,):\n", 'H8'),
    # the loaded collection inherits its indexing: the sub-collection rules are re-evaluated on what it inherits
    V('inherited slice fast path taken for reversed unit-step ranges (loaded[5:2] breaks)', 'B', _B, "\t\tif step != 1 or stop <= start:\n", "\t\tif step != 1:\n", 'X4'),
    V('inherited index-list selection fills slots in reverse order', 'B', _B, "\t\t\tnp.copyto(out[i], self._getitem_int(idx), casting='unsafe')\n", "\t\t\tnp.copyto(out[-1 - i], self._getitem_int(idx), casting='unsafe')\n", 'X5'),
    V('inherited index-list selection drops the stored integer type', 'B', _B, "[self.sizeof(i) for i in indices], self.kmerspec, dtype=self.values.dtype)", "[self.sizeof(i) for i in indices], self.kmerspec)", 'X5'),
]
