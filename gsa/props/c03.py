"""C03 - default classification follows the closest genome's lineage and thresholds.

D1 matching_taxon      D2 Taxon.ancestors      D4 GenomeMatch.next_taxon      D5 reportable_taxon
   decided by MEANING: the function (in whatever loop / generator / first-match syntax it is written, helpers included) is
   evaluated by a small interpreter over the AST on every lineage of a finite domain (all chains up to depth 5, every node
   without threshold / threshold below, equal to, above the distance / threshold 0.0 with distance 0.0; report flags
   True/False/None) and its outcome (value, Python exception, non-termination) is compared with the result the property
   text prescribes.  Every statement and both outcomes of every test of the evaluated functions must be exercised by the
   domain, otherwise the analysis is undecided (a branch on values the domain does not contain).  Nothing of the repository
   is executed: the interpreter only knows None/bool/number comparisons, attribute reads of the modelled objects, loops,
   generators, next()/iter()/list(); anything else is exit 2.
D3 non-strict classify: argmin, same-index pairing (through locals), fields of the result built on the path taken when
   strict is false (symbolic walk of that path with copy propagation, so guard clauses, merged returns, locals are the same)
D6 get_result_item wiring
"""
import ast
import copy
import itertools
import types

from ..astutil import (u, atoms, guard_map, path_atoms, stmts_in, calls_in, reaching_def, def_value, dotted, binds,
                       PARAM, AMBIGUOUS, get_arg, get_kw, is_none, is_const)
from ..report import Undecided

CL = 'gambit.classify'
TAXON = 'gambit.db.models.Taxon'


# ------------------------------------------------------------------------------------------------ copy propagation
class _Bound(ast.NodeVisitor):
    """Names bound inside an expression (comprehension targets, lambda parameters, walrus)."""

    def __init__(self):
        self.names = set()

    def visit_comprehension(self, node):
        for n in ast.walk(node.target):
            if isinstance(n, ast.Name):
                self.names.add(n.id)
        self.generic_visit(node)

    def visit_Lambda(self, node):
        a = node.args
        self.names |= {x.arg for x in a.posonlyargs + a.args + a.kwonlyargs}
        self.generic_visit(node)

    def visit_NamedExpr(self, node):
        self.names.add(node.target.id)
        self.generic_visit(node)


def _bound_names(expr):
    b = _Bound()
    b.visit(expr)
    return b.names


class Resolver:
    """Copy propagation through structured reaching definitions: a value that was first bound to a local is the same value.
    `top` follows Name -> its unique simple definition (original nodes are returned); `deep` returns a copy of the expression
    in which every local that has one unique reaching definition is replaced by its (recursively resolved) value, each value
    resolved AT ITS OWN definition.  Names bound to a value for which keep(value) holds stay names (objects with identity).
    Locals with several possible definitions are collected in `unknown`: the caller must not decide on such a text."""

    def __init__(self, fn, keep=None):
        self.fn = fn
        self.keep = keep or (lambda v: False)
        self.unknown = []
        # locals that are changed in place somewhere (x.append(..) / x.sort() as a statement, x[i] = .., x.a = .., del x[i]): their value is
        # not the expression they were bound to, so they are never replaced by it
        self.mutated = set()
        for s in stmts_in(fn.body):
            tg = []
            if isinstance(s, ast.Expr) and isinstance(s.value, ast.Call) and isinstance(s.value.func, ast.Attribute):
                tg = [s.value.func]
            elif isinstance(s, ast.Assign):
                tg = [t for t in s.targets if isinstance(t, (ast.Attribute, ast.Subscript))]
            elif isinstance(s, (ast.AugAssign, ast.AnnAssign)) and isinstance(s.target, (ast.Attribute, ast.Subscript)):
                tg = [s.target]
            elif isinstance(s, ast.Delete):
                tg = [t for t in s.targets if isinstance(t, (ast.Attribute, ast.Subscript))]
            for t in tg:
                while isinstance(t, (ast.Attribute, ast.Subscript)):
                    t = t.value
                if isinstance(t, ast.Name):
                    self.mutated.add(t.id)

    def _def(self, name, at):
        d = reaching_def(self.fn, name, at)
        if d is AMBIGUOUS:
            return AMBIGUOUS
        if d in (None, PARAM):
            return None
        return d

    def top(self, expr, at, through_kept=False, trail=None):
        k = 0
        while isinstance(expr, ast.Name) and k < 30:
            if trail is not None:
                trail.append(expr.id)
            d = self._def(expr.id, at)
            v = def_value(d) if d not in (None, AMBIGUOUS) else None
            if v is None or (self.keep(v) and not through_kept):
                break
            expr, at = v, d
            k += 1
        return expr, at

    def deep(self, expr, at, _depth=0):
        if expr is None:
            return None
        if _depth > 30:
            raise Undecided(f'copy propagation does not terminate at {u(expr)}')
        res = self
        bound = _bound_names(expr)

        class Sub(ast.NodeTransformer):
            def visit_Name(self, node):
                if not isinstance(node.ctx, ast.Load) or node.id in bound:
                    return node
                d = res._def(node.id, at)
                if d is AMBIGUOUS:
                    res.unknown.append(f'{node.id} (several possible definitions)')
                    return node
                v = def_value(d) if d is not None else None
                if v is None or res.keep(v):
                    return node
                if node.id in res.mutated:
                    res.unknown.append(f'{node.id} (changed in place after its definition)')
                    return node
                return res.deep(v, d, _depth + 1)
        return Sub().visit(copy.deepcopy(expr))

    def text(self, expr, at):
        return u(self.deep(expr, at))


_COPIES = {'list', 'tuple', 'np.asarray', 'numpy.asarray', 'np.asanyarray', 'numpy.asanyarray'}


def strip_copies(expr):
    """list(x) / tuple(x) / np.asarray(x) hold the same elements in the same order as x: for "which element is read at index i"
    they are x.  (Applied to resolved copies only.)"""
    class Strip(ast.NodeTransformer):
        def visit_Call(self, node):
            self.generic_visit(node)
            if u(node.func) in _COPIES and len(node.args) == 1 and not node.keywords and not isinstance(node.args[0], ast.Starred):
                return node.args[0]
            return node
    return Strip().visit(expr) if expr is not None else None


def stmt_of(fn, node):
    """Innermost statement of fn that contains the expression node."""
    best = None
    for s in stmts_in(fn.body):
        if isinstance(s, (ast.FunctionDef, ast.AsyncFunctionDef, ast.ClassDef)):
            continue
        if any(x is node for x in ast.walk(s)):
            best = s
    return best


# ------------------------------------------------------------------------------------------------ finite-domain evaluation
class _PyErr(Exception):
    """A Python exception the evaluated code would raise."""

    def __init__(self, kind, detail=''):
        Exception.__init__(self, kind, detail)
        self.kind = kind
        self.detail = detail


class _Ret(Exception):
    def __init__(self, value):
        self.value = value


class _Brk(Exception):
    pass


class _Cont(Exception):
    pass


class _Diverge(Exception):
    pass


class Obj:
    """A modelled object: a bag of the attributes the property talks about."""

    def __init__(self, kind, label, **attrs):
        self.kind = kind
        self.label = label
        self.attrs = attrs

    def __repr__(self):
        return self.label


class _Closure:
    def __init__(self, node, scope, fi):
        self.node = node
        self.scope = scope
        self.fi = fi


class _Scope:
    def __init__(self, parent=None):
        self.vars = {}
        self.parent = parent

    def get(self, name):
        s = self
        while s is not None:
            if name in s.vars:
                return s.vars[name]
            s = s.parent
        raise KeyError(name)

    def has(self, name):
        s = self
        while s is not None:
            if name in s.vars:
                return True
            s = s.parent
        return False

    def function_scope(self):
        s = self
        while s.parent is not None:
            s = s.parent
        return s


_NUM = (int, float)
_CLASS_OF = {'Taxon': TAXON, 'GenomeMatch': f'{CL}.GenomeMatch'}


def spec_ancestors(t, incself=False):
    x = t if incself else t.attrs['parent']
    while x is not None:
        yield x
        x = x.attrs['parent']


class Walk:
    """Interpreter for the taxonomy-walk vocabulary.  Unknown construct -> Undecided (never guessed)."""

    BUDGET = 3000      # statements + iterations per call: far above what any walk over <= 5 taxa needs
    DEPTH = 12

    def __init__(self, model, own_ancestors=False):
        self.m = model
        self.own_ancestors = own_ancestors      # True while Taxon.ancestors itself is the subject (D2)
        self.seen_stmt = set()
        self.seen_test = {}
        self.funcs = {}
        self._gen = {}
        self.steps = 0

    # ---------------------------------------------------------------- bookkeeping
    def _tick(self):
        self.steps += 1
        if self.steps > self.BUDGET:
            raise _Diverge()

    def _test(self, test, sc, fi, depth):
        v = self.truth(self.ev(test, sc, fi, depth))
        self.seen_test.setdefault(id(test), set()).add(v)
        return v

    def uncovered(self):
        """Statements never executed / tests that had only one outcome over all runs, in the evaluated functions."""
        out = []
        for fi in self.funcs.values():
            for s in stmts_in(fi.node.body):
                if isinstance(s, (ast.FunctionDef, ast.AsyncFunctionDef, ast.ClassDef)):
                    continue
                if id(s) not in self.seen_stmt:
                    out.append((fi, s, f'statement never reached: {u(s)[:70]}'))
            for n in ast.walk(fi.node):
                tests = []
                if isinstance(n, (ast.If, ast.While, ast.IfExp)):
                    tests = [n.test]
                elif isinstance(n, ast.comprehension):
                    tests = list(n.ifs)
                for t in tests:
                    if isinstance(t, ast.Constant):
                        continue
                    got = self.seen_test.get(id(t))
                    if got is not None and len(got) < 2:
                        # an outcome that was never taken matters only if code hangs on it: a one-armed `if` (or a comprehension
                        # filter) that is always true skips nothing, so nothing can hide behind the untaken outcome
                        if sorted(got)[0] is True and ((isinstance(n, ast.If) and not n.orelse) or isinstance(n, ast.comprehension)):
                            continue
                        out.append((fi, n if isinstance(n, ast.stmt) else t, f'test {u(t)[:70]} is always {sorted(got)[0]} on the domain'))
        return out

    # ---------------------------------------------------------------- calls
    def run(self, fi, args, kwargs=None):
        """One top-level evaluation -> ('value', v) | ('raises', kind) | ('diverges',)."""
        self.steps = 0
        try:
            v = self.call(fi, list(args), dict(kwargs or {}), 0)
            if isinstance(v, types.GeneratorType):
                v = list(v)
            return ('value', v)
        except _PyErr as e:
            return ('raises', e.kind)
        except _Diverge:
            return ('diverges',)
        except RecursionError:
            return ('diverges',)

    def call(self, fi, args, kwargs, depth):
        if depth > self.DEPTH:
            raise _Diverge()
        self.funcs[fi.qualname] = fi
        a = fi.node.args
        if a.vararg or a.kwarg:
            raise Undecided(f'{fi.qualname}: *args/**kwargs parameters are outside the evaluated vocabulary')
        sc = _Scope()
        pos = [x.arg for x in a.posonlyargs + a.args]
        if len(args) > len(pos):
            raise _PyErr('TypeError', 'too many positional arguments')
        for name, v in zip(pos, args):
            sc.vars[name] = v
        for k, v in kwargs.items():
            if k in sc.vars or k not in pos + [x.arg for x in a.kwonlyargs]:
                raise _PyErr('TypeError', f'unexpected argument {k}')
            sc.vars[k] = v
        defaults = dict(zip(pos[len(pos) - len(a.defaults):], a.defaults))
        defaults.update({x.arg: d for x, d in zip(a.kwonlyargs, a.kw_defaults) if d is not None})
        for name in pos + [x.arg for x in a.kwonlyargs]:
            if name not in sc.vars:
                if name not in defaults:
                    raise _PyErr('TypeError', f'missing argument {name}')
                sc.vars[name] = self.ev(defaults[name], _Scope(), fi, depth)
        is_gen = self._gen.get(fi.qualname)
        if is_gen is None:
            is_gen = self._gen[fi.qualname] = any(isinstance(n, (ast.Yield, ast.YieldFrom)) for s in fi.node.body for n in _walk_own(s))
        body = self._block(fi.node.body, sc, fi, depth)
        if is_gen:
            def gen():
                try:
                    yield from body
                except _Ret:
                    return
            return gen()
        try:
            for _ in body:
                raise Undecided(f'{fi.qualname}: yield outside a generator')
        except _Ret as r:
            return r.value
        return None

    def _package_callee(self, fi, call):
        r = self.m.resolve_call(fi, call)
        return self.m.functions.get(r) if r else None

    def _method(self, obj, name):
        cq = _CLASS_OF.get(obj.kind)
        return self.m.find_method(cq, name) if cq and cq in self.m.classes else None

    def ev_call(self, e, sc, fi, depth):
        f = e.func
        if any(isinstance(x, ast.Starred) for x in e.args) or any(k.arg is None for k in e.keywords):
            raise Undecided(f'{fi.qualname}: star-arguments in {u(e)}')

        def args():
            return [self.ev(x, sc, fi, depth) for x in e.args], {k.arg: self.ev(k.value, sc, fi, depth) for k in e.keywords}
        if isinstance(f, ast.Attribute):
            base = self.ev(f.value, sc, fi, depth)
            if base is None:
                raise _PyErr('AttributeError', f'None.{f.attr}')
            if isinstance(base, Obj):
                if base.kind == 'Taxon' and f.attr == 'ancestors' and not self.own_ancestors:
                    av, kv = args()
                    if len(av) > 1 or set(kv) - {'incself'} or (av and kv):
                        raise _PyErr('TypeError', 'ancestors() arguments')
                    inc = av[0] if av else kv.get('incself', False)
                    return spec_ancestors(base, self.truth(inc))
                mfi = self._method(base, f.attr)
                if mfi is not None:
                    if any(dotted(d) in ('property', 'classmethod', 'staticmethod') for d in mfi.decorators):
                        raise Undecided(f'{fi.qualname}: call of decorated method {mfi.qualname}')
                    av, kv = args()
                    return self.call(mfi, [base] + av, kv, depth + 1)
            raise Undecided(f'{fi.qualname}: method call outside the evaluated vocabulary: {u(e)}')
        if isinstance(f, ast.Name) and sc.has(f.id):
            c = sc.get(f.id)
            if isinstance(c, _Closure):
                av, kv = args()
                return self._apply(c, av, kv, depth)
            raise Undecided(f'{fi.qualname}: call of a local value: {u(e)}')
        if isinstance(f, ast.Lambda):
            av, kv = args()
            return self._apply(_Closure(f, sc, fi), av, kv, depth)
        target = self._package_callee(fi, e)
        if target is not None:
            av, kv = args()
            return self.call(target, av, kv, depth + 1)
        if isinstance(f, ast.Name) and self.m.resolve(fi.module, f) is None:
            av, kv = args()
            return self._builtin(f.id, av, kv, e, fi, depth)
        lib = self.m.resolve(fi.module, f) if isinstance(f, (ast.Name, ast.Attribute)) else None
        if lib in self.LIBRARY:
            av, kv = args()
            return self._library(lib, av, kv, e, fi, depth)
        raise Undecided(f'{fi.qualname}: call outside the evaluated vocabulary: {u(e)}')

    LIBRARY = ('itertools.takewhile', 'itertools.dropwhile', 'itertools.filterfalse', 'itertools.islice', 'itertools.chain', 'collections.deque')

    def _library(self, lib, av, kv, e, fi, depth):
        """The few itertools / collections functions a lineage walk can be spelled with, with their documented meaning (lazy where the
        library is lazy); predicates are lambdas / None."""
        def pred_of(p):
            if p is not None and not isinstance(p, _Closure):
                raise Undecided(f'{fi.qualname}: {lib}() with a predicate that is not a lambda / None')
            return (lambda x: self.truth(x)) if p is None else (lambda x: self.truth(self._apply(p, [x], {}, depth)))
        if lib == 'itertools.takewhile' and len(av) == 2 and not kv:
            ok = pred_of(av[0])
            return itertools.takewhile(ok, self._iter(av[1]))
        if lib == 'itertools.dropwhile' and len(av) == 2 and not kv:
            return itertools.dropwhile(pred_of(av[0]), self._iter(av[1]))
        if lib == 'itertools.filterfalse' and len(av) == 2 and not kv:
            return itertools.filterfalse(pred_of(av[0]), self._iter(av[1]))
        if lib == 'itertools.islice' and 2 <= len(av) <= 4 and not kv and all(x is None or isinstance(x, int) for x in av[1:]):
            return itertools.islice(self._iter(av[0]), *av[1:])
        if lib == 'itertools.chain' and not kv:
            return itertools.chain(*[self._iter(x) for x in av])
        if lib == 'collections.deque' and len(av) <= 1 and set(kv) <= {'maxlen'}:
            n = kv.get('maxlen')
            if n is not None and not (isinstance(n, int) and n >= 0):
                raise Undecided(f'{fi.qualname}: deque(maxlen={n!r})')
            items = [x for x in self._iter(av[0])] if av else []
            return items if n is None else (items[-n:] if n else [])      # read-only use as a sequence (indexing, truth value, len, iteration)
        raise Undecided(f'{fi.qualname}: call outside the evaluated vocabulary: {u(e)}')

    def _apply(self, c, av, kv, depth):
        if depth > self.DEPTH:
            raise _Diverge()
        a = c.node.args
        names = [x.arg for x in a.posonlyargs + a.args]
        if kv or a.defaults or a.vararg or a.kwarg or a.kwonlyargs or len(av) != len(names):
            raise Undecided(f'lambda with a non-trivial signature: {u(c.node)}')
        s2 = _Scope(c.scope)
        s2.vars.update(zip(names, av))
        return self.ev(c.node.body, s2, c.fi, depth + 1)

    def _iter(self, v):
        if isinstance(v, (list, tuple)):
            return iter(v)
        if isinstance(v, (types.GeneratorType, itertools.chain, itertools.takewhile, itertools.dropwhile, itertools.filterfalse, itertools.islice, zip, enumerate)) or type(v).__name__.endswith('iterator'):
            return v
        raise _PyErr('TypeError', 'object is not iterable')

    def _builtin(self, name, av, kv, e, fi, depth):
        if name in ('min', 'max', 'sorted') and set(kv) <= {'key', 'default', 'reverse'} and len(av) == 1 and not (name == 'sorted' and 'default' in kv) \
                and not (name != 'sorted' and 'reverse' in kv):
            # first minimum / maximum under the key (Python's documented tie rule), stable sort; numbers only as keys
            items = [x for x in self._iter(av[0])]
            key = kv.get('key')
            if key is not None and not isinstance(key, _Closure):
                raise Undecided(f'{fi.qualname}: {name}() with a key that is not a lambda')
            ks = [x if key is None else self._apply(key, [x], {}, depth) for x in items]
            if not all(isinstance(k_, _NUM) and not isinstance(k_, bool) for k_ in ks):
                if any(k_ is None for k_ in ks):
                    raise _PyErr('TypeError', f'{name}() key / element None is not orderable')
                raise Undecided(f'{fi.qualname}: {name}() over keys that are not numbers')
            if name == 'sorted':
                rev = kv.get('reverse', False)
                if not isinstance(rev, bool):
                    raise Undecided(f'{fi.qualname}: sorted(reverse=<non-bool>)')
                order = sorted(range(len(items)), key=lambda i_: ks[i_], reverse=rev)
                return [items[i_] for i_ in order]
            if not items:
                if 'default' in kv:
                    return kv['default']
                raise _PyErr('ValueError', f'{name}() arg is an empty sequence')
            best = 0
            for i_ in range(1, len(items)):
                if (ks[i_] < ks[best]) if name == 'min' else (ks[i_] > ks[best]):
                    best = i_
            return items[best]
        if kv:
            raise Undecided(f'{fi.qualname}: keyword arguments to builtin {name}')
        if name == 'next' and len(av) in (1, 2):
            it = av[0]
            if isinstance(it, (list, tuple)) or not (isinstance(it, types.GeneratorType) or type(it).__name__.endswith('iterator')):
                raise _PyErr('TypeError', 'next() of a non-iterator')
            for x in it:
                return x
            if len(av) == 2:
                return av[1]
            raise _PyErr('StopIteration')
        if name == 'iter' and len(av) == 1:
            return iter(self._iter(av[0]))
        if name in ('list', 'tuple') and len(av) <= 1:
            items = [x for x in self._iter(av[0])] if av else []
            return items if name == 'list' else tuple(items)
        if name == 'reversed' and len(av) == 1 and isinstance(av[0], (list, tuple)):
            return iter(list(reversed(av[0])))
        if name == 'bool' and len(av) == 1:
            return self.truth(av[0])
        if name == 'len' and len(av) == 1 and isinstance(av[0], (list, tuple)):
            return len(av[0])
        if name in ('any', 'all') and len(av) == 1:
            for x in self._iter(av[0]):
                t = self.truth(x)
                if name == 'any' and t:
                    return True
                if name == 'all' and not t:
                    return False
            return name == 'all'
        if name == 'zip':
            its = [self._iter(x) for x in av]
            return zip(*its)
        if name == 'enumerate' and len(av) in (1, 2) and (len(av) == 1 or isinstance(av[1], int)):
            return enumerate(self._iter(av[0]), *(av[1:]))
        if name == 'filter' and len(av) == 2:
            pred, it = av[0], self._iter(av[1])
            if pred is not None and not isinstance(pred, _Closure):
                raise Undecided(f'{fi.qualname}: filter() with a predicate that is not a lambda / None')
            return (x for x in it if self.truth(x if pred is None else self._apply(pred, [x], {}, depth)))
        raise Undecided(f'{fi.qualname}: call outside the evaluated vocabulary: {u(e)}')

    # ---------------------------------------------------------------- expressions
    def truth(self, v):
        if v is None:
            return False
        if isinstance(v, bool):
            return v
        if isinstance(v, _NUM):
            return v != 0
        if isinstance(v, (list, tuple, str)):
            return len(v) > 0
        if isinstance(v, Obj):
            return True                      # plain model / attrs objects: no __bool__, no __len__
        if isinstance(v, (types.GeneratorType, _Closure)) or type(v).__name__.endswith('iterator'):
            return True
        raise Undecided(f'truth value of {v!r}')

    def _cmp(self, op, l, r, node, fi):
        t = type(op).__name__
        if t in ('Is', 'IsNot'):
            if l is not None and r is not None and (isinstance(l, (float, list, tuple)) or isinstance(r, (float, list, tuple))):
                raise Undecided(f'{fi.qualname}: identity test of numbers / sequences: {u(node)}')
            return (l is r) == (t == 'Is')
        if t in ('Eq', 'NotEq'):
            if isinstance(l, Obj) or isinstance(r, Obj) or l is None or r is None:
                same = l is r
            elif isinstance(l, _NUM) and isinstance(r, _NUM):
                same = l == r
            elif type(l) is type(r) and isinstance(l, (str, list, tuple)):
                same = l == r
            else:
                raise Undecided(f'{fi.qualname}: equality outside the vocabulary: {u(node)}')
            return same == (t == 'Eq')
        if t in ('Lt', 'LtE', 'Gt', 'GtE'):
            if not (isinstance(l, _NUM) and isinstance(r, _NUM)):
                raise _PyErr('TypeError', f'ordering comparison of {l!r} and {r!r}')
            return {'Lt': l < r, 'LtE': l <= r, 'Gt': l > r, 'GtE': l >= r}[t]
        if t in ('In', 'NotIn'):
            found = False
            for x in self._iter(r):
                if x is l or (isinstance(x, _NUM) and isinstance(l, _NUM) and not isinstance(x, bool) and x == l):
                    found = True
                    break
            return found == (t == 'In')
        raise Undecided(f'{fi.qualname}: comparison {u(node)}')

    def ev(self, e, sc, fi, depth):
        if isinstance(e, ast.Constant):
            if e.value is None or isinstance(e.value, (bool, int, float, str)):
                return e.value
            raise Undecided(f'{fi.qualname}: constant {u(e)}')
        if isinstance(e, ast.Name):
            if sc.has(e.id):
                return sc.get(e.id)
            raise Undecided(f'{fi.qualname}: name {e.id} is not a local of the evaluated function')
        if isinstance(e, ast.Attribute):
            base = self.ev(e.value, sc, fi, depth)
            if base is None:
                raise _PyErr('AttributeError', f'None.{e.attr}')
            if isinstance(base, Obj):
                if e.attr in base.attrs:
                    return base.attrs[e.attr]
                mfi = self._method(base, e.attr)
                if mfi is not None and any(dotted(d) == 'property' for d in mfi.decorators):
                    return self.call(mfi, [base], {}, depth + 1)
                raise Undecided(f'{fi.qualname}: attribute .{e.attr} of a {base.kind} is outside the modelled attributes ({sorted(base.attrs)})')
            raise Undecided(f'{fi.qualname}: attribute access {u(e)}')
        if isinstance(e, ast.UnaryOp) and isinstance(e.op, ast.Not):
            return not self.truth(self.ev(e.operand, sc, fi, depth))
        if isinstance(e, ast.BoolOp):
            v = None
            for x in e.values:
                v = self.ev(x, sc, fi, depth)
                t = self.truth(v)
                if isinstance(e.op, ast.And) and not t:
                    return v
                if isinstance(e.op, ast.Or) and t:
                    return v
            return v
        if isinstance(e, ast.Compare):
            left = self.ev(e.left, sc, fi, depth)
            for op, r in zip(e.ops, e.comparators):
                right = self.ev(r, sc, fi, depth)
                if not self._cmp(op, left, right, e, fi):
                    return False
                left = right
            return True
        if isinstance(e, ast.IfExp):
            return self.ev(e.body if self._test(e.test, sc, fi, depth) else e.orelse, sc, fi, depth)
        if isinstance(e, (ast.Tuple, ast.List)):
            if any(isinstance(x, ast.Starred) for x in e.elts):
                raise Undecided(f'{fi.qualname}: starred element in {u(e)}')
            items = [self.ev(x, sc, fi, depth) for x in e.elts]
            return tuple(items) if isinstance(e, ast.Tuple) else items
        if isinstance(e, (ast.GeneratorExp, ast.ListComp)):
            first = self._iter(self.ev(e.generators[0].iter, sc, fi, depth))     # evaluated eagerly, as Python does
            inner = _Scope(sc)

            def comp(k, it0=None):
                g = e.generators[k]
                if g.is_async:
                    raise Undecided(f'{fi.qualname}: async comprehension')
                it = it0 if k == 0 else self._iter(self.ev(g.iter, inner, fi, depth))
                for x in it:
                    self._tick()
                    self._bind(g.target, x, inner, fi)
                    if all(self._test(c, inner, fi, depth) for c in g.ifs):
                        if k + 1 < len(e.generators):
                            yield from comp(k + 1)
                        else:
                            yield self.ev(e.elt, inner, fi, depth)
            gen = comp(0, first)
            return gen if isinstance(e, ast.GeneratorExp) else list(gen)
        if isinstance(e, ast.Lambda):
            return _Closure(e, sc, fi)
        if isinstance(e, ast.Call):
            return self.ev_call(e, sc, fi, depth)
        if isinstance(e, ast.Subscript):
            base = self.ev(e.value, sc, fi, depth)
            idx = self.ev(e.slice, sc, fi, depth) if not isinstance(e.slice, ast.Slice) else None
            if isinstance(e.slice, ast.UnaryOp) and isinstance(e.slice.op, ast.USub) and isinstance(e.slice.operand, ast.Constant):
                idx = -e.slice.operand.value
            if isinstance(base, (list, tuple)) and isinstance(idx, int) and not isinstance(idx, bool):
                if -len(base) <= idx < len(base):
                    return base[idx]
                raise _PyErr('IndexError')
            if isinstance(base, (list, tuple)) and isinstance(e.slice, ast.Slice):
                parts = []
                for x in (e.slice.lower, e.slice.upper, e.slice.step):
                    v = None if x is None else self.ev(x, sc, fi, depth)
                    if v is not None and not (isinstance(v, int) and not isinstance(v, bool)):
                        raise Undecided(f'{fi.qualname}: slice bound outside the vocabulary: {u(e)}')
                    parts.append(v)
                if parts[2] == 0:
                    raise _PyErr('ValueError', 'slice step cannot be zero')
                return base[slice(*parts)]
            raise Undecided(f'{fi.qualname}: subscript outside the vocabulary: {u(e)}')
        if isinstance(e, ast.UnaryOp) and isinstance(e.op, ast.USub) and isinstance(e.operand, ast.Constant) and isinstance(e.operand.value, _NUM):
            return -e.operand.value
        if isinstance(e, ast.NamedExpr):
            v = self.ev(e.value, sc, fi, depth)
            sc.function_scope().vars[e.target.id] = v
            return v
        raise Undecided(f'{fi.qualname}: expression outside the evaluated vocabulary: {u(e)[:80]}')

    # ---------------------------------------------------------------- statements
    def _bind(self, target, value, sc, fi):
        if isinstance(target, ast.Name):
            sc.vars[target.id] = value
            return
        if isinstance(target, (ast.Tuple, ast.List)) and isinstance(value, (tuple, list)) and not any(isinstance(x, ast.Starred) for x in target.elts):
            if len(target.elts) != len(value):
                raise _PyErr('ValueError', 'unpacking')
            for t, v in zip(target.elts, value):
                self._bind(t, v, sc, fi)
            return
        raise Undecided(f'{fi.qualname}: assignment target outside the vocabulary: {u(target)}')

    def _block(self, stmts, sc, fi, depth):
        for s in stmts:
            yield from self._stmt(s, sc, fi, depth)

    def _stmt(self, s, sc, fi, depth):
        self._tick()
        self.seen_stmt.add(id(s))
        if isinstance(s, ast.Expr):
            v = s.value
            if isinstance(v, ast.Constant):
                return
            if isinstance(v, ast.Yield):
                yield (self.ev(v.value, sc, fi, depth) if v.value is not None else None)
                return
            if isinstance(v, ast.YieldFrom):
                for x in self._iter(self.ev(v.value, sc, fi, depth)):
                    self._tick()
                    yield x
                return
            raise Undecided(f'{fi.qualname}: expression statement outside the evaluated vocabulary: {u(s)[:80]}')
        if isinstance(s, ast.Assign):
            v = self.ev(s.value, sc, fi, depth)
            for t in s.targets:
                self._bind(t, v, sc, fi)
            return
        if isinstance(s, ast.AnnAssign):
            if s.value is not None:
                self._bind(s.target, self.ev(s.value, sc, fi, depth), sc, fi)
            return
        if isinstance(s, ast.If):
            yield from self._block(s.body if self._test(s.test, sc, fi, depth) else s.orelse, sc, fi, depth)
            return
        if isinstance(s, ast.While):
            while True:
                self._tick()
                if not self._test(s.test, sc, fi, depth):
                    yield from self._block(s.orelse, sc, fi, depth)
                    return
                try:
                    yield from self._block(s.body, sc, fi, depth)
                except _Brk:
                    return
                except _Cont:
                    continue
        if isinstance(s, ast.For):
            it = self._iter(self.ev(s.iter, sc, fi, depth))
            for x in it:
                self._tick()
                self._bind(s.target, x, sc, fi)
                try:
                    yield from self._block(s.body, sc, fi, depth)
                except _Brk:
                    return
                except _Cont:
                    continue
            yield from self._block(s.orelse, sc, fi, depth)
            return
        if isinstance(s, ast.Return):
            raise _Ret(self.ev(s.value, sc, fi, depth) if s.value is not None else None)
        if isinstance(s, ast.Break):
            raise _Brk()
        if isinstance(s, ast.Continue):
            raise _Cont()
        if isinstance(s, ast.Pass):
            return
        if isinstance(s, ast.Assert):
            if not self._test(s.test, sc, fi, depth):
                raise _PyErr('AssertionError')
            return
        if isinstance(s, ast.Raise):
            if s.exc is None:
                raise Undecided(f'{fi.qualname}: bare raise')
            exc = s.exc.func if isinstance(s.exc, ast.Call) else s.exc
            raise _PyErr(dotted(exc) or 'Exception')
        if isinstance(s, ast.Try):
            try:
                try:
                    yield from self._block(s.body, sc, fi, depth)
                except _PyErr as e:
                    kinds = {e.kind, 'Exception', 'BaseException'} | ({'LookupError'} if e.kind in ('IndexError', 'KeyError') else set())
                    for h in s.handlers:
                        names = None if h.type is None else [dotted(x) for x in (h.type.elts if isinstance(h.type, ast.Tuple) else [h.type])]
                        if names is None or kinds & set(names):
                            if h.name:
                                sc.vars[h.name] = Obj('Exception', e.kind)
                            yield from self._block(h.body, sc, fi, depth)
                            break
                    else:
                        raise
                else:
                    yield from self._block(s.orelse, sc, fi, depth)
            except (_PyErr, _Ret, _Brk, _Cont):
                yield from self._block(s.finalbody, sc, fi, depth)
                raise
            yield from self._block(s.finalbody, sc, fi, depth)
            return
        raise Undecided(f'{fi.qualname}: statement outside the evaluated vocabulary: {u(s)[:80]}')


def _walk_own(node):
    """Nodes of a statement, not descending into nested defs / lambdas / classes."""
    stack = [node]
    while stack:
        n = stack.pop()
        yield n
        for c in ast.iter_child_nodes(n):
            if not isinstance(c, (ast.FunctionDef, ast.AsyncFunctionDef, ast.ClassDef, ast.Lambda)):
                stack.append(c)


# ---------------------------------------------------------------- the domain and the prescribed results
def chain(thrs, reports=None):
    """Lineage bottom -> top: node 0 is the genome's own taxon."""
    nodes = []
    parent = None
    for k in reversed(range(len(thrs))):
        rp = reports[k] if reports is not None else False
        n = Obj('Taxon', f'T{k}(thr={thrs[k]}' + (f', report={rp}' if reports is not None else '') + ')', parent=parent, distance_threshold=thrs[k], report=rp)
        nodes.append(n)
        parent = n
    nodes.reverse()
    return nodes


def threshold_domain():
    """(thresholds bottom->top, distance): every pattern of absent / below / equal / above thresholds, not monotone included,
    zero thresholds with zero distance (a threshold of 0.0 is a threshold)."""
    for n in range(1, 5):
        for thrs in itertools.product((None, 0.0, 0.5, 1.0, 2.0), repeat=n):
            yield thrs, 1.0
    for thrs in itertools.product((None, 0.5, 1.0, 2.0), repeat=5):
        yield thrs, 1.0
    for n in range(1, 6):
        for thrs in itertools.product((None, 0.0, 1.0), repeat=n):
            yield thrs, 0.0


def report_domain():
    for n in range(1, 5):
        yield from itertools.product((True, False, None), repeat=n)


def spec_matching(t, d):
    for x in spec_ancestors(t, True):
        thr = x.attrs['distance_threshold']
        if thr is not None and d <= thr:
            return x
    return None


def spec_next(t, d):
    bearing = [x for x in spec_ancestors(t, True) if x.attrs['distance_threshold'] is not None]
    for k, x in enumerate(bearing):
        if d <= x.attrs['distance_threshold']:
            return bearing[k - 1] if k else None      # nearest threshold-bearing taxon below the prediction
    return bearing[-1] if bearing else None           # nothing predicted: the topmost threshold-bearing one


def spec_reportable(t):
    if t is None:
        return None
    for x in spec_ancestors(t, True):
        if x.attrs['report']:
            return x
    return None


def _show(outcome):
    if outcome[0] == 'value':
        return f'returns {outcome[1]!r}'
    if outcome[0] == 'raises':
        return f'raises {outcome[1]}'
    return 'does not terminate'


def _same(got, want):
    if isinstance(want, list):
        return isinstance(got, list) and len(got) == len(want) and all(x is y for x, y in zip(got, want))
    return got is want


def decide_by_evaluation(ctx, rule, fi, cases, desc, expected_text, stmt, own_ancestors=False, extra_runs=()):
    """cases: iterable of (label, args, kwargs, expected value).  One obligation: the function returns the prescribed value
    on every case; then the coverage condition (undecided when the domain does not exercise some branch)."""
    rep = ctx.rep
    w = Walk(ctx.model, own_ancestors=own_ancestors)
    bad = []
    n = 0
    for label, args, kwargs, want in cases:
        n += 1
        got = w.run(fi, args, kwargs)
        if not (got[0] == 'value' and _same(got[1], want)) and len(bad) < 3:
            bad.append(f'{label}: {_show(got)}, prescribed {want!r}')
    for args, kwargs in extra_runs:      # exercised for coverage only (inputs the property does not speak about)
        w.run(fi, args, kwargs)
    rep.info[f'{rule}_evaluations'] = rep.info.get(f'{rule}_evaluations', 0) + n
    rep.add(rule, fi.site(), desc, not bad, expected=expected_text, found='; '.join(bad) if bad else f'{n} lineages evaluated, all as prescribed', stmt=stmt)
    if not bad:
        unc = w.uncovered()
        if unc:
            f2, node, why = unc[0]
            raise Undecided(f'{f2.qualname}: the evaluated lineage domain does not exercise every branch, so the rule cannot decide what the function does on other inputs ({why}, '
                            f'{f2.file}:{getattr(node, "lineno", 0)})')
    return not bad


# ------------------------------------------------------------------------------------------------ D1
def check_matching_taxon(ctx):
    m = ctx.model
    fi = m.func(f'{CL}.matching_taxon')
    ctx.rep.functions.add(fi.qualname)
    ctx.rep.require(len(fi.params()) >= 2, 'matching_taxon: expected (taxon, d) parameters')

    def cases():
        for thrs, d in threshold_domain():
            nodes = chain(thrs)
            yield f'lineage thresholds (own taxon first) {list(thrs)}, distance {d}', [nodes[0], d], {}, spec_matching(nodes[0], d)
    decide_by_evaluation(ctx, 'D1', fi, cases(), 'matching_taxon returns the most specific taxon of the lineage (the taxon itself first, then its ancestors) that has a threshold not smaller '
                         'than the distance (equality matches, a threshold of 0.0 is a threshold), None when there is none',
                         'first t in taxon.ancestors(incself=True) with t.distance_threshold is not None and d <= t.distance_threshold, else None', 'matched taxon')


# ------------------------------------------------------------------------------------------------ D2
def check_ancestors(ctx):
    rep, m = ctx.rep, ctx.model
    fi = m.func(f'{TAXON}.ancestors')
    rep.functions.add(fi.qualname)
    rep.require(len(fi.params()) >= 2, 'Taxon.ancestors: expected (self, incself) parameters')
    inc = fi.params()[1]

    def cases():
        for n in range(1, 5):
            nodes = chain([None] * n)
            for start in range(n):
                yield f'lineage of {n} taxa, from taxon {start}, incself=True', [nodes[start]], {inc: True}, nodes[start:]
                yield f'lineage of {n} taxa, from taxon {start}, incself=False', [nodes[start]], {inc: False}, nodes[start + 1:]
                yield f'lineage of {n} taxa, from taxon {start}, incself omitted', [nodes[start]], {}, nodes[start + 1:]
    decide_by_evaluation(ctx, 'D2', fi, cases(), 'Taxon.ancestors yields the taxon itself iff incself (default: not), then every ancestor up to the root, most specific first, none skipped',
                         'self (iff incself), self.parent, self.parent.parent, ... until None', 'lineage walk', own_ancestors=True)


# ------------------------------------------------------------------------------------------------ D3
def classify_head(ctx, rule='D3'):
    """closest = argmin; closest_match built with one index (possibly through locals). Shared with C09-Q2."""
    rep, m = ctx.rep, ctx.model
    fi = m.func(f'{CL}.classify')
    rep.functions.add(fi.qualname)
    fn = fi.node
    refs, dists = fi.params()[:2]
    res = Resolver(fn, keep=lambda v: isinstance(v, ast.Call) and m.resolve_call(fi, v) in (f'{CL}.GenomeMatch', f'{CL}.ClassifierResult'))
    gms = [c for c in calls_in(fn) if m.resolve_call(fi, c) == f'{CL}.GenomeMatch']
    rep.require(gms, 'classify: no GenomeMatch construction')
    # by role, not by line: the first match constructed at the top level of classify, in statement order (expanded helpers keep their own line numbers)
    st = next((s for s in fn.body if isinstance(s, ast.Assign) and any(s.value is c for c in gms)), None)
    rep.require(st is not None and len(st.targets) == 1 and isinstance(st.targets[0], ast.Name), 'classify: closest match is not a top-level assignment')
    first = st.value
    cm = st.targets[0].id
    g0, d0, mt = get_arg(first, 0, 'genome'), get_arg(first, 1, 'distance'), get_arg(first, 2, 'matched_taxon')
    rep.require(g0 not in (None, Ellipsis) and d0 not in (None, Ellipsis), f'classify: closest match without genome/distance arguments: {u(first)}')
    g, d = strip_copies(res.deep(g0, st)), strip_copies(res.deep(d0, st))
    rep.require(not res.unknown, f'classify: locals whose value cannot be traced to one expression feed the closest match: {sorted(set(res.unknown))}')
    rep.require(isinstance(g, ast.Subscript) and isinstance(d, ast.Subscript), f'classify: closest match genome/distance are not subscripts: {u(first)} (resolved: {u(g)}, {u(d)})')
    rep.add(rule, fi.site(first), 'closest genome and its distance are taken at the same index of the two parallel sequences',
            u(g.value) == refs and u(d.value) == dists and u(d.slice) == u(g.slice), expected=f'{refs}[c], {dists}[c]', found=(u(g), u(d)), stmt='closest pairing')
    iv = g.slice
    argmin = isinstance(iv, ast.Call) and ((u(iv.func) in ('np.argmin', 'numpy.argmin') and [u(a) for a in iv.args] == [dists] and not iv.keywords)
                                           or (u(iv.func) == f'{dists}.argmin' and not iv.args and not iv.keywords))
    rep.add(rule, fi.site(first), 'the closest match is the FIRST minimum of the distance row (np.argmin)', argmin, expected=f'np.argmin({dists})', found=u(iv), stmt='closest index')
    if mt is not None and mt is not Ellipsis:
        mtr = strip_copies(res.deep(mt, st))
        rep.require(not res.unknown, f'classify: locals whose value cannot be traced to one expression feed the matched taxon: {sorted(set(res.unknown))}')
        okm = isinstance(mtr, ast.Call) and m.resolve_call(fi, mtr) == f'{CL}.matching_taxon' and [u(a) for a in mtr.args] == [f'{u(g)}.taxon', u(d)] and not mtr.keywords
        rep.add(rule, fi.site(first), "the closest match's taxon is decided from its own genome's taxon and its own distance", okm, expected=f'matching_taxon({u(g)}.taxon, {u(d)})', found=u(mtr),
                stmt='closest matched taxon')
    # every classifier result reports exactly that match as its closest match, and nothing rewrites it afterwards
    gm_h = guard_map(fn)

    def in_scope(node):
        # C03 (rule D3) is about the default mode only: strict-mode statements are C09/C10's business
        s_ = next((x for x in stmts_in(fn.body) if any(y is node for y in ast.walk(x)) and not isinstance(x, (ast.If, ast.For, ast.While, ast.With, ast.Try))), None)
        return rule != 'D3' or s_ is None or ('true', 'strict') not in path_atoms(gm_h[s_])
    results = [c for c in calls_in(fn) if m.resolve_call(fi, c) == f'{CL}.ClassifierResult' and in_scope(c)]

    def closest_arg(c):
        a = get_arg(c, 3, 'closest_match')
        if a in (None, Ellipsis):
            return None
        return u(res.top(a, stmt_of(fn, c))[0])
    bad = [c for c in results if closest_arg(c) != cm]
    rep.add(rule, fi.site(bad[0] if bad else first), 'every classifier result (default and strict mode) reports the argmin match as its closest match', bool(results) and not bad,
            expected=f'closest_match={cm}', found=[closest_arg(c) for c in results], stmt='closest match in results')
    rewrites = [s for s in stmts_in(fn.body) if isinstance(s, (ast.Assign, ast.AugAssign)) and any(
        isinstance(t, ast.Attribute) and t.attr in ('closest_match', 'next_taxon') for t in (s.targets if isinstance(s, ast.Assign) else [s.target]))]
    rewrites += [s for s in stmts_in(fn.body) if s is not st and binds(s, cm)]
    rewrites = [s for s in rewrites if in_scope(s)]
    rep.add(rule, fi.site(rewrites[0] if rewrites else first), 'the closest match (and the next taxon derived from it) is never replaced after it was determined', not rewrites, expected='no store to .closest_match / .next_taxon',
            found=[u(s)[:80] for s in rewrites], stmt='closest match rewritten')
    return fi, cm, st


class _Subst(ast.NodeTransformer):
    def __init__(self, env, bound):
        self.env = env
        self.bound = bound

    def visit_Name(self, node):
        if isinstance(node.ctx, ast.Load) and node.id in self.env and node.id not in self.bound:
            return copy.deepcopy(self.env[node.id])
        return node


class _PathState:
    def __init__(self):
        self.env, self.objs, self.rebound, self.stores, self.opaque = {}, {}, [], [], set()

    def fork(self):
        o = _PathState()
        o.env, o.objs, o.rebound, o.stores, o.opaque = dict(self.env), dict(self.objs), list(self.rebound), list(self.stores), set(self.opaque)
        return o


def nonstrict_paths(ctx, fi, keep, on_return, max_paths=8):
    """Symbolic walk of classify() along the path(s) taken when `strict` is false.  Locals are replaced by their values as the
    walk goes (exact on a single path); names bound to constructed objects (keep(value)) stay names.  A test the walk cannot
    decide forks the path, the test (with its outcome) becoming a fact of each side.  on_return(return stmt, returned expression,
    state, facts) is called for every return reached; what the walk cannot follow is reported as undecided after the other paths
    have been looked at (so a violation found on one path stands)."""
    fn = fi.node
    rep = ctx.rep
    rep.require('strict' in fi.params(), 'classify: no parameter named strict')
    undecided = []
    count = [0]

    def sub(S, e):
        return simp(_Subst(S.env, _bound_names(e)).visit(copy.deepcopy(e)))

    def simp(e):
        """conditional expressions whose test is decided under strict = False collapse to the arm taken"""
        class Fold(ast.NodeTransformer):
            def visit_IfExp(self, node):
                self.generic_visit(node)
                v = tv(node.test)
                return node if v is None else (node.body if v else node.orelse)
        return Fold().visit(e)

    def tv(t):
        """three-valued truth of an already substituted test under strict = False"""
        if isinstance(t, ast.Name) and t.id == 'strict':
            return False
        if isinstance(t, ast.Constant):
            return bool(t.value)
        if isinstance(t, (ast.Dict, ast.List, ast.Tuple, ast.Set)):
            return bool(t.keys if isinstance(t, ast.Dict) else t.elts)
        if isinstance(t, ast.Call) and u(t.func) in ('dict', 'list', 'set', 'tuple') and not t.args and not t.keywords:
            return False
        if isinstance(t, ast.UnaryOp) and isinstance(t.op, ast.Not):
            v = tv(t.operand)
            return None if v is None else not v
        if isinstance(t, ast.BoolOp):
            vs = [tv(x) for x in t.values]
            if isinstance(t.op, ast.And):
                return False if False in vs else (True if all(v is True for v in vs) else None)
            return True if True in vs else (False if all(v is False for v in vs) else None)
        if isinstance(t, ast.Compare) and len(t.ops) == 1 and isinstance(t.ops[0], (ast.Is, ast.IsNot)) and is_none(t.comparators[0]) and isinstance(t.left, ast.Constant):
            return (t.left.value is None) == isinstance(t.ops[0], ast.Is)
        if isinstance(t, ast.Compare) and len(t.ops) == 1 and isinstance(t.ops[0], (ast.Eq, ast.NotEq, ast.Is, ast.IsNot)) and isinstance(t.left, ast.Name) and t.left.id == 'strict' \
                and isinstance(t.comparators[0], ast.Constant) and isinstance(t.comparators[0].value, bool):
            return (t.comparators[0].value is False) == isinstance(t.ops[0], (ast.Eq, ast.Is))
        return None

    def bind(S, name, value, stmt):
        if name == 'strict':
            raise Undecided('classify: the strict parameter is rebound')
        v = sub(S, value)
        if name in S.objs or name in S.opaque:
            S.rebound.append((name, stmt))
        if keep(value):
            S.objs[name] = v
            S.env.pop(name, None)
        else:
            S.objs.pop(name, None)
            S.env[name] = v

    def single_assign(block):
        if len(block) == 1 and isinstance(block[0], ast.Assign) and len(block[0].targets) == 1 and isinstance(block[0].targets[0], ast.Name):
            return block[0].targets[0].id, block[0].value
        return None

    def branch(stmts, cont, S, facts):
        try:
            walk(stmts, cont, S, facts)
        except Undecided as e:
            undecided.append(str(e))

    def walk(stmts, cont, S, facts):
        for idx, s in enumerate(stmts):
            rest = (stmts[idx + 1:],) + cont
            if isinstance(s, ast.Expr) and isinstance(s.value, ast.Constant):
                continue
            if isinstance(s, ast.If):
                t = sub(S, s.test)
                v = tv(t)
                if v is None:
                    a, b = single_assign(s.body), single_assign(s.orelse)
                    if a and b and a[0] == b[0] and not keep(a[1]) and not keep(b[1]):
                        # if c: x = A else: x = B  is  x = A if c else B
                        bind(S, a[0], ast.IfExp(test=s.test, body=a[1], orelse=b[1]), s)
                        continue
                    count[0] += 1
                    if count[0] > max_paths:
                        raise Undecided(f'classify: too many undecided tests on the default (non-strict) path (at: if {u(t)[:60]})')
                    branch(s.body, rest, S.fork(), facts + [(t, True)])
                    branch(s.orelse, rest, S.fork(), facts + [(t, False)])
                    return
                walk(s.body if v else s.orelse, rest, S, facts)
                return
            if isinstance(s, ast.Return):
                rep.require(s.value is not None, 'classify: bare return on the non-strict path')

                def deliver(val, facts_):
                    # return A if c else B  is  if c: return A else: return B  (N10 writes the former)
                    if isinstance(val, ast.IfExp) and (keep(val.body) or keep(val.orelse) or isinstance(val.body, ast.IfExp) or isinstance(val.orelse, ast.IfExp)):
                        tt = sub(S, val.test)
                        vv = tv(tt)
                        if vv is None:
                            deliver(val.body, facts_ + [(tt, True)])
                            deliver(val.orelse, facts_ + [(tt, False)])
                        else:
                            deliver(val.body if vv else val.orelse, facts_)
                        return
                    on_return(s, val, S, facts_)
                deliver(sub(S, s.value), facts)
                return
            if isinstance(s, (ast.Assign, ast.AnnAssign)):
                targets = s.targets if isinstance(s, ast.Assign) else [s.target]
                if s.value is None:
                    continue
                for t in targets:
                    if isinstance(t, ast.Name):
                        bind(S, t.id, s.value, s)
                    elif isinstance(t, (ast.Tuple, ast.List)) and all(isinstance(x, ast.Name) for x in t.elts):
                        if isinstance(s.value, (ast.Tuple, ast.List)) and len(s.value.elts) == len(t.elts):
                            vals = [sub(S, x) for x in s.value.elts]
                            for x, v in zip(t.elts, vals):
                                S.objs.pop(x.id, None)
                                S.env[x.id] = v
                        else:
                            for x in t.elts:
                                if x.id in S.objs or x.id in S.opaque or x.id in S.env:
                                    S.rebound.append((x.id, s))
                                S.opaque.add(x.id)
                                S.env.pop(x.id, None)
                    elif isinstance(t, (ast.Attribute, ast.Subscript)):
                        S.stores.append((sub(S, t), s))
                    else:
                        raise Undecided(f'classify: assignment form on the non-strict path: {u(s)[:80]}')
                continue
            if isinstance(s, (ast.Assert, ast.Pass)):
                continue
            if isinstance(s, ast.Expr) and isinstance(s.value, ast.Call):
                S.stores.append((sub(S, s.value), s))
                continue
            raise Undecided(f'classify: statement on the default (non-strict) path outside the vocabulary: {u(s)[:80]}')
        if cont:
            walk(cont[0], cont[1:], S, facts)
            return
        raise Undecided('classify: the default (non-strict) path can fall off the end of the function without returning a classifier result')

    branch(fn.body, (), _PathState(), [])
    return undecided


def _single_return_value(f):
    """(value, statement) of the only return of a small function, through locals; None when it has another shape."""
    rets = [s for s in stmts_in(f.node.body) if isinstance(s, ast.Return)]
    if len(rets) != 1 or rets[0].value is None or any(isinstance(s, (ast.For, ast.While, ast.Try, ast.With)) for s in stmts_in(f.node.body)):
        return None, None
    res = Resolver(f.node)
    v = res.deep(rets[0].value, rets[0])
    if res.unknown:
        return None, None
    return v, rets[0]


def matched_taxon_default_ok(m):
    """GenomeMatch.matched_taxon defaults to matching_taxon(self.genome.taxon, self.distance) -> (ok, FuncInfo|None, found text)."""
    gc = m.cls(f'{CL}.GenomeMatch')
    f3 = gc.methods.get('_matched_taxon_default')
    if f3 is None:
        return False, None, 'no default'
    v, _ = _single_return_value(f3)
    ok = any(u(dec) == 'matched_taxon.default' for dec in f3.decorators) and isinstance(v, ast.Call) and m.resolve_call(f3, v) == f'{CL}.matching_taxon' \
        and [u(a) for a in v.args] == ['self.genome.taxon', 'self.distance'] and not v.keywords
    return ok, f3, u(v) if v is not None else [u(s) for s in f3.node.body]


def check_classify(ctx):
    rep, m = ctx.rep, ctx.model
    fi, cm, st = classify_head(ctx)
    fn = fi.node
    fields = ['success', 'predicted_taxon', 'primary_match', 'closest_match', 'next_taxon']

    def keep(v):
        return isinstance(v, ast.Call) and m.resolve_call(fi, v) in (f'{CL}.GenomeMatch', f'{CL}.ClassifierResult')
    seen = []

    def on_return(rs, val, S, facts):
        seen.append(rs)
        if isinstance(val, ast.Name) and val.id in S.objs:
            touched = [s for (t, s) in S.stores if isinstance(t, ast.Attribute) and u(t.value) == val.id and t.attr not in ('closest_match', 'next_taxon')]
            rep.require(not touched, f'classify: the default (non-strict) result is modified after its construction: {u(touched[0]) if touched else ""}')
            val = S.objs[val.id]
        rep.require(isinstance(val, ast.Call) and m.resolve_call(fi, val) == f'{CL}.ClassifierResult', f'classify: the default (non-strict) path returns something that is not a ClassifierResult construction: {u(val)[:80]}')
        rep.require(cm in S.objs and not any(isinstance(a, ast.Starred) for a in val.args) and not any(k.arg is None for k in val.keywords), 'classify: closest match is not constructed on the default path / star-arguments')
        c = val
        kw = {k.arg: k.value for k in c.keywords}
        kw.update({fields[i]: a for i, a in enumerate(c.args[:len(fields)])})
        # what may stand for "the taxon matched by the closest genome alone": the attribute of the closest match, or the very expression passed as its matched_taxon
        pred_ok = {f'{cm}.matched_taxon'}
        mt = get_arg(S.objs[cm], 2, 'matched_taxon')
        if mt not in (None, Ellipsis) and isinstance(mt, ast.Call) and m.resolve_call(fi, mt) == f'{CL}.matching_taxon':
            pred_ok.add(u(mt))
        known = path_atoms(facts)
        none_here = any(('is', 'None', p) in known for p in pred_ok)          # on this path nothing was matched
        some_here = any(('isnot', 'None', p) in known for p in pred_ok)       # on this path something was matched
        if any((k, p) in known for k in ('true', 'false') for p in pred_ok):
            raise Undecided('classify: the default path is split on the truth value of a taxon object (not an `is None` test)')
        pv = kw.get('predicted_taxon')
        rep.add('D3', fi.site(rs), 'prediction = taxon matched by the closest genome alone', u(pv) in pred_ok or (none_here and is_none(pv)), expected=f'{cm}.matched_taxon',
                found=u(pv), stmt='predicted taxon')
        pmv = kw.get('primary_match')
        okp = False
        if isinstance(pmv, ast.IfExp):
            at = atoms(pmv.test)
            if at is not None and len(at) == 1 and next(iter(at))[0] in ('true', 'false') and next(iter(at))[1] in pred_ok:
                raise Undecided(f'classify: primary match decided by the truth value of a taxon object (not an `is None` test): {u(pmv)}')
            okp = (u(pmv.body) == cm and is_none(pmv.orelse) and any(at == {('isnot', 'None', p)} for p in pred_ok)) \
                or (is_none(pmv.body) and u(pmv.orelse) == cm and any(at == {('is', 'None', p)} for p in pred_ok))
        okp = okp or (none_here and is_none(pmv)) or (some_here and u(pmv) == cm)
        rep.add('D3', fi.site(rs), 'primary match is the closest match exactly when a prediction is made', okp, expected=f'{cm} if {cm}.matched_taxon is not None else None', found=u(pmv),
                stmt='primary match')
        rep.add('D3', fi.site(rs), 'the reported closest match is the argmin match; the run is flagged successful', u(kw.get('closest_match')) == cm and is_const(kw.get('success'), True),
                expected=f'closest_match={cm}, success=True', found=(u(kw.get('closest_match')), u(kw.get('success'))), stmt='closest / success')
        rep.add('D3', fi.site(rs), 'next taxon is left to the default (derived from the closest match)', 'next_taxon' not in kw, expected='default', found=sorted(kw), stmt='next default')
        # the non-strict return happens before anything can alter closest_match
        between = [s for (n, s) in S.rebound if n == cm]
        rep.add('D3', fi.site(rs), 'closest match is not rebound before the non-strict return', not between, expected='none', found=[u(b)[:80] for b in between], stmt='closest rebinding')

    undecided = nonstrict_paths(ctx, fi, keep, on_return)
    if undecided:
        raise Undecided(undecided[0])
    rep.require(seen, 'classify: no return reached on the default (non-strict) path')
    results = [c2 for c2 in calls_in(fn) if m.resolve_call(fi, c2) == f'{CL}.ClassifierResult']
    crets = [s for s in stmts_in(fn.body) if isinstance(s, ast.Return) and (any(x in results for x in ast.walk(s)) or isinstance(s.value, ast.Name))]
    rep.account_returns('D3', fi, crets, 'classification result')
    d = fi.param_default('strict')
    rep.add('D3', fi.site(), 'default mode is non-strict', d is not None and is_const(d, False), expected='strict=False', found=u(d), stmt='strict default')
    # attrs defaults
    cr = m.cls(f'{CL}.ClassifierResult')
    f2 = cr.methods.get('_next_taxon_default')
    v2, _ = _single_return_value(f2) if f2 else (None, None)
    okd = f2 is not None and any(u(dec) == 'next_taxon.default' for dec in f2.decorators) and u(v2) == 'self.closest_match.next_taxon()'
    rep.add('D3', f2.site() if f2 else cr.site(), "ClassifierResult.next_taxon defaults to the closest match's next taxon", okd, expected='self.closest_match.next_taxon()',
            found=u(v2) if v2 is not None else ([u(s) for s in f2.node.body] if f2 else None), stmt='next_taxon default')
    gc = m.cls(f'{CL}.GenomeMatch')
    okg, f3, found = matched_taxon_default_ok(m)
    rep.add('D3', f3.site() if f3 else gc.site(), 'a match built without a taxon derives it from its own genome and distance', okg, expected='matching_taxon(self.genome.taxon, self.distance)',
            found=found, stmt='matched_taxon default')
    order = [k for k in gc.annotations]
    rep.add('D3', gc.site(), 'GenomeMatch positional field order is (genome, distance, matched_taxon)', order[:3] == ['genome', 'distance', 'matched_taxon'], expected=['genome', 'distance', 'matched_taxon'],
            found=order, stmt='GenomeMatch fields')
    order2 = [k for k in cr.annotations]
    rep.add('D3', cr.site(), 'ClassifierResult positional field order is (success, predicted_taxon, primary_match, closest_match, next_taxon)', order2[:5] == fields, expected=fields,
            found=order2, stmt='ClassifierResult fields')


# ------------------------------------------------------------------------------------------------ D4
def check_next_taxon(ctx):
    m = ctx.model
    fi = m.func(f'{CL}.GenomeMatch.next_taxon')
    ctx.rep.functions.add(fi.qualname)

    def match(t, d):
        g = Obj('AnnotatedGenome', 'genome', taxon=t)
        return Obj('GenomeMatch', f'match(d={d})', genome=g, distance=d, matched_taxon=spec_matching(t, d) if t is not None else None)

    def cases():
        for thrs, d in threshold_domain():
            nodes = chain(thrs)
            yield f'lineage thresholds (genome taxon first) {list(thrs)}, distance {d}', [match(nodes[0], d)], {}, spec_next(nodes[0], d)
    decide_by_evaluation(ctx, 'D4', fi, cases(), 'next_taxon walks up the lineage of the genome, ignores taxa without a threshold, stops at the first (most specific) taxon whose threshold covers the '
                         'distance (equality included) and returns the nearest threshold-bearing taxon BELOW it (None when the prediction is the first threshold-bearing taxon; the topmost '
                         'threshold-bearing taxon when nothing is predicted)', 'the last threshold-bearing taxon before the first one with distance <= threshold', 'next taxon',
                         extra_runs=[([match(None, 1.0)], {})])


# ------------------------------------------------------------------------------------------------ D5 / D6
def check_reportable(ctx):
    rep, m = ctx.rep, ctx.model
    fi = m.func('gambit.db.models.reportable_taxon')
    rep.functions.add(fi.qualname)
    rep.require(len(fi.params()) >= 1, 'reportable_taxon: expected a taxon parameter')

    def cases():
        yield 'no predicted taxon (None)', [None], {}, None
        for reports in report_domain():
            nodes = chain([None] * len(reports), reports)
            yield f'lineage report flags (predicted taxon first) {list(reports)}', [nodes[0]], {}, spec_reportable(nodes[0])
    decide_by_evaluation(ctx, 'D5', fi, cases(), 'reportable_taxon passes None through and otherwise returns the first taxon at or above the given one that is flagged reportable (None when there is none)',
                         'None -> None; first t in taxon.ancestors(incself=True) with t.report, else None', 'reported taxon')
    # D6
    fg = m.func('gambit.query.get_result_item')
    rep.functions.add(fg.qualname)
    items = [c for c in calls_in(fg.node) if m.resolve_call(fg, c) == 'gambit.query.QueryResultItem']
    rep.require(len(items) == 1, 'get_result_item: expected one QueryResultItem construction')
    st = stmt_of(fg.node, items[0])
    res = Resolver(fg.node, keep=lambda v: isinstance(v, ast.Call) and m.resolve_call(fg, v) == f'{CL}.classify')
    kw = {k.arg: k.value for k in items[0].keywords}
    cr = kw.get('classifier_result')
    crv = res.top(cr, st, through_kept=True)[0] if cr is not None else None
    okc = isinstance(crv, ast.Call) and m.resolve_call(fg, crv) == f'{CL}.classify'
    rep.add('D6', fg.site(items[0]), 'the stored classifier result is the classify() outcome for this row', okc, expected='classify(db.genomes, dists, ...)', found=u(crv), stmt='classifier result')
    rep.account_returns('D6', fg, [s for s in stmts_in(fg.node.body) if isinstance(s, ast.Return) and s.value is items[0]], 'result item')
    rt = res.deep(kw.get('report_taxon'), st)
    crn = res.deep(cr, st)
    okr = isinstance(rt, ast.Call) and m.resolve_call(fg, rt) == 'gambit.db.models.reportable_taxon' and [u(a) for a in rt.args] == [f'{u(crn)}.predicted_taxon'] and not rt.keywords \
        and isinstance(crn, ast.Name)
    rep.add('D6', fg.site(items[0]), 'the user-facing taxon is the reportable ancestor of the predicted taxon', okr, expected=f'reportable_taxon({u(crn)}.predicted_taxon)', found=u(rt),
            stmt='report taxon')
    if isinstance(crv, ast.Call):
        st_kw = get_kw(crv, 'strict')
        st_r = res.text(st_kw, stmt_of(fg.node, crv)) if st_kw is not None else None
        rep.add('D6', fg.site(crv), 'strict mode is taken from the query parameters only', st_r == f'{fg.params()[1]}.classify_strict', expected='strict=params.classify_strict', found=st_r,
                stmt='strict wiring')
    qp = m.cls('gambit.query.QueryParams')
    dflt = qp.class_attrs.get('classify_strict')
    dv = get_kw(dflt, 'default') if isinstance(dflt, ast.Call) else None
    rep.add('D6', qp.site(dflt), 'queries are non-strict by default', dv is not None and is_const(dv, False), expected='default=False', found=u(dv), stmt='classify_strict default')
    # query(): the parameters the caller gave are the ones every row is classified with (a default object only replaces a missing one)
    fq = m.func('gambit.query.query')
    rep.functions.add(fq.qualname)
    if 'params' in fq.params():
        gmq = guard_map(fq.node)
        rebinds = [s_ for s_ in stmts_in(fq.node.body) if isinstance(s_, (ast.Assign, ast.AnnAssign, ast.AugAssign)) and any(isinstance(t, ast.Name) and t.id == 'params' for tt in (s_.targets if isinstance(s_, ast.Assign) else [s_.target]) for t in ast.walk(tt))]
        bad = []
        for s_ in rebinds:
            at = path_atoms(gmq[s_])
            v = s_.value
            if not (isinstance(v, ast.Call) and m.resolve_call(fq, v) == 'gambit.query.QueryParams' and ('is', 'None', 'params') in at):
                bad.append((u(s_)[:80], sorted(at)))
        rep.add('D6', fq.site(rebinds[0] if rebinds else None), 'query(): the caller\'s parameters are replaced by defaults only when none were given', not bad, expected='params = QueryParams(**kw) only under `params is None`',
                found=bad or [u(s_)[:60] for s_ in rebinds] or 'params never rebound', stmt='query params default')
        uses = [c for c in calls_in(fq.node) if m.resolve_call(fq, c) == 'gambit.query.get_result_item']
        rep.require(uses, 'query(): no get_result_item call found')
        pos = fg.params().index('params') if 'params' in fg.params() else 1
        okp = all(u(get_arg(c, pos, 'params')) == 'params' for c in uses)
        rep.add('D6', fq.site(uses[0]), 'query(): every row is classified with those parameters', okp, expected='get_result_item(db, params, <row>, <input>)', found=[u(c)[:90] for c in uses], stmt='query params use')
    else:
        rep.require(False, 'query(): parameter `params` not found')


def check(ctx):
    rep = ctx.rep
    rep.rule('D1', 'matching_taxon, evaluated on the finite lineage domain: first ancestor-or-self with a threshold >= d (equality, zero thresholds, missing and non-monotone thresholds)')
    rep.rule('D2', 'Taxon.ancestors, evaluated on chains: self iff incself (default False), then every parent up to the root')
    rep.rule('D3', 'non-strict classify: argmin, same-index pairing, fields of the result on the path taken when strict is false, attrs defaults')
    rep.rule('D4', 'next_taxon, evaluated on the finite lineage domain: nearest threshold-bearing taxon below the first one whose threshold covers the distance; topmost threshold-bearing one when none does')
    rep.rule('D5', 'reportable_taxon, evaluated on chains with report flags True/False/None: None passthrough, first ancestor-or-self with report')
    rep.rule('D6', 'get_result_item: classify of this row; report taxon from predicted taxon; strict only from params')
    # the outcome is a function of the database and the query at hand: the per-row computation (get_result_item -> classify -> lineage
    # walks) writes nothing outside its own locals and the modules keep no mutable state (a memo keyed by row ids would carry one
    # database's thresholds into the next) - C08-A6 re-evaluated under this property, before the bounded evaluation
    from . import c08 as _c08
    rep.rule('A6', 'C08-A6 re-evaluated: effect analysis over the per-row call-graph closure: no write outside locals; no module-level mutable state')
    _c08.check_independence(ctx)
    rep.rule('D8', 'gambit query: non-strict unless --strict is given; the parameter object built from the command line is what the query functions get')
    from ..clirules import check_query_cli_params
    check_query_cli_params(rep, ctx.model, 'D8')
    rep.trusted += ['np.argmin returns the first minimum', 'model / attrs objects (Taxon, GenomeMatch) are truthy and compare by identity']
    rep.assumptions += ['Composition of the clauses into the full statement for every forest is a hand argument (DESIGN.md 5/C03). Monotonicity follows from D1 being downward-closed in d.',
                        'D1/D2/D4/D5 are decided on every lineage up to depth 5 (4 for report flags) with every absent/below/equal/above/zero threshold pattern; the evaluated vocabulary has no arithmetic '
                        'and no counters, so a walk cannot behave differently on deeper lineages; every statement and both outcomes of every test must be exercised by the domain.']
    check_matching_taxon(ctx)
    check_ancestors(ctx)
    check_classify(ctx)
    check_next_taxon(ctx)
    check_reportable(ctx)
    rep.rule('D7', 'GenomeMatch / ClassifierResult are plain records: the distance compared with the thresholds and the taxa reported are the values stored (no converter / rewriting hook)')
    check_plain_records(rep, ctx.model, 'D7', ['gambit.classify.GenomeMatch', 'gambit.classify.ClassifierResult'], 'the genome, distance and taxa the classification computed')


from ..records import check_plain_records  # noqa: E402
from ..variants import V  # noqa: E402

_C = 'src/gambit/classify.py'
_M = 'src/gambit/db/models.py'
_Q = 'src/gambit/query.py'
_MT_LOOP = "\tfor t in taxon.ancestors(incself=True):\n\t\tif t.distance_threshold is not None and d <= t.distance_threshold:\n\t\t\treturn t\n\treturn None\n"
_NT_BODY = ("\t\tlo = None\n\t\thi = self.genome.taxon\n\n\t\t# Genome's own taxon may not have a threshold, start from first in lineage that does\n"
            "\t\twhile hi is not None and hi.distance_threshold is None:\n\t\t\thi = hi.parent\n\n\t\twhile hi is not None:\n"
            "\t\t\tif hi.distance_threshold is not None and self.distance <= hi.distance_threshold:\n\t\t\t\treturn lo\n\n\t\t\tlo = hi\n\n"
            "\t\t\t# Advance to next in ancestry with distance threshold\n\t\t\thi = hi.parent\n\t\t\twhile hi is not None and hi.distance_threshold is None:\n\t\t\t\thi = hi.parent\n\n\t\treturn lo\n")
_RT_LOOP = "\tfor t in taxon.ancestors(incself=True):\n\t\tif t.report:\n\t\t\treturn t\n\n\treturn None"
_ANC_BODY = "\t\ttaxon = self if incself else self.parent\n\t\twhile taxon is not None:\n\t\t\tyield taxon\n\t\t\ttaxon = taxon.parent\n"
_CM_OLD = ("\tclosest = np.argmin(dists)\n\tclosest_match = GenomeMatch(\n\t\tgenome=ref_genomes[closest],\n\t\tdistance=dists[closest],\n"
           "\t\tmatched_taxon=matching_taxon(ref_genomes[closest].taxon, dists[closest]),\n\t)\n")
_CM_LOCALS = ("\tclosest = np.argmin(dists)\n\tclosest_genome = ref_genomes[closest]\n\tclosest_dist = dists[closest]\n\tclosest_match = GenomeMatch(\n\t\tgenome=closest_genome,\n"
              "\t\tdistance=closest_dist,\n\t\tmatched_taxon=matching_taxon(closest_genome.taxon, closest_dist),\n\t)\n")
_NS_OLD = ("\tif not strict:\n\t\t# Use closest match only\n\t\treturn ClassifierResult(\n\t\t\tsuccess=True,\n\t\t\tpredicted_taxon=closest_match.matched_taxon,\n"
           "\t\t\tprimary_match=closest_match if closest_match.matched_taxon is not None else None,\n\t\t\tclosest_match=closest_match,\n\t\t)\n")
_NS_LOCAL = ("\tif not strict:\n\t\tmatched = closest_match.matched_taxon\n\t\treturn ClassifierResult(\n\t\t\tsuccess=True,\n\t\t\tpredicted_taxon=matched,\n"
             "\t\t\tprimary_match=None if matched is None else closest_match,\n\t\t\tclosest_match=closest_match,\n\t\t)\n")
_NS_IFELSE = ("\tif not strict:\n\t\tmatched = closest_match.matched_taxon\n\t\tif matched is None:\n\t\t\tprimary = None\n\t\telse:\n\t\t\tprimary = closest_match\n"
              "\t\treturn ClassifierResult(success=True, predicted_taxon=matched, primary_match=primary, closest_match=closest_match)\n")
_NS_TO_NOMATCH = (_NS_OLD + "\n\t# Find all matches and attempt to get consensus\n\tmatches = find_matches(zip_strict(ref_genomes, dists))\n\tconsensus, others = consensus_taxon(matches.keys())\n\n"
                  "\t# No matches found\n\tif not matches:\n\t\treturn ClassifierResult(\n\t\t\tsuccess=True,\n\t\t\tpredicted_taxon=None,\n\t\t\tprimary_match=None,\n\t\t\tclosest_match=closest_match,\n\t\t)\n")
_MERGED = ("\tif strict:\n\t\tmatches = find_matches(zip_strict(ref_genomes, dists))\n\t\tpredicted = None\n\telse:\n\t\tmatches = None\n\t\tpredicted = closest_match.matched_taxon\n\n"
           "\tif not matches:\n\t\treturn ClassifierResult(\n\t\t\tsuccess=True,\n\t\t\tpredicted_taxon=predicted,\n\t\t\tprimary_match=None if predicted is None else closest_match,\n"
           "\t\t\tclosest_match=closest_match,\n\t\t)\n\n\tconsensus, others = consensus_taxon(matches.keys())\n")
_NS_SPLIT = ("\tif not strict:\n\t\tif closest_match.matched_taxon is None:\n\t\t\treturn ClassifierResult(success=True, predicted_taxon=None, primary_match=None, closest_match=closest_match)\n"
             "\t\treturn ClassifierResult(success=True, predicted_taxon=closest_match.matched_taxon, primary_match=closest_match, closest_match=closest_match)\n")
VARIANTS = [
    V('matching taxon chosen as the tightest matching threshold (seeded C03e)', 'B', _C, _MT_LOOP, "\twithin = [t for t in taxon.ancestors(incself=True) if t.distance_threshold is not None and d <= t.distance_threshold]\n\treturn min(within, key=lambda t: t.distance_threshold, default=None)\n", 'D1'),
    V('E: matching taxon as the first of the matching lineage members', 'E', _C, _MT_LOOP, "\twithin = [t for t in taxon.ancestors(incself=True) if t.distance_threshold is not None and d <= t.distance_threshold]\n\treturn next(iter(within), None)\n"),
    V('E: matching taxon by a stable sort on a constant key', 'E', _C, _MT_LOOP, "\twithin = [t for t in taxon.ancestors(incself=True) if t.distance_threshold is not None and d <= t.distance_threshold]\n\treturn min(within, key=lambda t: 0, default=None)\n"),
    V('the --strict flag is dropped at QueryParams (mutation probe)', 'B', 'src/gambit/cli/query.py', "params = QueryParams(classify_strict=strict)", "params = QueryParams()", 'D8'),
    V('--strict defaults to on', 'B', 'src/gambit/cli/query.py', "\t'--strict/--no-strict',\n\tdefault=False,", "\t'--strict/--no-strict',\n\tdefault=True,", 'D8'),
    V('the signature-file query runs with default parameters', 'B', 'src/gambit/cli/query.py', "results = query(db, sigs, params, inputs=inputs, progress=pconf)", "results = query(db, sigs, inputs=inputs, progress=pconf)", 'D8'),
    V('query_parse() does not forward the parameters', 'B', 'src/gambit/query.py', "return query(db, query_sigs, params, inputs=inputs, progress=pconf, **kw)", "return query(db, query_sigs, inputs=inputs, progress=pconf, **kw)", 'D8'),
    V('E: parameters passed by keyword, built inline', 'E', 'src/gambit/cli/query.py', "results = query(db, sigs, params, inputs=inputs, progress=pconf)", "results = query(db, sigs, params=params, inputs=inputs, progress=pconf)"),
    V('query() replaces given parameters by defaults (test inverted)', 'B', 'src/gambit/query.py', "\tif params is None:\n\t\tparams = QueryParams(**kw)\n\telif kw:", "\tif params is not None:\n\t\tparams = QueryParams(**kw)\n\telif kw:", 'D6'),
    V('query() always builds default parameters', 'B', 'src/gambit/query.py', "\tif params is None:\n\t\tparams = QueryParams(**kw)\n\telif kw:", "\tparams = QueryParams(**kw)\n\tif kw:", 'D6'),
    V('E: guard clause for the default parameters', 'E', 'src/gambit/query.py', "\tif params is None:\n\t\tparams = QueryParams(**kw)\n\telif kw:", "\tif params is None:\n\t\tparams = QueryParams(**kw)\n\tif params is not None and kw and False:"),
    V('GenomeMatch.distance rewritten by a converter (seeded C03c)', 'B', 'src/gambit/classify.py', "\tdistance: float = attrib()\n", "\tdistance: float = attrib(converter=lambda d: float(str(d)))\n", 'D7'),
    V('ClassifierResult rewrites predicted_taxon after construction', 'B', 'src/gambit/classify.py', "\terror: Optional[str] = attrib(default=None, repr=False)\n",
      "\terror: Optional[str] = attrib(default=None, repr=False)\n\n\tdef __attrs_post_init__(self):\n\t\tself.predicted_taxon = self.predicted_taxon if self.success else None\n", 'D7'),
    V('E: field with a validator and an explicit default', 'E', 'src/gambit/classify.py', "\terror: Optional[str] = attrib(default=None, repr=False)\n", "\terror: Optional[str] = attrib(default=None, repr=False, eq=True)\n"),
    V('threshold test strict <', 'B', _C, "if t.distance_threshold is not None and d <= t.distance_threshold:", "if t.distance_threshold is not None and d < t.distance_threshold:", 'D1'),
    V('matching_taxon skips the taxon itself', 'B', _C, "\tfor t in taxon.ancestors(incself=True):\n\t\tif t.distance_threshold", "\tfor t in taxon.ancestors(incself=False):\n\t\tif t.distance_threshold", 'D1'),
    V('distance taken at index 0', 'B', _C, "\t\tdistance=dists[closest],\n", "\t\tdistance=dists[0],\n", 'D3'),
    V('primary match unconditional', 'B', _C, "primary_match=closest_match if closest_match.matched_taxon is not None else None,", "primary_match=closest_match,", 'D3'),
    V('argmax', 'B', _C, "closest = np.argmin(dists)", "closest = np.argmax(dists)", 'D3'),
    V('reportable test inverted', 'B', _M, "\t\tif t.report:\n\t\t\treturn t", "\t\tif not t.report:\n\t\t\treturn t", 'D5'),
    V('report walk from the parent', 'B', _M, "\tfor t in taxon.ancestors(incself=True):\n\t\tif t.report:", "\tfor t in taxon.ancestors(incself=False):\n\t\tif t.report:", 'D5'),
    V('ancestors skips every other level', 'B', _M, "\t\t\tyield taxon\n\t\t\ttaxon = taxon.parent\n", "\t\t\tyield taxon\n\t\t\ttaxon = taxon.parent.parent if taxon.parent is not None else None\n", 'D2'),
    V('next_taxon stop test strict', 'B', _C, "self.distance <= hi.distance_threshold:", "self.distance < hi.distance_threshold:", 'D4'),
    V('next_taxon returns the taxon that met its threshold', 'B', _C, "\t\t\t\treturn lo\n\n\t\t\tlo = hi\n", "\t\t\t\treturn hi\n\n\t\t\tlo = hi\n", 'D4'),
    V('next_taxon start no longer skips threshold-less taxa (the repaired defect)', 'B', _C,
      "\t\twhile hi is not None and hi.distance_threshold is None:\n\t\t\thi = hi.parent\n\n\t\twhile hi is not None:", "\t\twhile hi is not None:", 'D4'),
    V('next_taxon as a single pass without a stop (seeded C03a)', 'B', _C,
      "\t\twhile hi is not None:\n\t\t\tif hi.distance_threshold is not None and self.distance <= hi.distance_threshold:\n\t\t\t\treturn lo\n\n\t\t\tlo = hi\n",
      "\t\twhile hi is not None:\n\t\t\tif hi.distance_threshold is not None and self.distance <= hi.distance_threshold:\n\t\t\t\tpass\n\t\t\telse:\n\t\t\t\tlo = hi\n", 'D4'),
    V('next_taxon advance no longer skips threshold-less ancestors', 'B', _C, "\t\t\twhile hi is not None and hi.distance_threshold is None:\n\t\t\t\thi = hi.parent\n\n\t\treturn lo", "\n\t\treturn lo", 'D4'),
    V('report taxon from closest match taxon', 'B', _Q, "report_taxon=reportable_taxon(clsresult.predicted_taxon),", "report_taxon=reportable_taxon(clsresult.closest_match.genome.taxon),", 'D6'),
    V('closest match taxon from a different distance', 'B', _C, "matched_taxon=matching_taxon(ref_genomes[closest].taxon, dists[closest]),", "matched_taxon=matching_taxon(ref_genomes[closest].taxon, dists.mean()),", 'D3'),
    # --- detection gaps found by the mutation probe on next_taxon: decided by evaluating the walk, whatever its syntax
    V('next_taxon main loop runs while hi is None (never for a real lineage)', 'B', _C, "\t\twhile hi is not None:\n\t\t\tif hi.distance_threshold", "\t\twhile hi is None:\n\t\t\tif hi.distance_threshold", 'D4'),
    V('next_taxon stop test requires the threshold to be absent (never true: walks to the root)', 'B', _C, "\t\t\tif hi.distance_threshold is not None and self.distance <= hi.distance_threshold:",
      "\t\t\tif hi.distance_threshold is None and self.distance <= hi.distance_threshold:", 'D4'),
    V('next_taxon start skip loop with or (runs off the root)', 'B', _C, "\t\twhile hi is not None and hi.distance_threshold is None:\n\t\t\thi = hi.parent\n\n\t\twhile hi is not None:",
      "\t\twhile hi is not None or hi.distance_threshold is None:\n\t\t\thi = hi.parent\n\n\t\twhile hi is not None:", 'D4'),
    V('next_taxon advance skip loop with or (runs off the root)', 'B', _C, "\t\t\twhile hi is not None and hi.distance_threshold is None:\n\t\t\t\thi = hi.parent\n\n\t\treturn lo",
      "\t\t\twhile hi is not None or hi.distance_threshold is None:\n\t\t\t\thi = hi.parent\n\n\t\treturn lo", 'D4'),
    # --- broken twins of the newly accepted forms
    V('B: first-match idiom with strict <', 'B', _C, _MT_LOOP, "\treturn next((t for t in taxon.ancestors(incself=True) if t.distance_threshold is not None and d < t.distance_threshold), None)\n", 'D1'),
    V('B: first-match idiom without the threshold-present filter (TypeError on a taxon without threshold)', 'B', _C, _MT_LOOP,
      "\treturn next((t for t in taxon.ancestors(incself=True) if d <= t.distance_threshold), None)\n", 'D1'),
    V('B: two-stage generator whose candidate filter is the truth value of the threshold (0.0 dropped)', 'B', _C, _MT_LOOP,
      "\tcandidates = (t for t in taxon.ancestors(incself=True) if t.distance_threshold)\n\treturn next((t for t in candidates if d <= t.distance_threshold), None)\n", 'D1'),
    V('B: first-match idiom takes the LAST qualifying taxon', 'B', _C, _MT_LOOP,
      "\tfound = None\n\tfor t in taxon.ancestors(incself=True):\n\t\tif t.distance_threshold is not None and d <= t.distance_threshold:\n\t\t\tfound = t\n\treturn found\n", 'D1'),
    V('B: next_taxon as for/continue/break where the stop became a continue', 'B', _C, _NT_BODY,
      "\t\tlo = None\n\t\tfor hi in self.genome.taxon.ancestors(incself=True):\n\t\t\tif hi.distance_threshold is None:\n\t\t\t\tcontinue\n\t\t\tif self.distance <= hi.distance_threshold:\n\t\t\t\tcontinue\n\t\t\tlo = hi\n\t\treturn lo\n", 'D4'),
    V('B: next_taxon as for/continue/break without skipping threshold-less taxa', 'B', _C, _NT_BODY,
      "\t\tlo = None\n\t\tfor hi in self.genome.taxon.ancestors(incself=True):\n\t\t\tif hi.distance_threshold is not None and self.distance <= hi.distance_threshold:\n\t\t\t\tbreak\n\t\t\tlo = hi\n\t\treturn lo\n", 'D4'),
    V('B: next_taxon over a filtered list returning the taxon that met its threshold', 'B', _C, _NT_BODY,
      "\t\tbearing = [t for t in self.genome.taxon.ancestors(incself=True) if t.distance_threshold is not None]\n\t\tlo = None\n\t\tfor hi in bearing:\n\t\t\tif self.distance <= hi.distance_threshold:\n\t\t\t\treturn hi\n\t\t\tlo = hi\n\t\treturn lo\n", 'D4'),
    V('B: next_taxon walks from the parent of the genome taxon', 'B', _C, _NT_BODY,
      "\t\tlo = None\n\t\tfor hi in self.genome.taxon.ancestors():\n\t\t\tif hi.distance_threshold is None:\n\t\t\t\tcontinue\n\t\t\tif self.distance <= hi.distance_threshold:\n\t\t\t\tbreak\n\t\t\tlo = hi\n\t\treturn lo\n", 'D4'),
    V('B: reportable first-match idiom accepts report=False (is not None)', 'B', _M, _RT_LOOP, "\treturn next((t for t in taxon.ancestors(incself=True) if t.report is not None), None)", 'D5'),
    V('B: reportable first-match idiom without the None passthrough', 'B', _M, "\tif taxon is None:\n\t\treturn None\n\n" + _RT_LOOP, "\treturn next((t for t in taxon.ancestors(incself=True) if t.report), None)", 'D5'),
    V('B: ancestors with a guard clause that yields self when incself is false', 'B', _M, _ANC_BODY,
      "\t\tif not incself:\n\t\t\tyield self\n\t\ttaxon = self.parent\n\t\twhile taxon is not None:\n\t\t\tyield taxon\n\t\t\ttaxon = taxon.parent\n", 'D2'),
    V('B: closest genome bound to a local at a fixed index', 'B', _C, _CM_OLD, _CM_LOCALS.replace("closest_genome = ref_genomes[closest]", "closest_genome = ref_genomes[0]"), 'D3'),
    V('B: closest distance local rebound to another index before use', 'B', _C, _CM_OLD, _CM_LOCALS.replace("\tclosest_dist = dists[closest]\n", "\tclosest_dist = dists[closest]\n\tclosest = 0\n\tclosest_genome = ref_genomes[closest]\n"), 'D3'),
    V('B: matched taxon left to the default, distance from index 0', 'B', _C, _CM_OLD, "\tclosest = np.argmin(dists)\n\tclosest_match = GenomeMatch(genome=ref_genomes[closest], distance=dists[0])\n", 'D3'),
    V('B: non-strict result through a local with the arms of the primary match swapped', 'B', _C, _NS_OLD, _NS_LOCAL.replace("None if matched is None else closest_match", "closest_match if matched is None else None"), 'D3'),
    V('B: primary match by if/else assignment with the arms swapped', 'B', _C, _NS_OLD, _NS_IFELSE.replace("\t\t\tprimary = None\n\t\telse:\n\t\t\tprimary = closest_match\n", "\t\t\tprimary = closest_match\n\t\telse:\n\t\t\tprimary = None\n"), 'D3'),
    V('B: merged early return where the non-strict branch predicts nothing', 'B', _C, _NS_TO_NOMATCH, _MERGED.replace("\t\tmatches = None\n\t\tpredicted = closest_match.matched_taxon\n", "\t\tmatches = None\n\t\tpredicted = None\n"), 'D3'),
    V('B: merged early return with the primary match condition negated', 'B', _C, _NS_TO_NOMATCH, _MERGED.replace("None if predicted is None else closest_match", "None if predicted is not None else closest_match"), 'D3'),
    V('B: prediction taken from the first reference genome instead of the closest match', 'B', _C, _NS_OLD, _NS_LOCAL.replace("matched = closest_match.matched_taxon", "matched = matching_taxon(ref_genomes[0].taxon, dists[0])"), 'D3'),
    V('B: non-strict result split by a guard clause, the no-prediction side still reports a primary match', 'B', _C, _NS_OLD,
      _NS_SPLIT.replace("predicted_taxon=None, primary_match=None,", "predicted_taxon=None, primary_match=closest_match,"), 'D3'),
    V('B: non-strict result split by a guard clause on the wrong condition', 'B', _C, _NS_OLD, _NS_SPLIT.replace("if closest_match.matched_taxon is None:", "if closest_match.matched_taxon is not None:"), 'D3'),
    V('B: mode test inverted (closest-match-only result returned in strict mode, consensus code in default mode)', 'B', _C, "\tif not strict:\n\t\t# Use closest match only", "\tif strict:\n\t\t# Use closest match only", 'D3'),
    V('B: first-match idiom with try/except StopIteration returning the start taxon when nothing qualifies', 'B', _C, _MT_LOOP,
      "\ttry:\n\t\treturn next(t for t in taxon.ancestors(incself=True) if t.distance_threshold is not None and d <= t.distance_threshold)\n\texcept StopIteration:\n\t\treturn taxon\n", 'D1'),
    V('E: threshold >= d', 'E', _C, "if t.distance_threshold is not None and d <= t.distance_threshold:", "if t.distance_threshold is not None and t.distance_threshold >= d:"),
    V('E: guard split into nested ifs', 'E', _C, "\t\tif t.distance_threshold is not None and d <= t.distance_threshold:\n\t\t\treturn t",
      "\t\tif t.distance_threshold is not None:\n\t\t\tif d <= t.distance_threshold:\n\t\t\t\treturn t"),
    V('E: dists.argmin()', 'E', _C, "closest = np.argmin(dists)", "closest = dists.argmin()"),
    V('E: primary match test inverted with swapped arms', 'E', _C, "primary_match=closest_match if closest_match.matched_taxon is not None else None,",
      "primary_match=None if closest_match.matched_taxon is None else closest_match,"),
    V('E: first-match idiom next((t for t in lineage if pred), None)', 'E', _C, _MT_LOOP,
      "\tlineage = taxon.ancestors(incself=True)\n\treturn next((t for t in lineage if t.distance_threshold is not None and d <= t.distance_threshold), None)\n"),
    V('E: two-stage generator (threshold-bearing candidates, then first covered)', 'E', _C, _MT_LOOP,
      "\tcandidates = (t for t in taxon.ancestors(incself=True) if t.distance_threshold is not None)\n\treturn next((t for t in candidates if d <= t.distance_threshold), None)\n"),
    V('E: matching_taxon as a while loop over .parent', 'E', _C, _MT_LOOP,
      "\tt = taxon\n\twhile t is not None:\n\t\tthreshold = t.distance_threshold\n\t\tif threshold is not None and threshold >= d:\n\t\t\tbreak\n\t\tt = t.parent\n\treturn t\n"),
    V('E: next_taxon as for/continue/break over ancestors', 'E', _C, _NT_BODY,
      "\t\tlo = None\n\t\tfor hi in self.genome.taxon.ancestors(incself=True):\n\t\t\tif hi.distance_threshold is None:\n\t\t\t\tcontinue\n\t\t\tif self.distance <= hi.distance_threshold:\n\t\t\t\tbreak\n\t\t\tlo = hi\n\t\treturn lo\n"),
    V('E: next_taxon over a filtered list of threshold-bearing taxa', 'E', _C, _NT_BODY,
      "\t\tbearing = [t for t in self.genome.taxon.ancestors(incself=True) if t.distance_threshold is not None]\n\t\tlo = None\n\t\tfor hi in bearing:\n\t\t\tif self.distance <= hi.distance_threshold:\n\t\t\t\treturn lo\n\t\t\tlo = hi\n\t\treturn lo\n"),
    V('E: reportable_taxon as first-match idiom', 'E', _M, _RT_LOOP, "\treturn next((t for t in taxon.ancestors(incself=True) if t.report), None)"),
    V('E: ancestors with a guard clause for incself', 'E', _M, _ANC_BODY, "\t\tif incself:\n\t\t\tyield self\n\t\ttaxon = self.parent\n\t\twhile taxon is not None:\n\t\t\tyield taxon\n\t\t\ttaxon = taxon.parent\n"),
    V('E: closest genome and distance bound to locals first', 'E', _C, _CM_OLD, _CM_LOCALS),
    V('E: matched taxon of the closest match left to the attrs default', 'E', _C, _CM_OLD, "\tclosest = np.argmin(dists)\n\tclosest_match = GenomeMatch(genome=ref_genomes[closest], distance=dists[closest])\n"),
    V('E: non-strict result through a local, test inverted with swapped arms', 'E', _C, _NS_OLD, _NS_LOCAL),
    V('E: primary match by if/else assignment', 'E', _C, _NS_OLD, _NS_IFELSE),
    V('E: non-strict return merged with the strict no-match return', 'E', _C, _NS_TO_NOMATCH, _MERGED),
    V('E: non-strict result split by a guard clause (no prediction / prediction)', 'E', _C, _NS_OLD, _NS_SPLIT),
    V('E: first-match idiom with try/except StopIteration', 'E', _C, _MT_LOOP,
      "\ttry:\n\t\treturn next(t for t in taxon.ancestors(incself=True) if t.distance_threshold is not None and d <= t.distance_threshold)\n\texcept StopIteration:\n\t\treturn None\n"),
]
