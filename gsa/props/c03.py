"""C03 - default classification follows the closest genome's lineage and thresholds.

D1 threshold guard (direction, equality included, lineage order)   D2 Taxon.ancestors walk
D3 non-strict classify: argmin, same-index pairing, result fields
D4 guard establishment in GenomeMatch.next_taxon: every returned taxon passed a threshold-present test (CFG + forward
   abstract interpretation over {none, checked, unchecked}); stop test has the same normal form as D1
D5 reportable_taxon   D6 get_result_item wiring
"""
import ast

from ..astutil import (u, atoms, guard_map, path_atoms, stmts_in, calls_in, callee, callee_attr, reaching_def, def_value,
                       PARAM, AMBIGUOUS, raised_name, assigns_to, get_arg, get_kw, block_path, find_parent_map, is_none, is_const)
from ..cfg import CFG, solve
from ..report import Undecided

CL = 'gambit.classify'
NONE, CHK, UNCHK = 'none', 'chk', 'unchk'
TOP = frozenset([UNCHK, NONE])


# ------------------------------------------------------------------------------------------------ D1
def check_matching_taxon(ctx):
    rep, m = ctx.rep, ctx.model
    fi = m.func(f'{CL}.matching_taxon')
    rep.functions.add(fi.qualname)
    tp, dp = fi.params()[:2]
    fors = [s for s in fi.node.body if isinstance(s, ast.For)]
    rep.require(len(fors) == 1 and isinstance(fors[0].target, ast.Name), 'matching_taxon: expected one for loop')
    loop = fors[0]
    t = loop.target.id
    it = loop.iter
    inc = get_arg(it, 0, 'incself') if isinstance(it, ast.Call) else None
    ok = isinstance(it, ast.Call) and callee_attr(it) == 'ancestors' and u(it.func.value) == tp and inc not in (None, Ellipsis) and is_const(inc, True)
    rep.add('D1', fi.site(loop), 'the lineage is walked from the taxon itself upwards', ok, expected=f'{tp}.ancestors(incself=True)', found=u(it), stmt='lineage walk')
    gm = guard_map(fi.node)
    rets = [s for s in stmts_in(loop.body) if isinstance(s, ast.Return)]
    rep.floor('D1', 'returns inside the lineage loop', len(rets), 1)
    want = {('isnot', 'None', f'{t}.distance_threshold'), ('le', dp, f'{t}.distance_threshold')}
    for r in rets:
        at = path_atoms(gm[r])
        rep.add('D1', fi.site(r), 'a taxon is returned exactly when it has a threshold and the distance does not exceed it (equality matches)', at == want,
                expected=sorted(want), found=sorted(at), stmt='threshold guard')
        rep.add('D1', fi.site(r), 'the returned taxon is the one just tested (first match = most specific)', u(r.value) == t, expected=t, found=u(r.value), stmt='returned taxon')
    leaves = [s for s in stmts_in(loop.body) if isinstance(s, (ast.Break, ast.Continue))]
    rep.add('D1', fi.site(loop), 'the walk is not cut short', not leaves and not loop.orelse, expected='no break/continue', found=[u(x) for x in leaves], stmt='walk exits')
    last = fi.node.body[-1]
    rep.add('D1', fi.site(last), 'no prediction when no taxon of the lineage qualifies', isinstance(last, ast.Return) and (last.value is None or is_none(last.value)), expected='return None',
            found=u(last), stmt='no match')
    rep.account_returns('D1', fi, rets + ([last] if isinstance(last, ast.Return) else []), 'matched taxon')
    return want


# ------------------------------------------------------------------------------------------------ D2
def check_ancestors(ctx):
    rep, m = ctx.rep, ctx.model
    fi = m.func('gambit.db.models.Taxon.ancestors')
    rep.functions.add(fi.qualname)
    body = [s for s in fi.node.body if not (isinstance(s, ast.Expr) and isinstance(s.value, ast.Constant))]
    rep.require(len(body) == 2 and isinstance(body[0], ast.Assign) and isinstance(body[1], ast.While), 'Taxon.ancestors: unexpected shape')
    init, loop = body
    cur = u(init.targets[0])
    v = init.value
    inc = fi.params()[1]
    ok = isinstance(v, ast.IfExp) and u(v.test) == inc and u(v.body) == 'self' and u(v.orelse) == 'self.parent'
    rep.add('D2', fi.site(init), 'starts at the taxon itself iff incself, else at its parent', ok, expected='self if incself else self.parent', found=u(v), stmt='walk start')
    at = atoms(loop.test)
    rep.add('D2', fi.site(loop), 'continues until the root has been passed', at == {('isnot', 'None', cur)}, expected=f'{cur} is not None', found=sorted(at or []), stmt='walk condition')
    lb = loop.body
    ok = len(lb) == 2 and isinstance(lb[0], ast.Expr) and isinstance(lb[0].value, ast.Yield) and u(lb[0].value.value) == cur \
        and isinstance(lb[1], ast.Assign) and u(lb[1].targets[0]) == cur and u(lb[1].value) == f'{cur}.parent'
    rep.add('D2', fi.site(loop), 'yields each taxon then steps to its parent (most specific first, none skipped)', ok, expected=f'yield {cur}; {cur} = {cur}.parent', found=[u(s) for s in lb],
            stmt='walk step')
    d = fi.param_default(inc)
    rep.add('D2', fi.site(), 'incself defaults to False (callers that need the taxon itself say so)', d is not None and is_const(d, False), expected='False', found=u(d), stmt='incself default')


# ------------------------------------------------------------------------------------------------ D3
def classify_head(ctx, rule='D3'):
    """closest = argmin; closest_match built with one index. Shared with C09-Q2."""
    rep, m = ctx.rep, ctx.model
    fi = m.func(f'{CL}.classify')
    rep.functions.add(fi.qualname)
    fn = fi.node
    refs, dists = fi.params()[:2]
    gms = [c for c in calls_in(fn) if m.resolve_call(fi, c) == f'{CL}.GenomeMatch']
    rep.require(gms, 'classify: no GenomeMatch construction')
    first = min(gms, key=lambda c: c.lineno)
    st = next(s for s in fn.body if isinstance(s, ast.Assign) and s.value is first) if any(isinstance(s, ast.Assign) and s.value is first for s in fn.body) else None
    rep.require(st is not None and isinstance(st.targets[0], ast.Name), 'classify: closest match is not a top-level assignment')
    cm = st.targets[0].id
    g = get_arg(first, 0, 'genome')
    d = get_arg(first, 1, 'distance')
    mt = get_arg(first, 2, 'matched_taxon')
    rep.require(isinstance(g, ast.Subscript) and isinstance(d, ast.Subscript), f'classify: closest match genome/distance are not subscripts: {u(first)}')
    idx = g.slice
    rep.add(rule, fi.site(first), 'closest genome and its distance are taken at the same index of the two parallel sequences',
            u(g.value) == refs and u(d.value) == dists and u(d.slice) == u(idx), expected=f'{refs}[c], {dists}[c]', found=(u(g), u(d)), stmt='closest pairing')
    iv = idx
    if isinstance(idx, ast.Name):
        dd = reaching_def(fn, idx.id, st)
        iv = def_value(dd) if dd not in (None, PARAM, AMBIGUOUS) else None
    argmin = isinstance(iv, ast.Call) and ((u(iv.func) in ('np.argmin', 'numpy.argmin') and [u(a) for a in iv.args] == [dists] and not iv.keywords)
                                           or (u(iv.func) == f'{dists}.argmin' and not iv.args and not iv.keywords))
    rep.add(rule, fi.site(first), 'the closest match is the FIRST minimum of the distance row (np.argmin)', argmin, expected=f'np.argmin({dists})', found=u(iv), stmt='closest index')
    if mt is not None and mt is not Ellipsis:
        okm = isinstance(mt, ast.Call) and m.resolve_call(fi, mt) == f'{CL}.matching_taxon' and [u(a) for a in mt.args] == [f'{u(g)}.taxon', u(d)]
        rep.add(rule, fi.site(first), "the closest match's taxon is decided from its own genome's taxon and its own distance", okm, expected=f'matching_taxon({u(g)}.taxon, {u(d)})', found=u(mt),
                stmt='closest matched taxon')
    # every classifier result reports exactly that match as its closest match, and nothing rewrites it afterwards
    gm_h = guard_map(fn)

    def in_scope(node):
        # C03 (rule D3) is about the default mode only: strict-mode statements are C09/C10's business
        s_ = next((x for x in stmts_in(fn.body) if any(y is node for y in ast.walk(x)) and not isinstance(x, (ast.If, ast.For, ast.While, ast.With, ast.Try))), None)
        return rule != 'D3' or s_ is None or ('true', 'strict') not in path_atoms(gm_h[s_])
    results = [c for c in calls_in(fn) if m.resolve_call(fi, c) == f'{CL}.ClassifierResult' and in_scope(c)]
    bad = [c for c in results if u(get_arg(c, 3, 'closest_match')) != cm]
    rep.add(rule, fi.site(bad[0] if bad else first), 'every classifier result (default and strict mode) reports the argmin match as its closest match', bool(results) and not bad,
            expected=f'closest_match={cm}', found=[u(get_arg(c, 3, 'closest_match')) for c in results], stmt='closest match in results')
    rewrites = [s for s in stmts_in(fn.body) if isinstance(s, (ast.Assign, ast.AugAssign)) and any(
        isinstance(t, ast.Attribute) and t.attr in ('closest_match', 'next_taxon') for t in (s.targets if isinstance(s, ast.Assign) else [s.target]))]
    rewrites += [s for s in stmts_in(fn.body) if isinstance(s, ast.Assign) and any(isinstance(t, ast.Name) and t.id == cm for t in s.targets) and s is not st]
    rewrites = [s for s in rewrites if in_scope(s)]
    rep.add(rule, fi.site(rewrites[0] if rewrites else first), 'the closest match (and the next taxon derived from it) is never replaced after it was determined', not rewrites, expected='no store to .closest_match / .next_taxon',
            found=[u(s) for s in rewrites], stmt='closest match rewritten')
    return fi, cm, st


def check_classify(ctx):
    rep, m = ctx.rep, ctx.model
    fi, cm, st = classify_head(ctx)
    fn = fi.node
    gm = guard_map(fn)
    results = [c for c in calls_in(fn) if m.resolve_call(fi, c) == f'{CL}.ClassifierResult']
    ns = []
    for c in results:
        rs = next((s for s in stmts_in(fn.body) if isinstance(s, ast.Return) and s.value is c), None)
        if rs is not None and ('false', 'strict') in path_atoms(gm[rs]):
            ns.append((c, rs))
    rep.floor('D3', 'non-strict result constructions', len(ns), 1)
    c, rs = ns[0]
    kw = {k.arg: k.value for k in c.keywords}
    rep.add('D3', fi.site(c), 'prediction = taxon matched by the closest genome alone', u(kw.get('predicted_taxon')) == f'{cm}.matched_taxon', expected=f'{cm}.matched_taxon',
            found=u(kw.get('predicted_taxon')), stmt='predicted taxon')
    pmv = kw.get('primary_match')
    okp = isinstance(pmv, ast.IfExp) and u(pmv.body) == cm and is_none(pmv.orelse) and atoms(pmv.test) == {('isnot', 'None', f'{cm}.matched_taxon')}
    okp = okp or (isinstance(pmv, ast.IfExp) and is_none(pmv.body) and u(pmv.orelse) == cm and atoms(pmv.test) == {('is', 'None', f'{cm}.matched_taxon')})
    rep.add('D3', fi.site(c), 'primary match is the closest match exactly when a prediction is made', okp, expected=f'{cm} if {cm}.matched_taxon is not None else None', found=u(pmv),
            stmt='primary match')
    rep.add('D3', fi.site(c), 'the reported closest match is the argmin match; the run is flagged successful', u(kw.get('closest_match')) == cm and is_const(kw.get('success'), True),
            expected=f'closest_match={cm}, success=True', found=(u(kw.get('closest_match')), u(kw.get('success'))), stmt='closest / success')
    rep.add('D3', fi.site(c), 'next taxon is left to the default (derived from the closest match)', 'next_taxon' not in kw and len(c.args) == 0, expected='default', found=sorted(kw), stmt='next default')
    # the non-strict return happens before any strict-mode processing can alter closest_match
    between = [s for s in fn.body if st.lineno < s.lineno < rs.lineno and isinstance(s, ast.Assign) and any(u(t) == cm for t in s.targets)]
    rep.add('D3', fi.site(rs), 'closest match is not rebound before the non-strict return', not between, expected='none', found=[u(b) for b in between], stmt='closest rebinding')
    crets = [s for s in stmts_in(fn.body) if isinstance(s, ast.Return) and (any(x in results for x in ast.walk(s)) or isinstance(s.value, ast.Name))]
    rep.account_returns('D3', fi, crets, 'classification result')
    d = fi.param_default('strict')
    rep.add('D3', fi.site(), 'default mode is non-strict', d is not None and is_const(d, False), expected='strict=False', found=u(d), stmt='strict default')
    # attrs defaults
    cr = m.cls(f'{CL}.ClassifierResult')
    f2 = cr.methods.get('_next_taxon_default')
    okd = f2 is not None and any(u(dec) == 'next_taxon.default' for dec in f2.decorators)
    body = [s for s in f2.node.body if not (isinstance(s, ast.Expr) and isinstance(s.value, ast.Constant))] if f2 else []
    okd = okd and len(body) == 1 and isinstance(body[0], ast.Return) and u(body[0].value) == 'self.closest_match.next_taxon()'
    rep.add('D3', f2.site() if f2 else cr.site(), "ClassifierResult.next_taxon defaults to the closest match's next taxon", okd, expected='self.closest_match.next_taxon()', found=[u(s) for s in body],
            stmt='next_taxon default')
    gc = m.cls(f'{CL}.GenomeMatch')
    f3 = gc.methods.get('_matched_taxon_default')
    body = [s for s in f3.node.body if not (isinstance(s, ast.Expr) and isinstance(s.value, ast.Constant))] if f3 else []
    okg = f3 is not None and any(u(dec) == 'matched_taxon.default' for dec in f3.decorators) and len(body) == 1 and isinstance(body[0], ast.Return) \
        and isinstance(body[0].value, ast.Call) and m.resolve_call(f3, body[0].value) == f'{CL}.matching_taxon' \
        and [u(a) for a in body[0].value.args] == ['self.genome.taxon', 'self.distance']
    rep.add('D3', f3.site() if f3 else gc.site(), 'a match built without a taxon derives it from its own genome and distance', okg, expected='matching_taxon(self.genome.taxon, self.distance)',
            found=[u(s) for s in body], stmt='matched_taxon default')
    order = [k for k in gc.annotations]
    rep.add('D3', gc.site(), 'GenomeMatch positional field order is (genome, distance, matched_taxon)', order[:3] == ['genome', 'distance', 'matched_taxon'], expected=['genome', 'distance', 'matched_taxon'],
            found=order, stmt='GenomeMatch fields')


# ------------------------------------------------------------------------------------------------ D4
def _facts(test, pol):
    """(var, fact) refinements implied by test == pol; fact in nonnull|null|thr|nothr."""
    if isinstance(test, ast.BoolOp):
        if isinstance(test.op, ast.And) and pol:
            for v in test.values:
                yield from _facts(v, True)
        elif isinstance(test.op, ast.Or) and not pol:
            for v in test.values:
                yield from _facts(v, False)
        return
    if isinstance(test, ast.UnaryOp) and isinstance(test.op, ast.Not):
        yield from _facts(test.operand, not pol)
        return
    if isinstance(test, ast.Compare) and len(test.ops) == 1 and is_none(test.comparators[0]) and isinstance(test.ops[0], (ast.Is, ast.IsNot)):
        nonnull = (isinstance(test.ops[0], ast.IsNot) == pol)
        left = test.left
        if isinstance(left, ast.Name):
            yield (left.id, 'nonnull' if nonnull else 'null')
        elif isinstance(left, ast.Attribute) and left.attr == 'distance_threshold' and isinstance(left.value, ast.Name):
            yield (left.value.id, 'thr' if nonnull else 'nothr')


def _apply(st, var, f):
    cur = st.get(var, TOP)
    if f == 'nonnull':
        cur = cur - {NONE}
    elif f == 'null':
        cur = cur & {NONE}
    elif f == 'thr':
        cur = frozenset(CHK if x == UNCHK else x for x in cur) - {NONE}
    elif f == 'nothr':
        cur = cur - {CHK}
    st[var] = cur


def _freeze(st):
    return tuple(sorted(st.items()))


def check_next_taxon(ctx, d1_atoms):
    rep, m = ctx.rep, ctx.model
    fi = m.func(f'{CL}.GenomeMatch.next_taxon')
    rep.functions.add(fi.qualname)
    cfg = CFG(fi.node)

    def val(expr, st):
        if is_none(expr):
            return frozenset([NONE])
        if isinstance(expr, ast.Name):
            return st.get(expr.id, TOP)
        if isinstance(expr, ast.Attribute) and expr.attr == 'parent':
            return TOP
        if isinstance(expr, ast.Attribute) and u(expr) in ('self.genome.taxon',):
            return frozenset([UNCHK])
        if isinstance(expr, ast.IfExp):
            return val(expr.body, st) | val(expr.orelse, st)
        raise Undecided(f'next_taxon: taxon-valued expression outside the vocabulary: {u(expr)}')

    def transfer(n, state):
        st = dict(state)
        s = n.stmt
        if n.kind == 'stmt' and isinstance(s, ast.Assign):
            if len(s.targets) == 1 and isinstance(s.targets[0], ast.Name):
                st[s.targets[0].id] = val(s.value, st)
            else:
                raise Undecided(f'next_taxon: assignment form {u(s)}')
        elif n.kind == 'stmt' and isinstance(s, (ast.AugAssign, ast.AnnAssign)):
            raise Undecided(f'next_taxon: statement {u(s)}')
        return _freeze(st)

    def refine(n, lab, state):
        st = dict(state)
        if n.kind == 'for':
            it = n.stmt.iter
            if isinstance(it, ast.Call) and callee_attr(it) == 'ancestors' and isinstance(n.stmt.target, ast.Name):
                if lab is True:
                    st[n.stmt.target.id] = frozenset([UNCHK])     # some taxon of the lineage, threshold unknown
                return _freeze(st)
            raise Undecided('next_taxon: for loop over something other than an ancestors() walk')
        test = n.stmt
        if isinstance(test, ast.BoolOp) and isinstance(test.op, ast.And) and lab is False and len(test.values) >= 2:
            # not (A and B ...) : join over "first k true, k+1 false"
            acc = None
            pre = dict(st)
            feasible_pre = True
            for v in test.values:
                if not feasible_pre:
                    break
                branch = dict(pre)
                for (var, f) in _facts(v, False):
                    _apply(branch, var, f)
                if not any(len(x) == 0 for x in branch.values()):
                    acc = branch if acc is None else {k: acc.get(k, frozenset()) | branch.get(k, frozenset()) for k in set(acc) | set(branch)}
                for (var, f) in _facts(v, True):
                    _apply(pre, var, f)
                if any(len(x) == 0 for x in pre.values()):
                    feasible_pre = False
            if acc is None:
                return None
            return _freeze(acc)
        for (var, f) in _facts(test, lab):
            _apply(st, var, f)
        if any(len(v) == 0 for v in st.values()):
            return None
        return _freeze(st)

    def join(a, b):
        da, db = dict(a), dict(b)
        return _freeze({k: da.get(k, frozenset()) | db.get(k, frozenset()) for k in set(da) | set(db)})

    IN = solve(cfg, tuple(), transfer, refine, join)
    rets = [n for n in cfg.nodes if n.kind == 'return' and n.id in IN]
    rep.floor('D4', 'reachable returns in next_taxon', len(rets), 1)
    for n in rets:
        st = dict(IN[n.id])
        v = val(n.stmt.value, st) if n.stmt.value is not None else frozenset([NONE])
        rep.add('D4', fi.site(n.stmt), 'every taxon that can be returned as "next" has passed a threshold-present test on every path (or is None)', UNCHK not in v,
                expected='{checked, None}', found=sorted(v), stmt=n.stmt, construct=f'{fi.qualname}')
    # implicit fall-off-the-end returns None: fine.
    # stop test has the same normal form as D1 (d := self.distance, t := the walked taxon)
    gm = guard_map(fi.node)
    inner = [s for s in stmts_in(fi.node.body) if isinstance(s, ast.Return) and len(block_path(fi.node, s)) > 1]
    walk_loops = [s for s in stmts_in(fi.node.body) if isinstance(s, (ast.While, ast.For))]
    rep.require(walk_loops, 'next_taxon: no lineage walk found')
    stops = list(inner) + [s for s in stmts_in(fi.node.body) if isinstance(s, ast.Break)]
    stops = [s for s in stops if any(a[0] in ('le', 'lt') and 'self.distance' in a[1:] for a in path_atoms(gm[s]))]
    rep.add('D4', fi.site(walk_loops[0]), 'the walk stops at the first (most specific) taxon whose threshold covers the distance, so "next" is the nearest threshold-bearing taxon BELOW the prediction',
            bool(stops), expected='return/break inside the walk under distance <= threshold', found='the walk never stops at the predicted taxon (it reports the topmost exceeded threshold; wrong when thresholds are not monotone)' if not stops else 'ok',
            stmt='walk stop')
    for r in inner:
        at = path_atoms(gm[r])
        le = [a for a in at if a[0] in ('le', 'lt')]
        ok = len(le) == 1 and le[0][0] == 'le' and le[0][1] == 'self.distance' and le[0][2].endswith('.distance_threshold')
        rep.add('D4', fi.site(r), 'the walk stops at a taxon under the same test as the prediction (distance <= threshold, equality included)', ok,
                expected='self.distance <= <taxon>.distance_threshold', found=sorted(at), stmt='stop test')
        if ok:
            walked = le[0][2].rsplit('.', 1)[0]
            # what is returned there is the previously remembered taxon, not the one that met its threshold
            rep.add('D4', fi.site(r), 'at the stop the previously remembered (more specific) taxon is returned, not the one that met its threshold',
                    isinstance(r.value, ast.Name) and r.value.id != walked, expected='the remembered taxon', found=u(r.value), stmt='stop value')
            # the remembered taxon is updated from the walked one after a failed test, in the same loop
            lo = r.value.id if isinstance(r.value, ast.Name) else None
            upd = [s for s in stmts_in(fi.node.body) if isinstance(s, ast.Assign) and u(s.targets[0]) == lo and u(s.value) == walked]
            okk = False
            for s in upd:
                bp_s, bp_r = block_path(fi.node, s), block_path(fi.node, r)
                loops_s = [o for (_, _, o) in bp_s if isinstance(o, ast.While)]
                loops_r = [o for (_, _, o) in bp_r if isinstance(o, ast.While)]
                okk = okk or (bool(loops_s) and loops_s[-1] in loops_r and s.lineno > r.lineno)
            rep.add('D4', fi.site(upd[0] if upd else r), 'a taxon whose threshold was exceeded is remembered before the walk moves up', okk, expected=f'{lo} = {walked} after the failed test',
                    found=[u(s) for s in upd], stmt='remember step')


# ------------------------------------------------------------------------------------------------ D5 / D6
def check_reportable(ctx):
    rep, m = ctx.rep, ctx.model
    fi = m.func('gambit.db.models.reportable_taxon')
    rep.functions.add(fi.qualname)
    tp = fi.params()[0]
    gm = guard_map(fi.node)
    fors = [s for s in fi.node.body if isinstance(s, ast.For)]
    rep.require(len(fors) == 1 and isinstance(fors[0].target, ast.Name), 'reportable_taxon: expected one for loop')
    loop = fors[0]
    t = loop.target.id
    it = loop.iter
    inc = get_arg(it, 0, 'incself') if isinstance(it, ast.Call) else None
    ok = isinstance(it, ast.Call) and callee_attr(it) == 'ancestors' and u(it.func.value) == tp and inc not in (None, Ellipsis) and is_const(inc, True)
    rep.add('D5', fi.site(loop), 'the walk starts at the predicted taxon itself', ok, expected=f'{tp}.ancestors(incself=True)', found=u(it), stmt='report walk')
    rets = [s for s in stmts_in(loop.body) if isinstance(s, ast.Return)]
    rep.floor('D5', 'returns in the report walk', len(rets), 1)
    for r in rets:
        at = path_atoms(gm[r]) - {('isnot', 'None', tp)}
        rep.add('D5', fi.site(r), 'the first taxon flagged reportable is returned', at == {('true', f'{t}.report')} and u(r.value) == t, expected=f'return {t} under {t}.report',
                found=(u(r.value), sorted(at)), stmt='report test')
    at_loop = path_atoms(gm[loop])
    rep.add('D5', fi.site(loop), 'None passes through', ('isnot', 'None', tp) in at_loop, expected=f'{tp} is not None before the walk', found=sorted(at_loop), stmt='None passthrough')
    last = fi.node.body[-1]
    none_pass = [s for s in stmts_in(fi.node.body) if isinstance(s, ast.Return) and path_atoms(gm[s]) == {('is', 'None', tp)} and is_none(s.value)]
    rep.account_returns('D5', fi, rets + none_pass + ([last] if isinstance(last, ast.Return) else []), 'reported taxon')
    rep.add('D5', fi.site(last), 'nothing reportable in the lineage gives None', isinstance(last, ast.Return) and is_none(last.value), expected='return None', found=u(last), stmt='no reportable')
    # D6
    fg = m.func('gambit.query.get_result_item')
    rep.functions.add(fg.qualname)
    items = [c for c in calls_in(fg.node) if m.resolve_call(fg, c) == 'gambit.query.QueryResultItem']
    rep.require(len(items) == 1, 'get_result_item: expected one QueryResultItem construction')
    kw = {k.arg: k.value for k in items[0].keywords}
    cr = kw.get('classifier_result')
    crv = None
    if isinstance(cr, ast.Name):
        d = reaching_def(fg.node, cr.id, next(s for s in fg.node.body if any(x is items[0] for x in ast.walk(s))))
        crv = def_value(d) if d not in (None, PARAM, AMBIGUOUS) else None
    okc = isinstance(crv, ast.Call) and m.resolve_call(fg, crv) == f'{CL}.classify'
    rep.add('D6', fg.site(items[0]), 'the stored classifier result is the classify() outcome for this row', okc, expected='classify(db.genomes, dists, ...)', found=u(crv), stmt='classifier result')
    rep.account_returns('D6', fg, [s for s in stmts_in(fg.node.body) if isinstance(s, ast.Return) and s.value is items[0]], 'result item')
    rt = kw.get('report_taxon')
    okr = isinstance(rt, ast.Call) and m.resolve_call(fg, rt) == 'gambit.db.models.reportable_taxon' and [u(a) for a in rt.args] == [f'{u(cr)}.predicted_taxon']
    rep.add('D6', fg.site(items[0]), 'the user-facing taxon is the reportable ancestor of the predicted taxon', okr, expected=f'reportable_taxon({u(cr)}.predicted_taxon)', found=u(rt),
            stmt='report taxon')
    if isinstance(crv, ast.Call):
        st_kw = get_kw(crv, 'strict')
        rep.add('D6', fg.site(crv), 'strict mode is taken from the query parameters only', u(st_kw) == f'{fg.params()[1]}.classify_strict', expected='strict=params.classify_strict', found=u(st_kw),
                stmt='strict wiring')
    qp = m.cls('gambit.query.QueryParams')
    dflt = qp.class_attrs.get('classify_strict')
    dv = get_kw(dflt, 'default') if isinstance(dflt, ast.Call) else None
    rep.add('D6', qp.site(dflt), 'queries are non-strict by default', dv is not None and is_const(dv, False), expected='default=False', found=u(dv), stmt='classify_strict default')


def check(ctx):
    rep = ctx.rep
    rep.rule('D1', 'matching_taxon: guard conjunct set {t.distance_threshold is not None, d <= t.distance_threshold}, walk ancestors(incself=True), first hit returned')
    rep.rule('D2', 'Taxon.ancestors: self-or-parent start, yield, step to parent until None')
    rep.rule('D3', 'non-strict classify: argmin, same-index pairing, result fields, attrs defaults')
    rep.rule('D4', 'next_taxon: forward abstract interpretation over the CFG; every returned taxon is threshold-checked or None; stop test == D1 normal form')
    rep.rule('D5', 'reportable_taxon: None passthrough, first ancestor-or-self with report')
    rep.rule('D6', 'get_result_item: classify of this row; report taxon from predicted taxon; strict only from params')
    rep.trusted += ['np.argmin returns the first minimum']
    rep.assumptions += ['Composition of the clauses into the full statement for every forest is a hand argument (DESIGN.md 5/C03). Monotonicity follows from D1 being downward-closed in d.']
    d1 = check_matching_taxon(ctx)
    check_ancestors(ctx)
    check_classify(ctx)
    check_next_taxon(ctx, d1)
    check_reportable(ctx)


from ..variants import V  # noqa: E402

_C = 'src/gambit/classify.py'
_M = 'src/gambit/db/models.py'
_Q = 'src/gambit/query.py'
VARIANTS = [
    V('threshold test strict <', 'B', _C, "if t.distance_threshold is not None and d <= t.distance_threshold:", "if t.distance_threshold is not None and d < t.distance_threshold:", 'D1'),
    V('matching_taxon skips the taxon itself', 'B', _C, "\tfor t in taxon.ancestors(incself=True):\n\t\tif t.distance_threshold", "\tfor t in taxon.ancestors(incself=False):\n\t\tif t.distance_threshold", 'D1'),
    V('distance taken at index 0', 'B', _C, "\t\tdistance=dists[closest],\n", "\t\tdistance=dists[0],\n", 'D3'),
    V('primary match unconditional', 'B', _C, "primary_match=closest_match if closest_match.matched_taxon is not None else None,", "primary_match=closest_match,", 'D3'),
    V('argmax', 'B', _C, "closest = np.argmin(dists)", "closest = np.argmax(dists)", 'D3'),
    V('reportable test inverted', 'B', _M, "\t\tif t.report:\n\t\t\treturn t", "\t\tif not t.report:\n\t\t\treturn t", 'D5'),
    V('report walk from the parent', 'B', _M, "\tfor t in taxon.ancestors(incself=True):\n\t\tif t.report:", "\tfor t in taxon.ancestors(incself=False):\n\t\tif t.report:", 'D5'),
    V('ancestors skips every other level', 'B', _M, "\t\t\tyield taxon\n\t\t\ttaxon = taxon.parent\n", "\t\t\tyield taxon\n\t\t\ttaxon = taxon.parent.parent if taxon.parent is not None else None\n", 'D2'),
    V('next_taxon stop test strict', 'B', _C, "self.distance <= hi.distance_threshold:", "self.distance < hi.distance_threshold:", 'D4'),
    V('next_taxon returns the taxon that met its threshold', 'B', _C, "\t\t\t\treturn lo\n\n\t\t\tlo = hi\n", "\t\t\t\treturn hi\n\n\t\t\tlo = hi\n", 'D4'),
    V('next_taxon start no longer skips threshold-less taxa (the repaired defect)', 'B', _C,
      "\t\twhile hi is not None and hi.distance_threshold is None:\n\t\t\thi = hi.parent\n\n\t\twhile hi is not None:", "\t\twhile hi is not None:", 'D4'),
    V('next_taxon as a single pass without a stop (seeded C03a)', 'B', _C,
      "\t\twhile hi is not None:\n\t\t\tif hi.distance_threshold is not None and self.distance <= hi.distance_threshold:\n\t\t\t\treturn lo\n\n\t\t\tlo = hi\n",
      "\t\twhile hi is not None:\n\t\t\tif hi.distance_threshold is not None and self.distance <= hi.distance_threshold:\n\t\t\t\tpass\n\t\t\telse:\n\t\t\t\tlo = hi\n", 'D4'),
    V('next_taxon advance no longer skips threshold-less ancestors', 'B', _C, "\t\t\twhile hi is not None and hi.distance_threshold is None:\n\t\t\t\thi = hi.parent\n\n\t\treturn lo", "\n\t\treturn lo", 'D4'),
    V('report taxon from closest match taxon', 'B', _Q, "report_taxon=reportable_taxon(clsresult.predicted_taxon),", "report_taxon=reportable_taxon(clsresult.closest_match.genome.taxon),", 'D6'),
    V('closest match taxon from a different distance', 'B', _C, "matched_taxon=matching_taxon(ref_genomes[closest].taxon, dists[closest]),", "matched_taxon=matching_taxon(ref_genomes[closest].taxon, dists.mean()),", 'D3'),
    V('E: threshold >= d', 'E', _C, "if t.distance_threshold is not None and d <= t.distance_threshold:", "if t.distance_threshold is not None and t.distance_threshold >= d:"),
    V('E: guard split into nested ifs', 'E', _C, "\t\tif t.distance_threshold is not None and d <= t.distance_threshold:\n\t\t\treturn t",
      "\t\tif t.distance_threshold is not None:\n\t\t\tif d <= t.distance_threshold:\n\t\t\t\treturn t"),
    V('E: dists.argmin()', 'E', _C, "closest = np.argmin(dists)", "closest = dists.argmin()"),
    V('E: primary match test inverted with swapped arms', 'E', _C, "primary_match=closest_match if closest_match.matched_taxon is not None else None,",
      "primary_match=None if closest_match.matched_taxon is None else closest_match,"),
]
