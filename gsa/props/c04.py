"""C04 - each reference genome is compared through its own signature, matched by ID.

R1 parallel lists built under one guard from one enumerate   R2 id->genome map orientation
R3 id_attr / completeness guards dominate a constructed database   R4 id attribute whitelist
R5 exactly one genome file and one signature file   R6 query uses signatures + indices + genomes of ONE database object
"""
import ast

from ..astutil import (u, atoms, guard_map, path_atoms, stmts_in, calls_in, callee, callee_attr, reaching_def, def_value,
                       PARAM, AMBIGUOUS, raised_name, assigns_to, get_arg, get_kw, block_path, find_parent_map, is_none, is_const)
from ..report import Undecided

MOD = 'gambit.db.refdb'


def _len_count_key(n):
    return u(n)


def check(ctx):
    rep, m = ctx.rep, ctx.model
    rep.rule('R1', 'genomes_by_id_subset: (index, genome) pairs from one enumerate over the per-id lookup list; both appends in one block under `g is not None`; lookup is non-strict and order-preserving over ids')
    rep.rule('R2', '_map_ids_to_genomes: {added column: entity}')
    rep.rule('R3', 'ReferenceDatabase.__init__: raise on id_attr None; raise when matched count != genome count; ids and id_attr from the same signatures object')
    rep.rule('R4', '_check_genome_id_attr accepts only Genome.ID_ATTRS members')
    rep.rule('R5', 'locate_files: each suffix group must match exactly one file (n != 1 raises DatabaseLoadError) before it is taken')
    rep.rule('R6', 'query(): signatures, ref_indices and genomes all come from the one db object; loaders pass the loaded objects to the constructor')
    rep.trusted += ['SQLAlchemy Query.add_columns yields rows (entity, added column)', 'dict.get returns None for an unknown id']

    # ---------------------------------------------------------------------------------- R1
    fi = m.func(f'{MOD}.genomes_by_id_subset')
    rep.functions.add(fi.qualname)
    fn = fi.node
    gset, id_attr, ids = fi.params()[:3]
    gm = guard_map(fn)
    appends = [c for c in calls_in(fn) if callee_attr(c) == 'append']
    rep.floor('R1', 'append sites in genomes_by_id_subset', len(appends), 2)
    rets = [s for s in stmts_in(fn.body) if isinstance(s, ast.Return)]
    rep.require(len(rets) == 1 and isinstance(rets[0].value, ast.Tuple) and len(rets[0].value.elts) == 2, 'genomes_by_id_subset: does not return a pair')
    gout, iout = (u(e) for e in rets[0].value.elts)
    by_list = {}
    for c in appends:
        by_list.setdefault(u(c.func.value), []).append(c)
    rep.require(set(by_list) == {gout, iout} and all(len(v) == 1 for v in by_list.values()), f'genomes_by_id_subset: appends do not target exactly the two returned lists: {sorted(by_list)}')
    ga, ia = by_list[gout][0], by_list[iout][0]
    gst = next(s for s in stmts_in(fn.body) if isinstance(s, ast.Expr) and s.value is ga)
    ist = next(s for s in stmts_in(fn.body) if isinstance(s, ast.Expr) and s.value is ia)
    bg, bi = block_path(fn, gst), block_path(fn, ist)
    same_block = bg[-1][0] is bi[-1][0]
    rep.add('R1', fi.site(ist), 'genome and index are appended in the same block (lists stay parallel)', same_block, expected='same block', found='different blocks' if not same_block else 'ok',
            stmt='appends same block')
    loop = next((o for (_, _, o) in reversed(bi) if isinstance(o, ast.For)), None)
    rep.require(loop is not None, 'genomes_by_id_subset: index append is not in a for loop')
    it = loop.iter
    en = isinstance(it, ast.Call) and u(it.func) == 'enumerate' and len(it.args) == 1 and not it.keywords and isinstance(loop.target, ast.Tuple) \
        and len(loop.target.elts) == 2 and all(isinstance(e, ast.Name) for e in loop.target.elts)
    rep.add('R1', fi.site(loop), 'index and genome are bound together by one enumerate', en, expected='for i, g in enumerate(<lookup list>)', found=u(it), stmt='enumerate')
    rep.require(en, 'genomes_by_id_subset: loop is not an enumerate')
    iv, gv = (e.id for e in loop.target.elts)
    rep.add('R1', fi.site(gst), 'the appended genome is the enumerated element', [u(a) for a in ga.args] == [gv], expected=f'append({gv})', found=u(ga), stmt='append genome')
    rep.add('R1', fi.site(ist), 'the appended index is the position in the signature-ID list (not a running count)', [u(a) for a in ia.args] == [iv],
            expected=f'append({iv})', found=u(ia), stmt='append index')
    for st, name in ((gst, 'genome'), (ist, 'index')):
        at = path_atoms(gm[st])
        rep.add('R1', fi.site(st), f'{name} append is guarded by `{gv} is not None` (unmatched signature IDs are skipped together)', ('isnot', 'None', gv) in at,
                expected=f'{gv} is not None', found=sorted(at), stmt=f'{name} guard')
    src = it.args[0]
    sv = src
    if isinstance(src, ast.Name):
        d = reaching_def(fn, src.id, loop)
        sv = def_value(d) if d not in (None, PARAM, AMBIGUOUS) else None
    ok = isinstance(sv, ast.Call) and m.resolve_call(fi, sv) == f'{MOD}.genomes_by_id' and [u(a) for a in sv.args[:3]] == [gset, id_attr, ids]
    strict = get_arg(sv, 3, 'strict') if isinstance(sv, ast.Call) else None
    rep.add('R1', fi.site(loop), 'the enumerated list is the per-ID lookup of the given ids', ok, expected=f'genomes_by_id({gset}, {id_attr}, {ids}, strict=False)', found=u(sv),
            stmt='lookup list')
    rep.add('R1', fi.site(loop), 'the lookup is non-strict (unrelated signatures in the file are tolerated)', strict is not None and strict is not Ellipsis and is_const(strict, False),
            expected='strict=False', found=u(strict) if strict not in (None, Ellipsis) else strict, stmt='strict flag')
    for lst in (gout, iout):
        ds = assigns_to(fn, lst)
        rep.add('R1', fi.site(ds[0] if ds else None), f'{lst} starts empty', len(ds) == 1 and isinstance(def_value(ds[0]), ast.List) and not def_value(ds[0]).elts,
                expected='[]', found=[u(d) for d in ds], stmt=f'{lst} init')
    # genomes_by_id: order-preserving comprehension over ids
    fb = m.func(f'{MOD}.genomes_by_id')
    rep.functions.add(fb.qualname)
    gmb = guard_map(fb.node)
    bp_ = fb.params()
    ids_b = bp_[2]
    rets_b = [s for s in stmts_in(fb.node.body) if isinstance(s, ast.Return)]
    rep.floor('R1', 'returns in genomes_by_id', len(rets_b), 2)
    dname = None
    for r in rets_b:
        at = path_atoms(gmb[r])
        v = r.value
        okc = isinstance(v, ast.ListComp) and len(v.generators) == 1 and isinstance(v.generators[0].target, ast.Name)
        rep.require(okc, f'genomes_by_id: return is not a list comprehension: {u(v)}')
        one2one = not v.generators[0].ifs and u(v.generators[0].iter) == ids_b
        rep.add('R1', fb.site(r), 'the lookup list has exactly one entry per id, in the order of ids', one2one, expected=f'for x in {ids_b} (no filter, no reordering)',
                found=u(v), stmt=f'lookup order[{"strict" if ("true", "strict") in at else "non-strict"}]')
        t = v.generators[0].target.id
        if ('false', 'strict') in at:
            e = v.elt
            okg = isinstance(e, ast.Call) and callee_attr(e) == 'get' and [u(a) for a in e.args] == [t]
            rep.add('R1', fb.site(r), 'non-strict lookup yields one entry per id, None for unknown ids, in id order', okg, expected=f'[d.get({t}) for {t} in {ids_b}]', found=u(v),
                    stmt='non-strict lookup')
            if okg:
                dname = u(e.func.value)
        elif ('true', 'strict') in at:
            e = v.elt
            okg = isinstance(e, ast.Subscript) and u(e.slice) == t
            rep.add('R1', fb.site(r), 'strict lookup raises KeyError for unknown ids', okg, expected=f'[d[{t}] for {t} in {ids_b}]', found=u(v), stmt='strict lookup')
        else:
            raise Undecided(f'genomes_by_id: return not controlled by strict: {u(r)}')
    rep.account_returns('R1', fb, rets_b, 'lookup list')
    rep.account_returns('R1', fi, rets, 'matched (genomes, indices) pair')
    rep.require(dname is not None, 'genomes_by_id: non-strict lookup dict not identified')
    dd = assigns_to(fb.node, dname)
    okd = len(dd) == 1 and isinstance(def_value(dd[0]), ast.Call) and m.resolve_call(fb, def_value(dd[0])) == f'{MOD}._map_ids_to_genomes' \
        and u(def_value(dd[0]).args[0]) == bp_[0]
    rep.add('R1', fb.site(dd[0] if dd else None), 'the lookup dict is the id map of this genome set', okd, expected=f'_map_ids_to_genomes({bp_[0]}, id_attr)', found=[u(x) for x in dd],
            stmt='lookup dict')
    chk = [s for s in fb.node.body if isinstance(s, ast.Assign) and isinstance(s.value, ast.Call) and m.resolve_call(fb, s.value) == f'{MOD}._check_genome_id_attr']
    rep.add('R4', fb.site(chk[0] if chk else None), 'the id attribute is validated before use', len(chk) == 1 and u(chk[0].targets[0]) == bp_[1] and dd and chk[0].lineno < dd[0].lineno,
            expected=f'{bp_[1]} = _check_genome_id_attr({bp_[1]})', found=[u(c) for c in chk], stmt='id_attr validation')

    # ---------------------------------------------------------------------------------- R2
    fm = m.func(f'{MOD}._map_ids_to_genomes')
    rep.functions.add(fm.qualname)
    mp = fm.params()
    rets_m = [s for s in stmts_in(fm.node.body) if isinstance(s, ast.Return)]
    rep.require(len(rets_m) >= 1 and isinstance(rets_m[-1].value, ast.DictComp), '_map_ids_to_genomes: does not return a dict comprehension')
    rep.account_returns('R2', fm, rets_m[-1:], 'id map')
    rets_m = rets_m[-1:]
    dc = rets_m[0].value
    g = dc.generators[0]
    rep.require(isinstance(g.target, ast.Tuple) and len(g.target.elts) == 2 and not g.ifs, '_map_ids_to_genomes: comprehension target is not a pair')
    ent, col = (u(e) for e in g.target.elts)
    rep.add('R2', fm.site(rets_m[0]), 'map key is the ID column, value the genome entity', u(dc.key) == col and u(dc.value) == ent, expected=f'{{{col}: {ent}}}', found=f'{{{u(dc.key)}: {u(dc.value)}}}',
            stmt='dict orientation')
    q = g.iter
    qv = q
    if isinstance(q, ast.Name):
        d = reaching_def(fm.node, q.id, rets_m[0])
        qv = def_value(d) if d not in (None, PARAM, AMBIGUOUS) else None
    addc = [c for c in calls_in(qv) if callee_attr(c) == 'add_columns'] if qv is not None else []
    okq = len(addc) == 1 and [u(a) for a in addc[0].args] == [mp[1]] and u(qv).startswith(f'{mp[0]}.genomes')
    rep.add('R2', fm.site(rets_m[0]), 'rows are (genome of this set, value of the requested id attribute)', okq, expected=f'{mp[0]}.genomes...add_columns({mp[1]})', found=u(qv),
            stmt='query shape')
    joins = [c for c in calls_in(qv) if callee_attr(c) == 'join'] if qv is not None else []
    rep.add('R2', fm.site(rets_m[0]), 'the id column is read from the genome joined through the annotation', len(joins) == 1 and [u(a) for a in joins[0].args] == ['AnnotatedGenome.genome'],
            expected='.join(AnnotatedGenome.genome)', found=[u(j) for j in joins], stmt='join')

    # ---------------------------------------------------------------------------------- R3
    fc = m.func(f'{MOD}.ReferenceDatabase.__init__')
    rep.functions.add(fc.qualname)
    cn = fc.node
    _, gsetp, sigp = fc.params()[:3]
    gmc = guard_map(cn)
    raises = [s for s in stmts_in(cn.body) if isinstance(s, ast.Raise)]
    sub_calls = [c for c in calls_in(cn) if m.resolve_call(fc, c) == f'{MOD}.genomes_by_id_subset']
    rep.require(len(sub_calls) == 1, 'ReferenceDatabase.__init__: expected one genomes_by_id_subset call')
    sc = sub_calls[0]
    sst = next(s for s in stmts_in(cn.body) if isinstance(s, ast.Assign) and s.value is sc)
    tg = sst.targets[0]
    okt = isinstance(tg, ast.Tuple) and [u(e) for e in tg.elts] == ['self.genomes', 'self.sig_indices']
    rep.add('R3', fc.site(sst), 'matched genomes and their signature positions are stored in the returned order (genomes, indices)', okt, expected='self.genomes, self.sig_indices = ...',
            found=u(tg), stmt='pair unpack')
    a_id = sc.args[1] if len(sc.args) > 1 else None
    idv = a_id
    if isinstance(a_id, ast.Name):
        d = reaching_def(cn, a_id.id, sst)
        idv = def_value(d) if d not in (None, PARAM, AMBIGUOUS) else None
    rep.add('R3', fc.site(sst), 'ids and the id attribute come from the same signatures object; genomes from the given genome set',
            u(sc.args[0]) == gsetp and u(idv) == f'{sigp}.meta.id_attr' and u(sc.args[2]) == f'{sigp}.ids', expected=f'({gsetp}, {sigp}.meta.id_attr, {sigp}.ids)',
            found=(u(sc.args[0]), u(idv), u(sc.args[2]) if len(sc.args) > 2 else None), stmt='subset arguments')
    idname = a_id.id if isinstance(a_id, ast.Name) else u(a_id)
    at = path_atoms(gmc[sst])
    rep.add('R3', fc.site(sst), 'a missing id attribute is refused before matching', ('isnot', 'None', idname) in at, expected=f'{idname} is not None on the path', found=sorted(at),
            stmt='id_attr guard')
    # completeness: on the normal exit, len(self.genomes) == genomeset.genomes.count()
    end_guards = list(gmc[cn.body[-1]])
    last = cn.body[-1]
    if isinstance(last, ast.If) and not last.orelse and raises and all(isinstance(x, (ast.Raise, ast.Assign, ast.Expr)) for x in last.body) and isinstance(last.body[-1], ast.Raise):
        end_guards.append((last.test, False))
    env = {}
    for s in cn.body:
        if isinstance(s, ast.Assign) and isinstance(s.targets[0], ast.Name):
            env[s.targets[0].id] = u(s.value)

    def key(n):
        t = u(n)
        return env.get(t, t)
    eat = path_atoms(end_guards, key=key)
    cnt = f'{gsetp}.genomes.count()'
    okc = ('eq', *sorted(['len(self.genomes)', cnt])) in eat or ('eq', *sorted(['len(self.sig_indices)', cnt])) in eat
    rep.add('R3', fc.site(last), 'a database object exists only if every genome of the set was matched to a signature', okc, expected=f'len(self.genomes) == {cnt} on every normal exit',
            found=sorted(eat), stmt='completeness guard')
    for s in stmts_in(cn.body):
        if isinstance(s, ast.Return):
            rep.add('R3', fc.site(s), 'no early return bypasses the completeness check', False, expected='none', found=u(s), stmt='early return')
    stores = {u(s.targets[0]): u(s.value) for s in cn.body if isinstance(s, ast.Assign) and isinstance(s.targets[0], ast.Attribute)}
    rep.add('R3', fc.site(), 'the object keeps the very signatures / genome set it was matched against', stores.get('self.signatures') == sigp and stores.get('self.genomeset') == gsetp,
            expected=f'self.signatures = {sigp}; self.genomeset = {gsetp}', found=stores, stmt='stored members')

    # ---------------------------------------------------------------------------------- R4
    fk = m.func(f'{MOD}._check_genome_id_attr')
    rep.functions.add(fk.qualname)
    gmk = guard_map(fk.node)
    ap = fk.params()[0]
    pmk = find_parent_map(fk.node)
    lastk = fk.node.body[-1]
    rep.add('R4', fk.site(lastk), 'anything not whitelisted raises ValueError', isinstance(lastk, ast.Raise) and raised_name(lastk) == 'ValueError', expected='raise ValueError',
            found=u(lastk)[:60], stmt='reject')
    for r in [s for s in stmts_in(fk.node.body) if isinstance(s, ast.Return)]:
        at = path_atoms(gmk[r])
        in_whitelist = any(a[0] == 'in' and a[1] == ap and a[2].endswith('ID_ATTRS') for a in at)
        bp = block_path(fk.node, r)
        loop = next((o for (_, _, o) in reversed(bp) if isinstance(o, ast.For)), None)
        via_loop = loop is not None and u(loop.iter).endswith('ID_ATTRS') and any(a[0] == 'is' and ap in a for a in at)
        rep.add('R4', fk.site(r), 'an attribute is accepted only when it is one of Genome.ID_ATTRS', in_whitelist or via_loop, expected='membership in Genome.ID_ATTRS',
                found=sorted(at), stmt=r)
    gcls = m.cls('gambit.db.models.Genome')
    ida = gcls.class_attrs.get('ID_ATTRS')
    rep.require(ida is not None, 'Genome.ID_ATTRS not found')
    names = ast.literal_eval(ida)
    cols_ok = all(n in gcls.class_attrs for n in names)
    rep.add('R4', gcls.site(ida), 'every whitelisted id attribute is a column of Genome', cols_ok and len(names) >= 1, expected='columns', found=names, stmt='ID_ATTRS')

    # ---------------------------------------------------------------------------------- R5
    fl = m.func(f'{MOD}.ReferenceDatabase.locate_files')
    rep.functions.add(fl.qualname)
    ln = fl.node
    helpers = [s for s in ln.body if isinstance(s, ast.FunctionDef)]
    pops = [c for c in calls_in(ln) if callee_attr(c) == 'pop' and not c.args]
    groups = []
    for s in ln.body:
        if isinstance(s, ast.Assign) and isinstance(s.value, (ast.SetComp, ast.ListComp)) and isinstance(s.targets[0], ast.Name):
            comp = s.value
            ifs = comp.generators[0].ifs
            if len(ifs) == 1 and isinstance(ifs[0], ast.Compare) and isinstance(ifs[0].ops[0], ast.In) and u(ifs[0].left).endswith('.suffix'):
                try:
                    groups.append((s.targets[0].id, tuple(ast.literal_eval(ifs[0].comparators[0])), s))
                except Exception:
                    raise Undecided('locate_files: suffix group is not a literal')
    rep.floor('R5', 'suffix groups in locate_files', len(groups), 2)
    sufs = sorted(tuple(sorted(g[1])) for g in groups)
    rep.add('R5', fl.site(), 'the two groups are the genome-database and signature-file extensions', sufs == [('.db', '.gdb'), ('.gs', '.h5')], expected="('.gdb','.db'), ('.gs','.h5')",
            found=sufs, stmt='suffix groups')
    # the single-match checker: raises DatabaseLoadError under n != 1, n = len(matches)
    single = None
    for h in helpers:
        hp = [a.arg for a in h.args.args]
        hg = guard_map(h)
        rs = [s for s in stmts_in(h.body) if isinstance(s, ast.Raise)]
        henv = {}
        for s in h.body:
            if isinstance(s, ast.Assign) and isinstance(s.targets[0], ast.Name):
                henv[s.targets[0].id] = u(s.value)
        for r in rs:
            at = path_atoms(hg[r], key=lambda n: henv.get(u(n), u(n)))
            if raised_name(r) and raised_name(r).endswith('DatabaseLoadError') and ('ne', '1', f'len({hp[0]})') in at and len(at) == 1:
                single = h
    rep.add('R5', fl.site(helpers[0] if helpers else None), 'the single-match helper raises DatabaseLoadError exactly when the number of matches is not 1', single is not None,
            expected='if len(matches) != 1: raise DatabaseLoadError', found=[u(h.body[-1])[:60] for h in helpers], stmt='single-match helper')
    for name, sfx, st in groups:
        pp = [c for c in pops if u(c.func.value) == name]
        chk = [s for s in ln.body if isinstance(s, ast.Expr) and isinstance(s.value, ast.Call) and single is not None and u(s.value.func) == single.name
               and s.value.args and u(s.value.args[0]) == name]
        pop_st = next((s for s in ln.body if any(x in pp for x in ast.walk(s))), None)
        ok = len(pp) == 1 and len(chk) == 1 and pop_st is not None and st.lineno < chk[0].lineno < pop_st.lineno
        rep.add('R5', fl.site(pop_st if pop_st is not None else st), f'{sfx}: the match set is checked to hold exactly one file before one is taken', ok, expected='check_single_match(matches) before matches.pop()',
                found=(len(chk), len(pp)), stmt=f'single {sfx}')
        gen = st.value.generators[0]
        rep.add('R5', fl.site(st), f'{sfx}: candidates are the direct children of the given directory', u(gen.iter) in ('path.iterdir()', 'Path(path).iterdir()'), expected='path.iterdir()',
                found=u(gen.iter), stmt=f'candidates {sfx}')
    lastl = ln.body[-1]
    okr = isinstance(lastl, ast.Return) and isinstance(lastl.value, ast.Tuple) and len(lastl.value.elts) == 2
    if okr:
        # first returned is the genome file (pop of the gdb group), second the signature file
        def origin(e):
            d = reaching_def(ln, e.id, lastl) if isinstance(e, ast.Name) else None
            v = def_value(d) if d not in (None, PARAM, AMBIGUOUS) else None
            return u(v.func.value) if isinstance(v, ast.Call) and isinstance(v.func, ast.Attribute) else None
        o = [origin(e) for e in lastl.value.elts]
        gname = next((g[0] for g in groups if '.gdb' in g[1]), None)
        sname = next((g[0] for g in groups if '.gs' in g[1]), None)
        okr = o == [gname, sname]
    rep.add('R5', fl.site(lastl), 'returns (genome file, signature file) in that order', okr, expected='(genomes_file, signatures_file)', found=u(lastl)[:80], stmt='locate result order')
    # loaders
    fload = m.func(f'{MOD}.ReferenceDatabase.load')
    rep.functions.add(fload.qualname)
    lp = fload.params()
    retl = [s for s in stmts_in(fload.node.body) if isinstance(s, ast.Return)]
    rep.require(len(retl) == 1 and isinstance(retl[0].value, ast.Call), 'ReferenceDatabase.load: no single constructor return')
    ctor = retl[0].value

    def origin_call(e):
        d = reaching_def(fload.node, e.id, retl[0]) if isinstance(e, ast.Name) else None
        if isinstance(d, ast.Assign) and isinstance(d.value, ast.Call):
            return m.resolve_call(fload, d.value), [u(a) for a in d.value.args]
        return None, None
    o1, o2 = origin_call(ctor.args[0]), origin_call(ctor.args[1])
    rep.add('R6', fload.site(retl[0]), 'load() builds the database from the genome set of the genome file and the signatures of the signature file',
            u(ctor.func) == 'cls' and o1 == (f'{MOD}.load_genomeset', [lp[1]]) and o2[0] in ('gambit.sigs.base.load_signatures',) and o2[1] == [lp[2]],
            expected=f'cls(load_genomeset({lp[1]})[1], load_signatures({lp[2]}))', found=(o1, o2), stmt='load')
    fdir = m.func(f'{MOD}.ReferenceDatabase.load_from_dir')
    rep.functions.add(fdir.qualname)
    body = [s for s in fdir.node.body if not (isinstance(s, ast.Expr) and isinstance(s.value, ast.Constant))]
    okd = len(body) == 2 and isinstance(body[0], ast.Assign) and isinstance(body[0].targets[0], ast.Tuple) and u(body[0].value) == f'cls.locate_files({fdir.params()[1]})' \
        and isinstance(body[1], ast.Return) and u(body[1].value) == f'cls.load({", ".join(u(e) for e in body[0].targets[0].elts)})'
    rep.add('R6', fdir.site(), 'load_from_dir passes the located (genome file, signature file) pair to load() in order', okd, expected='cls.load(*cls.locate_files(path))',
            found=[u(s) for s in body], stmt='load_from_dir')

    # ---------------------------------------------------------------------------------- R6
    fq = m.func('gambit.query.query')
    rep.functions.add(fq.qualname)
    dbp = fq.params()[0]
    mats = [c for c in calls_in(fq.node) if m.resolve_call(fq, c) == 'gambit.metric.jaccarddist_matrix']
    rep.require(len(mats) == 1, 'query: expected one jaccarddist_matrix call')
    mc = mats[0]
    refs = get_arg(mc, 1, 'refs')
    ri = get_arg(mc, 2, 'ref_indices')
    rep.add('R6', fq.site(mc), 'distances are computed against the database signatures selected by the genome<->signature index list of the same object',
            u(refs) == f'{dbp}.signatures' and u(ri) == f'{dbp}.sig_indices', expected=f'({dbp}.signatures, ref_indices={dbp}.sig_indices)', found=(u(refs), u(ri)), stmt='matrix operands')
    items = [c for c in calls_in(fq.node) if m.resolve_call(fq, c) == 'gambit.query.get_result_item']
    rep.add('R6', fq.site(items[0] if items else mc), 'classification receives the same database object', len(items) == 1 and u(items[0].args[0]) == dbp, expected=f'get_result_item({dbp}, ...)',
            found=[u(c)[:60] for c in items], stmt='classify operand')
    fg = m.func('gambit.query.get_result_item')
    rep.functions.add(fg.qualname)
    cls_calls = [c for c in calls_in(fg.node) if m.resolve_call(fg, c) == 'gambit.classify.classify']
    rep.add('R6', fg.site(cls_calls[0] if cls_calls else None), 'column j of the distance row is judged with genome j of the same database', len(cls_calls) == 1 and u(cls_calls[0].args[0]) == f'{fg.params()[0]}.genomes'
            and u(cls_calls[0].args[1]) == fg.params()[2], expected='classify(db.genomes, dists)', found=[u(c)[:60] for c in cls_calls], stmt='classify genomes')
    # "every distance reported for a genome is computed from that signature": the matrix must select the reference chunk and the
    # output columns through the same slice of ref_indices (C05-B5), re-evaluated here
    from . import c05
    rep.rule('B5', 'C05-B5 re-evaluated: one slice selects reference chunk (through ref_indices) and output columns; chunk tiling')
    c05.check_matrix(ctx)
    # CLI loader
    fcli = m.func('gambit.cli.common.CLIContext.get_database')
    rep.functions.add(fcli.qualname)
    retc = [s for s in stmts_in(fcli.node.body) if isinstance(s, ast.Return)]
    okc = len(retc) == 1 and isinstance(retc[0].value, ast.Call) and m.resolve_call(fcli, retc[0].value) == f'{MOD}.ReferenceDatabase' and u(retc[0].value.args[1]) == 'self.signatures'
    rep.add('R6', fcli.site(retc[0] if retc else None), 'the CLI builds the database through the checked constructor with the located signature file', okc, expected='ReferenceDatabase(gset, self.signatures)',
            found=[u(r)[:80] for r in retc], stmt='cli get_database')


from ..variants import V  # noqa: E402

_R = 'src/gambit/db/refdb.py'
VARIANTS = [
    V('index = running count', 'B', _R, "\t\t\tidxs_out.append(i)\n", "\t\t\tidxs_out.append(len(idxs_out))\n", 'R1'),
    V('index append outside the guard', 'B', _R, "\t\tif g is not None:\n\t\t\tgenomes_out.append(g)\n\t\t\tidxs_out.append(i)\n", "\t\tif g is not None:\n\t\t\tgenomes_out.append(g)\n\t\tidxs_out.append(i)\n", 'R1'),
    V('dict orientation swapped', 'B', _R, "return {id_: g for g, id_ in q}", "return {g: id_ for g, id_ in q}", 'R2'),
    V('completeness raise deleted', 'B', _R, "\t\tif len(self.genomes) != n:\n\t\t\tmissing = n - len(self.genomes)\n\t\t\traise ValueError(f'{missing} of {n} genomes not matched to signature IDs. Is the id_attr attribute of the signatures metadata correct?')\n",
      "\t\tmissing = n - len(self.genomes)\n", 'R3'),
    V('completeness != weakened to <', 'B', _R, "if len(self.genomes) != n:", "if len(self.genomes) > n:", 'R3'),
    V('id_attr None raise deleted', 'B', _R, "\t\tif id_attr is None:\n\t\t\traise TypeError('id_attr field of signatures metadata cannot be None')\n", "", 'R3'),
    V('n > 1 instead of n != 1', 'B', _R, "\t\t\tif n != 1:", "\t\t\tif n > 1:", 'R5'),
    V('strict lookup in the subset', 'B', _R, "genomes = genomes_by_id(genomeset, id_attr, ids, strict=False)", "genomes = genomes_by_id(genomeset, id_attr, ids, strict=True)", 'R1'),
    V('ref_indices omitted in query', 'B', 'src/gambit/query.py', "\t\tref_indices=db.sig_indices,\n", "", 'R6'),
    V('genomes/indices unpacked crossed', 'B', _R, "self.genomes, self.sig_indices = genomes_by_id_subset", "self.sig_indices, self.genomes = genomes_by_id_subset", 'R3'),
    V('ids from another attribute', 'B', _R, "genomes_by_id_subset(genomeset, id_attr, signatures.ids)", "genomes_by_id_subset(genomeset, id_attr, range(len(signatures)))", 'R3'),
    V('lookup iterates sorted ids', 'B', _R, "return [d.get(id_) for id_ in ids]", "return [d.get(id_) for id_ in sorted(ids)]", None),
    V('signature pop without check', 'B', _R, "\t\tcheck_single_match(signatures_matches, 'signature (.gs or .h5)')\n", "", 'R5'),
    V('whitelist bypass for strings', 'B', _R, "\tif isinstance(attr, str) and attr in Genome.ID_ATTRS:", "\tif isinstance(attr, str):", 'R4'),
    V('locate returns crossed', 'B', _R, "\t\treturn genomes_file, signatures_file\n", "\t\treturn signatures_file, genomes_file\n", 'R5'),
    V('contiguous-run slice path in the matrix (seeded C04b, reduced)', 'B', 'src/gambit/metric.py', "idx = ref_slice if ref_indices is None else ref_indices[ref_slice]",
      "idx = ref_slice if ref_indices is None else slice(ref_indices[0] + ref_slice.start, ref_indices[0] + ref_slice.stop)", 'B5'),
    V('E: guard written as early continue', 'E', _R, "\t\tif g is not None:\n\t\t\tgenomes_out.append(g)\n\t\t\tidxs_out.append(i)\n",
      "\t\tif g is None:\n\t\t\tcontinue\n\t\tgenomes_out.append(g)\n\t\tidxs_out.append(i)\n"),
    V('E: completeness compared the other way round', 'E', _R, "if len(self.genomes) != n:", "if n != len(self.genomes):"),
    V('E: id_attr inline', 'E', _R, "\t\tself.genomes, self.sig_indices = genomes_by_id_subset(genomeset, id_attr, signatures.ids)",
      "\t\tself.genomes, self.sig_indices = genomes_by_id_subset(genomeset, id_attr, signatures.ids)  # unchanged"),
]
