"""C04 - each reference genome is compared through its own signature, matched by ID.

R1 parallel lists built under one guard from one enumerate   R2 id->genome map orientation
R3 id_attr / completeness guards dominate a constructed database   R4 id attribute whitelist
R5 exactly one genome file and one signature file   R6 query uses signatures + indices + genomes of ONE database object

The rules decide by value flow, not by statement shape:
  * a local is read through to the expression it was bound to (`_subst`: unique structured reaching definition, refused when a
    name of that expression is rebound in between, never through a mutable display);
  * a list is described by HOW its elements derive from the positions of a source sequence (`_Derive` -> `_Seq`: source, filter
    condition in comparison normal form, element = position / item / rank in a filtered list / tuple of those), whether it is
    built by an append loop, a comprehension, a comprehension over another derived list or `src[i] for i in <derived indices>`;
  * guards are path facts (`_facts`): if/else, guard clauses with early exit, asserts, and the post-condition of a nested
    checking helper at its call sites.
"""
import ast
import copy

from ..affine import Aff
from ..astutil import (u, atoms, guard_map, path_atoms, stmts_in, calls_in, callee_attr, reaching_def, def_value,
                       PARAM, AMBIGUOUS, raised_name, assigns_to, get_arg, block_path, find_parent_map, is_none, is_const,
                       names_in, always_exits, binds_deep, enclosing_stmt)
from ..report import Undecided

MOD = 'gambit.db.refdb'


# ------------------------------------------------------------------------------------------ reading through locals

_DISPLAY = (ast.List, ast.Dict, ast.Set, ast.ListComp, ast.SetComp, ast.DictComp, ast.GeneratorExp, ast.Lambda)
_CONTAINER_CTORS = ('list', 'set', 'dict', 'tuple', 'frozenset', 'sorted', 'bytearray', 'iter')


def _comp_bound(expr):
    """Names bound inside expr itself (comprehension targets, lambda parameters): never read through."""
    out = set()
    for n in ast.walk(expr):
        if isinstance(n, ast.comprehension):
            out |= {x.id for x in ast.walk(n.target) if isinstance(x, ast.Name)}
        elif isinstance(n, ast.Lambda):
            out |= {a.arg for a in n.args.posonlyargs + n.args.args + n.args.kwonlyargs}
    return out


def _local_value(fn, name, at):
    """(definition statement, expression) whose value the local `name` holds at statement `at`, else (None, None).
    Only a unique structured reaching definition `name = E` / `a, name = E` counts; refused when E is a mutable display
    (it may be filled later) or when a name read by E is rebound between the definition and `at` (stale copy)."""
    d = reaching_def(fn, name, at)
    v = None
    if isinstance(d, ast.Assign) and len(d.targets) == 1:
        t = d.targets[0]
        if isinstance(t, ast.Name):
            v = d.value
        elif isinstance(t, (ast.Tuple, ast.List)) and all(isinstance(e, ast.Name) for e in t.elts):
            k = [e.id for e in t.elts].index(name)
            if [e.id for e in t.elts].count(name) != 1:
                return None, None
            if isinstance(d.value, (ast.Tuple, ast.List)) and len(d.value.elts) == len(t.elts) and not any(isinstance(e, ast.Starred) for e in d.value.elts):
                v = d.value.elts[k]
            elif not isinstance(d.value, _DISPLAY):
                v = ast.copy_location(ast.Subscript(value=d.value, slice=ast.Constant(value=k), ctx=ast.Load()), d.value)
    elif isinstance(d, ast.AnnAssign) and isinstance(d.target, ast.Name) and d.value is not None:
        v = d.value
    if v is None or isinstance(v, _DISPLAY):
        return None, None
    if isinstance(v, ast.Call) and isinstance(v.func, ast.Name) and v.func.id in _CONTAINER_CTORS and not v.args and not v.keywords:
        return None, None
    for nm in names_in(v) - _comp_bound(v):
        a, b = reaching_def(fn, nm, d), reaching_def(fn, nm, at)
        if a is AMBIGUOUS or b is AMBIGUOUS or a is not b:
            return None, None
    return d, v


class _Subst(ast.NodeTransformer):
    def __init__(self, fn, at, depth, skip, keep=()):
        self.fn, self.at, self.depth, self.skip, self.keep = fn, at, depth, skip, keep

    def visit_Name(self, node):
        if not isinstance(node.ctx, ast.Load) or node.id in self.skip or self.depth > 8:
            return node
        d, v = _local_value(self.fn, node.id, self.at)
        if v is None:
            return node
        return _subst(self.fn, v, d, self.depth + 1, self.keep)


def _subst(fn, expr, at, depth=0, keep=()):
    """expr with every local read through to the expression it was bound to (recursively), as a fresh tree.
    Names in `keep` stay as they are (e.g. the name of the sequence a rule reasons about)."""
    if expr is None or at is None:
        return expr
    return _Subst(fn, at, depth, _comp_bound(expr) | set(keep), tuple(keep)).visit(copy.deepcopy(expr))


def _xguards(fn, guards, keep=()):
    """A guard list [(test, polarity)] of guard_map(fn) with the tests read through locals (a named condition is its value)."""
    owners = {id(s.test): s for s in stmts_in(fn.body) if isinstance(s, (ast.If, ast.While, ast.Assert))}
    return [(_subst(fn, t, owners.get(id(t)), keep=keep), p) for (t, p) in guards]


def _facts(fn, guards, key=u, keep=()):
    """Atoms of a guard list after reading through locals; a non-conjunctive guard is kept as one opaque ('cond', ...) fact
    so that two different such guards never compare equal."""
    out = set()
    for t, p in _xguards(fn, guards, keep):
        a = atoms(t, p, key)
        if a is None:
            out.add(('cond', 'holds' if p else 'fails', key(t)))
        else:
            out |= a
    return out


class _Replace(ast.NodeTransformer):
    """Replace every sub-expression whose text is a key of `table` (text -> replacement node factory)."""

    def __init__(self, table):
        self.table = table

    def visit(self, node):
        if isinstance(node, ast.expr):
            t = u(node)
            if t in self.table:
                return self.table[t]()
        return self.generic_visit(node)


def _replace(expr, table):
    return _Replace(table).visit(copy.deepcopy(expr))


def _strip_materialise(e):
    """X of list(X) / tuple(X) / sorted(X) / set(X) / frozenset(X) (order is irrelevant to the caller) and whether one was stripped."""
    wrapped = False
    while isinstance(e, ast.Call) and isinstance(e.func, ast.Name) and e.func.id in ('list', 'tuple', 'sorted', 'set', 'frozenset') and len(e.args) == 1 and not e.keywords:
        e = e.args[0]
        wrapped = True
    return e, wrapped


# ------------------------------------------------------------------------------------------ derived lists

IDX, ELEM, RANK = 'IDX__', 'ELEM__', 'RANK__'   # position in the source / source[position] / position in a filtered list


class _Seq:
    """A collection holding, for every position p of `src` (in increasing p when `ordered`) that satisfies `filt`,
    the value `elt` (IDX, ELEM, RANK, ('tuple', ...), ('other', text))."""

    def __init__(self, src, src_node, filt, elt, site, how, notes=()):
        self.src, self.src_node, self.filt, self.elt, self.site, self.how, self.notes = src, src_node, frozenset(filt), elt, site, how, tuple(notes)

    def describe(self):
        return f'{self.how}: element {self.elt} of source {self.src[1]} where {sorted(self.filt)}' + (f' ({"; ".join(self.notes)})' if self.notes else '')


class _Derive:
    """Evaluates list-valued expressions of one function to _Seq.  `None` = not a constructed collection (a source)."""

    def __init__(self, fn, gm, what, ordered=True, resolve=None):
        self.fn, self.gm, self.what, self.ordered = fn, gm, what, ordered
        self.pm = find_parent_map(fn)
        self.resolve = resolve or (lambda f: None)      # dotted name of an imported callee (e.g. 'itertools.compress')

    def und(self, msg):
        raise Undecided(f'{self.what}: {msg}')

    # -- sources
    def srckey(self, x, at):
        """(identity, text, node) of a source sequence expression: the defining statement for a local, the text otherwise."""
        inner, _ = _strip_materialise(x) if not self.ordered else (x, False)
        if isinstance(x, ast.Name):
            d = reaching_def(self.fn, x.id, at)
            if isinstance(d, ast.stmt):
                if len(assigns_to(self.fn, x.id)) != 1:
                    self.und(f'source sequence {x.id} is bound more than once')
                v = def_value(d)
                return ('def', id(d)), x.id, (v if v is not None else x)
            if d is AMBIGUOUS:
                self.und(f'source sequence {x.id} has no unique definition')
            return ('name', x.id), x.id, x
        return ('text', u(inner)), u(x), x

    # -- collection-valued expressions
    def _empty_ctor(self, v):
        if isinstance(v, ast.List) and not v.elts:
            return 'list'
        if isinstance(v, ast.Call) and isinstance(v.func, ast.Name) and not v.args and not v.keywords and v.func.id in ('list', 'set'):
            return v.func.id
        return None

    def seq_of(self, e, at, depth=0):
        if depth > 6:
            self.und('derivation chain too deep')
        if isinstance(e, ast.ListComp) or (isinstance(e, ast.SetComp) and not self.ordered):
            return self.comp_form(e, at, depth)
        if isinstance(e, ast.Call) and isinstance(e.func, ast.Name) and e.func.id in (('list',) if self.ordered else ('list', 'set', 'frozenset', 'tuple')) \
                and len(e.args) == 1 and not e.keywords:
            a = e.args[0]
            if isinstance(a, ast.GeneratorExp):
                return self.comp_form(a, at, depth)
            return self.seq_of(a, at, depth + 1)
        if self._empty_ctor(e) is not None:
            return _Seq((('empty', u(e)), u(e), e), e, set(), ('other', 'nothing: an empty collection literal'), e, 'empty collection')
        if isinstance(e, ast.Call) and self.resolve(e.func) == 'itertools.compress' and len(e.args) == 2 and not e.keywords:
            return self.compress_form(e, at, depth)
        if not isinstance(e, ast.Name):
            return None
        n = e.id
        d = reaching_def(self.fn, n, at)
        if d in (None, PARAM):
            return None
        ds = assigns_to(self.fn, n)
        if d is AMBIGUOUS or len(ds) != 1:
            # a collection assigned on several paths: only a plain source is acceptable, and that cannot be told here
            if any(self._empty_ctor(def_value(x)) or isinstance(def_value(x), (ast.ListComp, ast.SetComp)) for x in ds):
                self.und(f'collection {n} is built on more than one path')
            return None
        v = def_value(d)
        if v is None:
            return None
        mut = [c for c in calls_in(self.fn) if isinstance(c.func, ast.Attribute) and isinstance(c.func.value, ast.Name) and c.func.value.id == n]
        grow = [c for c in mut if c.func.attr in ('append', 'add', 'extend', 'insert', 'update', 'sort', 'reverse', 'remove', 'clear', 'discard', '__setitem__', '__delitem__')]
        grow += [s for s in stmts_in(self.fn.body) if isinstance(s, ast.AugAssign) and isinstance(s.target, ast.Name) and s.target.id == n]
        grow += [s for s in stmts_in(self.fn.body) if isinstance(s, (ast.Assign, ast.Delete)) and any(isinstance(t, ast.Subscript) and isinstance(t.value, ast.Name) and t.value.id == n
                                                                                                  for t in (s.targets if hasattr(s, 'targets') else []))]
        kind = self._empty_ctor(v)
        if kind is not None:
            if kind == 'set' and self.ordered:
                self.und(f'{n} is a set (no order)')
            want = 'add' if kind == 'set' else 'append'
            if not grow:
                # concrete: the collection is created empty and nothing is ever put into it
                return _Seq((('empty', n), n, v), v, set(), ('other', f'nothing: {n} is created empty and never filled'), d, 'empty collection')
            if len(grow) != 1 or not isinstance(grow[0], ast.Call) or grow[0].func.attr != want:
                self.und(f'{n} starts empty and is filled by something other than exactly one .{want}() site: {[u(g)[:40] for g in grow]}')
            return self.loop_form(n, grow[0], d, depth)
        if isinstance(v, (ast.ListComp, ast.SetComp)) or (isinstance(v, ast.Call) and isinstance(v.func, ast.Name) and v.func.id in ('list', 'set', 'frozenset', 'tuple')):
            s = self.seq_of(v, d, depth + 1)
            if s is not None and grow:
                self.und(f'{n} is modified after it is built: {[u(g)[:40] for g in grow]}')
            return s
        return None

    def compress_form(self, call, at, depth):
        """itertools.compress(data, selectors): the items of data at the positions where the selector is true.  Evaluated when the
        selectors are a list holding one condition per position of a source (unfiltered), and data is that source, its positions
        (range(len(source))) or another unfiltered list over it."""
        data, sel = call.args
        s = self.seq_of(sel, at, depth + 1)
        if s is None or s.filt or s.notes or s.how == 'empty collection':
            self.und(f'selectors of {u(call)[:70]} are not a list with one entry per position of a source')
        if s.elt == ELEM:
            cond = ast.Name(id=ELEM, ctx=ast.Load())
        elif isinstance(s.elt, tuple) and s.elt[0] == 'other' and _parse_expr(s.elt[1]) is not None:
            cond = _parse_expr(s.elt[1])
        else:
            self.und(f'selector entries of {u(call)[:70]} are not a condition on the position: {s.elt}')
        a = atoms(cond, True)
        filt = a if a is not None else {('cond', 'holds', u(cond))}
        if isinstance(data, ast.Call) and isinstance(data.func, ast.Name) and data.func.id == 'range' and len(data.args) == 1 and not data.keywords \
                and isinstance(data.args[0], ast.Call) and isinstance(data.args[0].func, ast.Name) and data.args[0].func.id == 'len' and len(data.args[0].args) == 1:
            x = data.args[0].args[0]
            sx = self.seq_of(x, at, depth + 1)
            same = (self.srckey(x, at)[0] == s.src[0]) if sx is None else (sx.src[0] == s.src[0] and not sx.filt)
            if not same:
                self.und(f'{u(call)[:70]}: positions of {u(x)}, selectors computed from {s.src[1]}: whether both have the same length is not evaluated')
            elt = IDX
        else:
            sd = self.seq_of(data, at, depth + 1)
            if sd is None:
                if self.srckey(data, at)[0] != s.src[0]:
                    self.und(f'{u(call)[:70]}: data {u(data)[:40]} is not the sequence the selectors were computed from ({s.src[1]})')
                elt = ELEM
            elif sd.src[0] == s.src[0] and not sd.filt and not sd.notes:
                elt = sd.elt
            else:
                elt = ('other', f'item of {u(data)} (a list that is not position-aligned with the selectors)')
        return _Seq(s.src, s.src_node, filt, elt, call, 'compress', ())

    # -- binders: what the loop / generator variables stand for
    def binder(self, target, it, at, depth):
        """-> (bindings {name: component}, src key triple, inherited filter, notes)"""
        notes = []

        def names_of(t, n):
            if isinstance(t, (ast.Tuple, ast.List)) and len(t.elts) == n and all(isinstance(e, ast.Name) for e in t.elts):
                return [e.id for e in t.elts]
            return None

        def bind_elem(t, comp, bind):
            if isinstance(t, ast.Name):
                bind[t.id] = comp
            elif isinstance(t, (ast.Tuple, ast.List)) and isinstance(comp, tuple) and comp[0] == 'tuple' and names_of(t, len(comp[1])) is not None:
                for nm, c in zip(names_of(t, len(comp[1])), comp[1]):
                    bind[nm] = c
            else:
                self.und(f'loop target {u(t)} does not match the elements it iterates ({comp})')

        if isinstance(it, ast.Call) and isinstance(it.func, ast.Name) and it.func.id == 'enumerate' and it.args:
            start = it.args[1] if len(it.args) > 1 else next((k.value for k in it.keywords if k.arg == 'start'), None)
            if len(it.args) > 2 or any(k.arg != 'start' for k in it.keywords):
                self.und(f'unrecognised enumerate call {u(it)}')
            if not (isinstance(target, (ast.Tuple, ast.List)) and len(target.elts) == 2 and isinstance(target.elts[0], ast.Name)):
                self.und(f'enumerate target is not a pair: {u(target)}')
            x = it.args[0]
            s = self.seq_of(x, at, depth + 1)
            bind = {}
            shifted = start is not None and not is_const(start, 0)
            if shifted:
                notes.append(f'enumerate starts at {u(start)}')
            if s is None:
                bind[target.elts[0].id] = ('other', f'position + {u(start)}') if shifted else IDX
                bind_elem(target.elts[1], ELEM, bind)
                return bind, self.srckey(x, at), frozenset(), notes
            # the rank in a derived list that keeps every position of its source IS the position
            bind[target.elts[0].id] = ('other', f'rank + {u(start)}') if shifted else (RANK if s.filt else IDX)
            bind_elem(target.elts[1], s.elt, bind)
            return bind, s.src, s.filt, notes + list(s.notes)
        if isinstance(it, ast.Call) and isinstance(it.func, ast.Name) and it.func.id == 'range' and len(it.args) == 1 and not it.keywords \
                and isinstance(it.args[0], ast.Call) and isinstance(it.args[0].func, ast.Name) and it.args[0].func.id == 'len' and len(it.args[0].args) == 1:
            if not isinstance(target, ast.Name):
                self.und(f'range target is not a name: {u(target)}')
            x = it.args[0].args[0]
            s = self.seq_of(x, at, depth + 1)
            if s is None:
                return {target.id: IDX}, self.srckey(x, at), frozenset(), notes
            return {target.id: RANK if s.filt else IDX}, s.src, s.filt, notes + list(s.notes)
        s = self.seq_of(it, at, depth + 1)
        bind = {}
        if s is None:
            if isinstance(it, ast.Call) and isinstance(it.func, ast.Name) and it.func.id in ('zip', 'map', 'filter', 'reversed', 'sorted', 'iter', 'range'):
                self.und(f'unrecognised iteration construct {u(it)[:80]}')
            if not isinstance(target, ast.Name):
                self.und(f'loop target {u(target)} over a source sequence is not a single name')
            bind[target.id] = ELEM
            return bind, self.srckey(it, at), frozenset(), notes
        bind_elem(target, s.elt, bind)
        return bind, s.src, s.filt, notes + list(s.notes)

    def classify(self, e, bind, src, at):
        if isinstance(e, ast.Name) and e.id in bind:
            return bind[e.id]
        if isinstance(e, ast.Tuple):
            return ('tuple', tuple(self.classify(x, bind, src, at) for x in e.elts))
        if isinstance(e, ast.Subscript) and isinstance(e.slice, ast.Name) and bind.get(e.slice.id) in (IDX, RANK) and not isinstance(e.value, ast.Subscript):
            if bind[e.slice.id] == IDX and self.srckey(e.value, at)[0] == src[0]:
                return ELEM
            if bind[e.slice.id] == IDX and isinstance(e.value, ast.Name):
                s2 = self.seq_of(e.value, at, 5)
                if s2 is not None and s2.src[0] == src[0] and not s2.filt and not s2.notes:
                    return s2.elt      # element i of an unfiltered derived list = what that list holds for position i
            return ('other', u(e) + (' (subscript is a rank in the filtered list, not a position of the source)' if bind[e.slice.id] == RANK else ' (another sequence)'))
        if isinstance(e, ast.Subscript) and isinstance(e.value, ast.Name) and isinstance(bind.get(e.value.id), tuple) and bind[e.value.id][0] == 'tuple' \
                and isinstance(e.slice, ast.Constant) and isinstance(e.slice.value, int) and -len(bind[e.value.id][1]) <= e.slice.value < len(bind[e.value.id][1]):
            return bind[e.value.id][1][e.slice.value]
        outer = self

        class R(ast.NodeTransformer):
            def visit_Name(self, node):
                return ast.Name(id=bind[node.id], ctx=ast.Load()) if bind.get(node.id) in (IDX, ELEM, RANK) else node

            def visit_Subscript(self, node):
                if node is not root:
                    c = outer.classify(node, bind, src, at)
                    if c in (IDX, ELEM, RANK):
                        return ast.Name(id=c, ctx=ast.Load())      # e.g. source[i] inside a larger expression is the item
                return self.generic_visit(node)
        root = copy.deepcopy(e)
        return ('other', u(R().visit(root)))

    def keyfn(self, bind, src, at):
        outer = self

        class K(ast.NodeTransformer):
            def visit_Name(self, node):
                c = bind.get(node.id)
                if c in (IDX, ELEM, RANK):
                    return ast.Name(id=c, ctx=ast.Load())
                if isinstance(c, tuple) and c[0] == 'other' and _parse_expr(c[1]) is not None:
                    return _parse_expr(c[1])        # the variable stands for that expression of the position
                return node

            def visit_Subscript(self, node):
                c = outer.classify(node, bind, src, at)
                if c in (IDX, ELEM, RANK):
                    return ast.Name(id=c, ctx=ast.Load())
                return self.generic_visit(node)
        return lambda n: u(K().visit(copy.deepcopy(n)))

    def comp_form(self, comp, at, depth):
        if len(comp.generators) != 1 or comp.generators[0].is_async:
            self.und(f'comprehension with several generators: {u(comp)[:80]}')
        g = comp.generators[0]
        bind, src, inherited, notes = self.binder(g.target, g.iter, at, depth)
        key = self.keyfn(bind, src, at)
        keep = tuple(bind) + ((src[1],) if src[0][0] == 'def' else ())
        filt = set(inherited)
        for c in g.ifs:
            c = _subst(self.fn, c, at, keep=keep)
            a = atoms(c, True, key)
            filt |= a if a is not None else {('cond', 'holds', key(c))}
        return _Seq(src, src[2], filt, self.classify(_subst(self.fn, comp.elt, at, keep=keep), bind, src, at), comp, 'comprehension', notes)

    def loop_form(self, n, call, init, depth):
        st = self.pm.get(call)
        if not (isinstance(st, ast.Expr) and st.value is call) or len(call.args) != 1 or call.keywords:
            self.und(f'{u(call)[:60]} is not a plain statement with one argument')
        bp = block_path(self.fn, st)
        if bp is None:
            self.und(f'{u(call)[:60]} is inside a nested function')
        loops = [o for (_, _, o) in bp if isinstance(o, (ast.For, ast.While, ast.AsyncFor))]
        if not loops or not isinstance(loops[-1], ast.For):
            self.und(f'{u(call)[:60]} is not inside a for loop')
        loop = loops[-1]
        if init.lineno > loop.lineno or any(o is not self.fn and isinstance(o, (ast.For, ast.While)) for (_, _, o) in block_path(self.fn, init)):
            self.und(f'{n} is not initialised before its loop')
        for x in ast.walk(loop):
            if isinstance(x, (ast.Break, ast.Return)):
                self.und(f'the loop filling {n} can stop early ({u(x)[:40]}): which positions are visited is not evaluated')
        bind, src, inherited, notes = self.binder(loop.target, loop.iter, loop, depth)
        for nm in bind:
            if any(binds_deep(s, nm) for s in loop.body):
                self.und(f'loop variable {nm} is rebound inside the loop')
        if len(loops) > 1:
            notes = list(notes) + ['nested in another loop']
        key = self.keyfn(bind, src, st)
        keep = (src[1],) if src[0][0] == 'def' else ()
        filt = set(inherited) | _facts(self.fn, self.gm[st], key, keep)
        return _Seq(src, src[2], filt, self.classify(_subst(self.fn, call.args[0], st, keep=keep), bind, src, st), st, 'append loop', notes)


# ------------------------------------------------------------------------------------------ small evaluators

def _truth_of(test, name, assume):
    """Truth value of `test` when the boolean parameter `name` has truth value `assume`; None when test is something else."""
    if isinstance(test, ast.Name) and test.id == name:
        return assume
    if isinstance(test, ast.UnaryOp) and isinstance(test.op, ast.Not):
        t = _truth_of(test.operand, name, assume)
        return None if t is None else not t
    return None


def _flag_selected_value(fn, name, flag, assume):
    """Value of a local that is assigned once in each arm of `if <flag>: name = A else: name = B` (the statement form of a
    conditional expression), for the given truth value of the flag; None when the definitions are not of that form."""
    gm = guard_map(fn)
    ds = assigns_to(fn, name)
    if len(ds) != 2 or any(def_value(d) is None for d in ds) or reaching_def(fn, flag, ds[0]) is not PARAM or reaching_def(fn, flag, ds[1]) is not PARAM:
        return None
    pick = []
    for d in ds:
        at_ = path_atoms(gm[d])
        if (('true', flag) in at_) == (('false', flag) in at_):
            return None                      # not decided by the flag
        if (('true', flag) in at_) == bool(assume):
            pick.append(d)
    owners = {id(block_path(fn, d)[-1][2]) for d in ds}
    if len(pick) != 1 or len(owners) != 1 or isinstance(def_value(pick[0]), _DISPLAY):
        return None
    return def_value(pick[0])


def _lookup_kind(fn, e, var, at, flag, assume, depth=0):
    """How the element expression `e` of `[e for var in ids]` looks `var` up when parameter `flag` is `assume`:
    ('get', dict) = d.get(var) -> None for an unknown key, ('item', dict) = d[var] -> KeyError, ('wrong', text), or None (unknown)."""
    if depth > 6:
        return None
    if isinstance(e, ast.IfExp):
        t = _truth_of(e.test, flag, assume)
        return None if t is None else _lookup_kind(fn, e.body if t else e.orelse, var, at, flag, assume, depth + 1)
    if isinstance(e, ast.Subscript):
        return ('item', u(e.value)) if u(e.slice) == var and not isinstance(e.slice, ast.Slice) else ('wrong', u(e))
    if isinstance(e, ast.Call) and e.args and u(e.args[0]) == var and not e.keywords:
        f = e.func
        hops = 0
        while hops < 6:
            hops += 1
            if isinstance(f, ast.IfExp):
                t = _truth_of(f.test, flag, assume)
                if t is None:
                    return None
                f = f.body if t else f.orelse
            elif isinstance(f, ast.Name):
                _, v = _local_value(fn, f.id, at)
                if v is None:
                    v = _flag_selected_value(fn, f.id, flag, assume)
                if v is None:
                    return None
                f = v
            else:
                break
        if isinstance(f, ast.Attribute) and f.attr == '__getitem__' and len(e.args) == 1:
            return ('item', u(f.value))
        if isinstance(f, ast.Attribute) and f.attr == 'get' and (len(e.args) == 1 or (len(e.args) == 2 and is_none(e.args[1]))):
            return ('get', u(f.value))
        if isinstance(f, ast.Attribute) and f.attr in ('get', 'pop', 'setdefault'):
            return ('wrong', u(e))
    return None


def _param_origin(fn, e, at):
    """Name of the parameter whose elements, in order, the sequence expression `e` holds at statement `at`: e is the parameter,
    a local bound to it, or an order-preserving copy (list(x) / tuple(x)) of such; None for anything else."""
    for _ in range(8):
        if isinstance(e, ast.Call) and isinstance(e.func, ast.Name) and e.func.id in ('list', 'tuple') and len(e.args) == 1 and not e.keywords:
            e = e.args[0]
        elif isinstance(e, ast.Name):
            d = reaching_def(fn, e.id, at)
            if d is PARAM:
                return e.id
            v = def_value(d) if isinstance(d, ast.stmt) else None
            if v is None:
                return None
            e, at = v, d
        else:
            return None
    return None


def _require_params(rep, fn, names, at, where):
    """The rule matched `names` textually as the function's parameters: that only means something while they still hold the
    caller's values.  A parameter rebound to something derived from itself is outside what the rule evaluates."""
    for nm in names:
        rep.require(reaching_def(fn, nm, at) is PARAM, f'{where}: parameter {nm} is rebound before it is used here; the rule cannot evaluate the new value')


def _flow_origin(fn, e, at):
    """Where the value of expression `e` (evaluated at statement `at`) comes from, following plain local copies:
    ('param', name) | ('expr', node, statement evaluating it) | None (no unique definition)."""
    for _ in range(8):
        if not isinstance(e, ast.Name):
            return ('expr', e, at)
        d = reaching_def(fn, e.id, at)
        if d is PARAM:
            return ('param', e.id)
        v = def_value(d) if isinstance(d, ast.stmt) else None
        if v is None:
            return None
        e, at = v, d
    return None


def _map_self_checks(m):
    """What `_map_ids_to_genomes` does itself before building the map (so that its callers need not):
    validates = the column it adds is the value of `_check_genome_id_attr(<its attribute parameter>)`;
    guards    = the NULL-id guard (R7) precedes its every return."""
    fm = _follow_delegation(m, m.func(f'{MOD}._map_ids_to_genomes'))
    mp = _own_params(fm)
    out = dict(validates=False, guards=False, fi=fm)
    if len(mp) < 2:
        return out
    rets = [s for s in stmts_in(fm.node.body) if isinstance(s, ast.Return)]
    addc = [c for c in calls_in(fm.node) if callee_attr(c) == 'add_columns' and len(c.args) == 1]
    pm = find_parent_map(fm.node)
    out['validates'] = len(addc) == 1 and _validated_attr(m, fm, addc[0].args[0], enclosing_stmt(fm.node, addc[0], pm), mp[1])
    out['guards'] = bool(rets) and _null_id_guard(None, m, fm, mp[0], mp[1], rets)[0]
    return out


def _id_map_flow(m, fi, mapcall, at, gset_param, attr_param, callee_validates=False):
    """For a call `_map_ids_to_genomes(a0, a1)` evaluated at `at`: (a0 is the genome-set parameter, a1 is the value of
    `_check_genome_id_attr(<id attribute parameter>)`, description) - decided on value flow, not on the names used."""
    fn = fi.node
    a = list(mapcall.args)
    if len(a) != 2 or mapcall.keywords or any(isinstance(x, ast.Starred) for x in a):
        return False, False, u(mapcall)
    o0, o1 = _flow_origin(fn, a[0], at), _flow_origin(fn, a[1], at)
    ok_set = o0 == ('param', gset_param)
    ok_val, seen = False, str(o1[:2]) if o1 and o1[0] == 'param' else (u(o1[1]) if o1 else 'no unique definition')
    if callee_validates and o1 == ('param', attr_param):
        ok_val, seen = True, f'{seen} (validated inside _map_ids_to_genomes)'
    if o1 and o1[0] == 'expr' and isinstance(o1[1], ast.Call) and m.resolve_call(fi, o1[1]) == f'{MOD}._check_genome_id_attr' and len(o1[1].args) == 1 and not o1[1].keywords:
        ok_val = _flow_origin(fn, o1[1].args[0], o1[2]) == ('param', attr_param)
    return ok_set, ok_val, f'{u(mapcall)} with {u(a[1])} <- {seen}'


def _validated_attr(m, fi, e, at, attr_param):
    """Is the value of `e` at `at` the result of `_check_genome_id_attr(<id attribute parameter>)` (followed through plain copies)?"""
    o = _flow_origin(fi.node, e, at)
    return bool(o and o[0] == 'expr' and isinstance(o[1], ast.Call) and m.resolve_call(fi, o[1]) == f'{MOD}._check_genome_id_attr' and len(o[1].args) == 1 and not o[1].keywords
                and _flow_origin(fi.node, o[1].args[0], o[2]) == ('param', attr_param))


def _null_id_guard(rep, m, fi, gset_param, attr_param, rets, callee_validates=False):
    """R7 at one function that looks ids up in the id map: before every `return`, the case "some genome of the set has no value
    for the id attribute" (then None is a key of the map and pairing by id is not defined) has raised.  Accepted spellings of
    the guard statement:  `_check_genomes_have_ids(<genome set>, <validated attribute>)`  or  `raise ...` ;  executed on every path
    to the return, or on every such path on which `None in <the id map>` holds (no None key <=> no genome without id, R2).
    -> (ok, description)"""
    fn = fi.node
    gm = guard_map(fn)
    allnames = tuple(names_in(fn))           # conditions are compared as written (locals not read through)
    seen, guards = [], []
    for s in stmts_in(fn.body):
        is_call = isinstance(s, ast.Expr) and isinstance(s.value, ast.Call) and m.resolve_call(fi, s.value) == f'{MOD}._check_genomes_have_ids'
        if not (is_call or isinstance(s, ast.Raise)):
            continue
        cond = _facts(fn, gm[s], keep=allnames)
        none_key = [a for a in cond if a[0] in ('in', 'notin') and a[1] == 'None']
        if isinstance(s, ast.Raise) and not none_key:
            continue            # some other error path
        if none_key:
            dn = _parse_expr(none_key[0][2])
            owner = next((o for (_, _, o) in reversed(block_path(fn, s)) if isinstance(o, ast.If)), None)
            o = _flow_origin(fn, dn, owner) if isinstance(dn, ast.Name) and owner is not None else None
            is_map = bool(o and o[0] == 'expr' and isinstance(o[1], ast.Call) and m.resolve_call(fi, o[1]) == f'{MOD}._map_ids_to_genomes'
                          and _id_map_flow(m, fi, o[1], o[2], gset_param, attr_param, callee_validates)[:2] == (True, True))
            if len(none_key) > 1 or none_key[0][0] != 'in' or not is_map:
                seen.append(f'{u(s)[:50]} under {none_key}: not `None in <the id map of this genome set>`')
                continue
        if is_call:
            a = s.value.args
            okargs = len(a) == 2 and not s.value.keywords and _flow_origin(fn, a[0], s) == ('param', gset_param) and _validated_attr(m, fi, a[1], s, attr_param)
            if not okargs:
                seen.append(f'{u(s)[:70]}: not (this genome set, the validated id attribute)')
                continue
        guards.append((s, cond - set(none_key)))
    unguarded = []
    for r in rets:
        fr = _facts(fn, gm[r], keep=allnames)
        tr = block_path(fn, r)[0][1]
        if not any(c <= fr and (block_path(fn, g)[0][1] < tr or (block_path(fn, g)[0][1] == tr and g.lineno < r.lineno)) for (g, c) in guards):
            unguarded.append(u(r)[:50])
    if guards and not unguarded:
        return True, [u(g)[:60] for (g, _) in guards]
    return False, (seen + [f'{u(g)[:50]} only under {sorted(c)}' for (g, c) in guards if c] + [f'unguarded: {x}' for x in unguarded]) or 'no NULL-id guard'


def _own_params(fi):
    """The parameters a caller supplies: without cls / self for class and instance methods."""
    ps = fi.params()
    decos = {u(d) for d in fi.node.decorator_list}
    return ps[1:] if fi.cls is not None and 'staticmethod' not in decos else ps


def _body(fnode):
    return [s for s in fnode.body if not (isinstance(s, ast.Expr) and isinstance(s.value, ast.Constant))]


def _follow_delegation(m, fi):
    """The function that does the work: `def f(a, b): return g(a, b)` (all parameters passed on unchanged, in order, nothing else)
    is g - e.g. an old name kept as a thin alias of a function that moved into a class."""
    for _ in range(3):
        b = _body(fi.node)
        own = _own_params(fi)
        if not (len(b) == 1 and isinstance(b[0], ast.Return) and isinstance(b[0].value, ast.Call)):
            break
        c = b[0].value
        if c.keywords or [u(a) for a in c.args] != own or not all(isinstance(a, ast.Name) for a in c.args):
            break
        t = m.functions.get(m.resolve_call(fi, c) or '')
        if t is None or t is fi or len(_own_params(t)) != len(own) or not isinstance(t.node, ast.FunctionDef):
            break
        fi = t
    return fi


def _raised_class(m, fi, r):
    """Qualified (reference) name of the class of the exception raised by statement r inside fi: `raise C(...)`, `raise C`, or
    `raise F(...)` with F a function / classmethod all of whose returns construct one class (an error factory).  None = unknown."""
    e = r.exc
    if e is None:
        return None
    f = e.func if isinstance(e, ast.Call) else e
    q = m.resolve(fi.module, f)
    if q is None and isinstance(e, ast.Call):
        q = m.resolve_call(fi, e)
    if q is None:
        return u(f) if isinstance(f, ast.Name) else None        # a builtin such as ValueError
    if q in m.classes:
        return q
    t = m.functions.get(q)
    if t is not None and isinstance(e, ast.Call):
        rets = [s for s in stmts_in(t.node.body) if isinstance(s, ast.Return)]
        made = set()
        for s in rets:
            v = s.value
            if not isinstance(v, ast.Call):
                return None
            if isinstance(v.func, ast.Name) and v.func.id == 'cls' and t.cls is not None and 'classmethod' in {u(d) for d in t.node.decorator_list} \
                    and isinstance(f, ast.Attribute) and m.resolve(fi.module, f.value) in m.classes:
                made.add(m.resolve(fi.module, f.value))          # cls is the class the factory was called on
            else:
                made.add(m.resolve(t.module, v.func) or (v.func.id if isinstance(v.func, ast.Name) and v.func.id != 'cls' else None))
        if len(made) == 1 and None not in made and rets and not any(isinstance(n, (ast.Yield, ast.YieldFrom)) for n in ast.walk(t.node)):
            return made.pop()
    return None


def _assume(e, env):
    """Boolean expression `e` with the names in env (name -> constant) replaced by their value and and/or/not simplified."""
    if isinstance(e, ast.Name) and e.id in env:
        return ast.copy_location(ast.Constant(value=env[e.id]), e)
    if isinstance(e, ast.UnaryOp) and isinstance(e.op, ast.Not):
        v = _assume(e.operand, env)
        if isinstance(v, ast.Constant):
            return ast.copy_location(ast.Constant(value=not v.value), e)
        return ast.copy_location(ast.UnaryOp(op=ast.Not(), operand=v), e)
    if isinstance(e, ast.BoolOp):
        is_and = isinstance(e.op, ast.And)
        vals = []
        for x in e.values:
            v = _assume(x, env)
            if isinstance(v, ast.Constant):
                if bool(v.value) != is_and:
                    return ast.copy_location(ast.Constant(value=not is_and), e)      # False in an `and` / True in an `or` decides it
                continue
            vals.append(v)
        if not vals:
            return ast.copy_location(ast.Constant(value=is_and), e)
        return vals[0] if len(vals) == 1 else ast.copy_location(ast.BoolOp(op=e.op, values=vals), e)
    return e


def _specialise(fnode, env):
    """A copy of the function for fixed option values: every `if` whose test is decided by env is replaced by the arm taken,
    the remaining tests are simplified (`flag and X` -> X)."""
    class S(ast.NodeTransformer):
        def visit_If(self, node):
            t = _assume(node.test, env)
            if isinstance(t, ast.Constant):
                out = []
                for x in (node.body if t.value else node.orelse):
                    r = self.visit(x)
                    out += r if isinstance(r, list) else [r]
                return out
            node.test = t
            return self.generic_visit(node)

        def visit_FunctionDef(self, node):
            return node if node is not root else self.generic_visit(node)
    root = copy.deepcopy(fnode)
    S().visit(root)
    if not root.body:
        root.body = [ast.Pass()]
    return ast.fix_missing_locations(root)


def _parse_expr(text):
    try:
        return ast.parse(text, mode='eval').body
    except SyntaxError:
        return None


def _fall_through_guards(fnode, gm):
    """Guards that hold when control falls off the end of fnode's body (None when it never does).  A final `if` one arm of
    which always exits (raise / return) contributes its test with the polarity of the arm that falls through, recursively."""
    block = fnode.body
    g = []
    for _ in range(16):
        last = block[-1]
        g = list(gm[last])
        if isinstance(last, ast.If):
            be = always_exits(last.body)
            oe = always_exits(last.orelse) if last.orelse else False
            if be and oe:
                return None
            if be:
                g.append((last.test, False))
                if not last.orelse:
                    return g
                block = last.orelse
                continue
            if oe:
                block = last.body
                continue
            return g      # both arms fall through: only what held before the `if`
        if isinstance(last, (ast.With, ast.AsyncWith)):
            block = last.body
            continue
        return None if always_exits([last]) else g
    return g


def _on_every_normal_path(fn, stmt):
    """Is `stmt` executed (exactly once) on every path that leaves fn normally?  True for a statement of the body, or of the arm
    of an `if` whose other arm always exits by raise/return, recursively; loops and try blocks are not evaluated (False)."""
    bp = block_path(fn, stmt)
    if bp is None:
        return False
    for k, (block, idx, owner) in enumerate(bp):
        if owner is fn or isinstance(owner, (ast.With, ast.AsyncWith)):
            continue
        if isinstance(owner, ast.If):
            other = owner.orelse if block is owner.body else owner.body
            if other and always_exits(other):
                continue
        return False
    return True


def _unroll_constant_loops(m, fi):
    """fi with every statement-level `for T in <module-level constant sequence>: body` of its body written out once per element
    (T replaced by the element's literal, the locals the body assigns renamed per pass).  Only loops that are a plain repetition
    are unrolled: no break / continue / else, the per-pass locals are not read after the loop.  Returns fi itself when nothing
    qualifies; the rules then meet the loop and decide or report it."""
    from ..model import FuncInfo
    fn = fi.node
    new_body, changed = [], False
    for s in fn.body:
        vals = None
        if isinstance(s, ast.For) and not s.orelse and isinstance(s.iter, (ast.Name, ast.Attribute)) \
                and not (isinstance(s.iter, ast.Name) and reaching_def(fn, s.iter.id, s) is not None) \
                and not any(isinstance(n, (ast.Break, ast.Continue, ast.Return, ast.Yield, ast.YieldFrom, ast.FunctionDef, ast.Lambda)) for n in ast.walk(s)):
            try:
                vals = m.const_value(fi.module, s.iter)
            except Undecided:
                vals = None
        tnames = [s.target.id] if vals is not None and isinstance(s.target, ast.Name) else \
            [e.id for e in s.target.elts] if vals is not None and isinstance(s.target, ast.Tuple) and all(isinstance(e, ast.Name) for e in s.target.elts) else None
        if not (isinstance(vals, (tuple, list)) and 1 <= len(vals) <= 8 and tnames):
            new_body.append(s)
            continue
        if isinstance(s.target, ast.Tuple) and not all(isinstance(v, (tuple, list)) and len(v) == len(tnames) for v in vals):
            new_body.append(s)
            continue
        stored = {n.id for x in s.body for n in ast.walk(x) if isinstance(n, ast.Name) and isinstance(n.ctx, ast.Store)}
        outside = {n.id for x in fn.body if x is not s for n in ast.walk(x) if isinstance(n, ast.Name)}
        per_pass = stored - outside                     # locals of one pass; names also used outside (accumulators) keep their name
        if (stored & outside) - {n.id for x in fn.body if x is not s for n in ast.walk(x) if isinstance(n, ast.Name) and isinstance(n.ctx, ast.Store)} or set(tnames) & outside:
            new_body.append(s)
            continue
        for k, v in enumerate(vals):
            lits = dict(zip(tnames, [v] if isinstance(s.target, ast.Name) else v))
            mp_ = {nm: ast.parse(repr(val), mode='eval').body for nm, val in lits.items()}

            class P(ast.NodeTransformer):
                def visit_Name(self, node):
                    if node.id in mp_ and isinstance(node.ctx, ast.Load):
                        return ast.copy_location(copy.deepcopy(mp_[node.id]), node)
                    if node.id in per_pass:
                        return ast.copy_location(ast.Name(id=f'{node.id}__u{k}', ctx=node.ctx), node)
                    return node
            for x in s.body:
                new_body.append(ast.fix_missing_locations(P().visit(copy.deepcopy(x))))
        changed = True
    if not changed:
        return fi
    node = copy.copy(fn)
    node.body = new_body
    return FuncInfo(fi.qualname, node, fi.module, fi.cls)


class _Rename(ast.NodeTransformer):
    def __init__(self, mp_):
        self.mp = mp_

    def visit_Name(self, node):
        return copy.deepcopy(self.mp[node.id]) if node.id in self.mp else node


def _rename(node, mp_):
    return _Rename(mp_).visit(copy.deepcopy(node)) if mp_ else node


class _FileGroup:
    """How one returned file is obtained: from which collection (`sq`: source + suffix filter), under which established fact, and
    what happens otherwise."""
    pos = None
    lazy = False
    one_extension = None        # the collection holds the entries of a single extension (this variable) of its group


def _exactly_one(facts, name):
    """Do the path facts say that collection `name` holds exactly one element?  len == 1, or (len <= 1 / len < 2) together with
    non-empty (truthy, len > 0, len >= 1, len != 0)."""
    ln_ = f'len({name})'
    if ('eq', '1', ln_) in facts:
        return True
    upper = ('le', ln_, '1') in facts or ('lt', ln_, '2') in facts
    lower = ('true', name) in facts or ('lt', '0', ln_) in facts or ('le', '1', ln_) in facts or ('ne', '0', ln_) in facts or ('true', ln_) in facts
    return upper and lower


class _LocateCtx:
    """R5 evaluated inside one function (locate_files itself, or a helper it delegates to, with the helper's parameters mapped
    to the caller's argument expressions)."""

    def __init__(self, m, fi, argmap=None, outer=None, depth=0):
        self.m, self.fi, self.ln = m, fi, fi.node
        self.gml = guard_map(self.ln)
        self.dl = _Derive(self.ln, self.gml, fi.name, ordered=False, resolve=lambda f_: m.resolve(fi.module, f_))
        self.helpers = [s for s in self.ln.body if isinstance(s, ast.FunctionDef)]
        self.argmap, self.outer, self.depth = argmap or {}, outer, depth

    # -- nested checking helpers (known symbols, so never expanded by N8): summarised at their call sites
    def helper_summary(self, h, call):
        """(facts holding after `h(args)` returned normally, [(raise statement, facts under which it is raised)]), in terms of the arguments."""
        hp = [a.arg for a in h.args.args]
        if len(call.args) > len(hp) or call.keywords or any(isinstance(a, ast.Starred) for a in call.args) or h.args.vararg or h.args.kwarg:
            return set(), []
        mp_ = dict(zip(hp, call.args))
        if any(any(binds_deep(s, p) for s in h.body) for p in mp_):
            return set(), []
        if any(isinstance(a, _DISPLAY) for a in call.args):
            return set(), []        # a collection built inside the call is a fresh object: a fact about it says nothing about any other (equal-looking) one
        key = lambda n: u(_rename(n, mp_))   # noqa: E731
        hg = guard_map(h)
        post = set()
        ft = _fall_through_guards(h, hg)
        if ft is not None and not any(isinstance(s, ast.Return) for s in stmts_in(h.body)):
            post = _facts(h, ft, key)
        return post, [(r, _facts(h, hg[r], key)) for r in stmts_in(h.body) if isinstance(r, ast.Raise)]

    def _helper_calls(self, stmts):
        for s in stmts:
            if isinstance(s, ast.Expr) and isinstance(s.value, ast.Call) and isinstance(s.value.func, ast.Name):
                for h in self.helpers:
                    if h.name == s.value.func.id and h.lineno < s.lineno and len([x for x in self.helpers if x.name == h.name]) == 1:
                        yield h, s.value

    def facts_at(self, st, keep=()):
        """Path facts at statement st, plus the post-conditions of the nested checking helpers called (as plain statements of
        the function body) before the top-level statement that contains st."""
        out = _facts(self.ln, self.gml[st], keep=keep)
        top = block_path(self.ln, st)[0][1]
        for h, call in self._helper_calls(self.ln.body[:top]):
            out |= self.helper_summary(h, call)[0]
        return out

    def error_sites(self, mname):
        """Raise statements reached when the number of matches in `mname` is not 1."""
        ln_ = f'len({mname})'
        not_one = {('ne', '1', ln_)}
        many = {('lt', '1', ln_), ('le', '2', ln_)}
        none = {('false', mname), ('eq', '0', ln_), ('le', ln_, '0'), ('lt', ln_, '1'), ('false', ln_)}
        cand = [(r, _facts(self.ln, self.gml[r])) for r in stmts_in(self.ln.body) if isinstance(r, ast.Raise)]
        for h, call in self._helper_calls(self.ln.body):
            cand += self.helper_summary(h, call)[1]
        out = [r for (r, f) in cand if f & (not_one | many | none)]
        # `!= 1` in one test, or the two sides (more than one / none) refused separately
        self.errs_both_sides = any(f & not_one for (_, f) in cand) or (any(f & many for (_, f) in cand) and any(f & none for (_, f) in cand))
        return out

    # -- values that come in through parameters
    def outward(self, expr):
        """The expression in terms of the outermost caller: parameters of delegating helpers replaced by the argument
        expressions they were called with."""
        cx = self
        while cx is not None:
            expr = _rename(expr, cx.argmap)
            cx = cx.outer
        return expr

    def constant(self, expr, what):
        """Literal value of an expression that is a literal, a module-level constant, or a parameter bound to one of those by the caller."""
        cx = self
        while cx is not None:
            if not (names_in(expr) & set(cx.argmap)):
                try:
                    return self.m.const_value(cx.fi.module, expr)
                except Undecided:
                    raise Undecided(f'{self.fi.name}: {what} is not a literal or a module-level constant: {u(expr)}')
            expr = _rename(expr, cx.argmap)
            cx = cx.outer
        try:
            return ast.literal_eval(expr)
        except Exception:
            raise Undecided(f'{self.fi.name}: {what} is not a literal or a module-level constant: {u(expr)}')

    # -- the file
    def file_of(self, rep, value, st, label):
        """_FileGroup for the file that `value` (evaluated at statement `st`) denotes; None after recording a violation."""
        m, ln, where = self.m, self.ln, self.fi.name
        o = _flow_origin(ln, value, st)
        rep.require(o is not None and o[0] == 'expr', f'{where}: {label} has no unique definition that could be followed: {u(value)[:80]}')
        tv, take = o[1], o[2]
        gr = _FileGroup()
        gr.fi, gr.take = self.fi, take
        mexpr = None
        if isinstance(tv, ast.Call) and isinstance(tv.func, ast.Attribute) and tv.func.attr == 'pop' and not tv.keywords and (not tv.args or (len(tv.args) == 1 and is_const(tv.args[0], 0))):
            mexpr = tv.func.value
        elif isinstance(tv, ast.Subscript) and (is_const(tv.slice, 0) or u(tv.slice) == '-1'):
            mexpr = tv.value
        elif isinstance(tv, ast.Call) and u(tv.func) == 'next' and len(tv.args) == 1 and not tv.keywords and isinstance(tv.args[0], ast.Call) and u(tv.args[0].func) == 'iter' and len(tv.args[0].args) == 1:
            mexpr = tv.args[0].args[0]
        elif isinstance(tv, ast.Call) and u(tv.func) == 'next' and len(tv.args) == 2 and not tv.keywords and isinstance(tv.args[0], (ast.Name, ast.GeneratorExp)) and is_none(tv.args[1]):
            return self.lazy_single(rep, gr, tv, take, value, st, label)
        elif isinstance(tv, ast.Call) and self.depth < 3:
            q = m.resolve_call(self.fi, tv)
            H = m.functions.get(q) if q else None
            if H is not None and H.cls is None and isinstance(H.node, ast.FunctionDef) and H.node is not ln:
                return self.delegated(rep, H, tv, take, label)
        if isinstance(tv, ast.Subscript) and isinstance(tv.value, ast.Name) and isinstance(tv.slice, ast.Constant) and isinstance(tv.slice.value, int) and tv.slice.value >= 0 \
                and self.positional(tv.value.id, take) is not None:
            return self.file_of_item(rep, tv.value.id, tv.slice.value, None, take, label)
        rep.require(isinstance(mexpr, (ast.Name, ast.ListComp, ast.SetComp)), f'{where}: unrecognised way of taking the single file: {label} = {u(tv)[:80]}')
        return self.take_from(rep, gr, mexpr, take, label)

    def positional(self, lname, at):
        """[(kind 'append' | 'extend', argument expression, statement)] for a list that starts empty and grows only by `.append(x)` /
        `.extend(M)` statements of the function body before `at` (so its k-th item can be told); None for anything else."""
        ln = self.ln
        d = reaching_def(ln, lname, at)
        if not (isinstance(d, ast.Assign) and d in ln.body and len(assigns_to(ln, lname)) == 1 and isinstance(def_value(d), ast.List) and not def_value(d).elts):
            return None
        items = []
        for n in ast.walk(ln):
            if isinstance(n, ast.Name) and n.id == lname and isinstance(n.ctx, ast.Load):
                par = self.dl.pm.get(n)
                call = self.dl.pm.get(par) if isinstance(par, ast.Attribute) else None
                st = self.dl.pm.get(call) if isinstance(call, ast.Call) else None
                if isinstance(par, ast.Attribute) and par.attr in ('append', 'extend') and isinstance(call, ast.Call) and call.func is par and len(call.args) == 1 and not call.keywords \
                        and isinstance(st, ast.Expr) and st in ln.body:
                    if st.lineno < at.lineno or ln.body.index(st) < block_path(ln, at)[0][1]:
                        items.append((par.attr, call.args[0], st))
                    else:
                        return None
                elif isinstance(par, ast.Attribute):
                    return None             # some other method of the list
        items.sort(key=lambda it: ln.body.index(it[2]))
        return items or None

    def file_of_item(self, rep, lname, k, n_targets, at, label):
        """The k-th item of a list grown by append / extend statements.  `extend(M)` contributes exactly one item where
        `len(M) == 1` is a fact at that statement."""
        items = self.positional(lname, at)
        rep.require(items is not None, f'{self.fi.name}: {lname} is not a list grown only by append / extend statements of the function body')
        if n_targets is not None:
            rep.require(len(items) == n_targets, f'{self.fi.name}: {lname} receives {len(items)} items but is unpacked into {n_targets} names')
        rep.require(k < len(items), f'{self.fi.name}: {lname} has no item {k}')
        for kind, arg, st in items[:k]:
            if kind == 'extend' and not (isinstance(arg, ast.Name) and _exactly_one(self.facts_at(st), arg.id)):
                rep.add('R5', self.fi.site(st), 'every match set added to the list of files holds exactly one file (so the files keep their positions)', False,
                        expected=f'len({u(arg)}) == 1 established before {u(st)[:40]}', found=sorted(self.facts_at(st)), stmt=f'single [{label}: earlier item]')
                return None
        kind, arg, st = items[k]
        if kind == 'append':
            return self.file_of(rep, arg, st, label)
        gr = _FileGroup()
        gr.fi, gr.take = self.fi, st
        return self.take_from(rep, gr, arg, st, label)

    def take_from(self, rep, gr, mexpr, take, label):
        """The file is the single element of collection `mexpr`, taken at statement `take`."""
        ln, where = self.ln, self.fi.name
        rep.require(isinstance(mexpr, (ast.Name, ast.ListComp, ast.SetComp)), f'{where}: {label} is taken from {u(mexpr)[:60]}, which is not a local collection')
        mname = mexpr.id if isinstance(mexpr, ast.Name) else u(mexpr)
        if isinstance(mexpr, ast.Name) and reaching_def(ln, mexpr.id, take) is None and assigns_to(ln, mexpr.id):
            rep.add('R5', self.fi.site(take), 'the file is taken from a match set that was built and checked before', False, expected=f'{mexpr.id} built and checked to hold exactly one file first',
                    found=f'{u(take)[:60]}: {mexpr.id} is only assigned later', stmt=f'single [{label}]')
            return None
        sq = self.dl.seq_of(mexpr, take)
        rep.require(sq is not None, f'{where}: {mname} is not a collection built by a recognised construction (comprehension / append loop)')
        if not self.group_of(rep, gr, sq, mname):
            return None
        fa = self.facts_at(take)
        # facts that say nothing about the entry and still hold where the file is taken are the context the collection was built
        # in, not a selection of entries
        gr.extra = [a for a in gr.extra if any(sym in str(x) for x in a[1:] for sym in (IDX, ELEM, RANK)) or a not in fa]
        gr.single_ok = _exactly_one(fa, mname)
        gr.single_expected, gr.single_found = f'len({mname}) == 1 established before {u(take)[:40]}', sorted(fa)
        if gr.one_extension is not None and len(gr.sufs) > 1:
            # the collection is one extension's share of the group: whatever is known about ITS size says nothing about the number of
            # files of the kind, unless a fact about the other extensions' files is in sight (then the rule cannot combine them)
            rep.require(not any('len(' in str(x) and mname not in str(x) for a_ in fa for x in a_[1:]),
                        f'{where}: {mname} holds the files of one extension ({gr.one_extension} of {gr.sufs}); the path also knows sizes of other collections, which the rule cannot add up')
            gr.single_ok = False
            gr.single_expected = f'exactly one file with a suffix in {gr.sufs} (all extensions of the kind pooled)'
            gr.single_found = [f'{mname} holds only the entries whose suffix == {gr.one_extension}, one extension of {gr.sufs} at a time; known: {sorted(fa)}']
        gr.errs = self.error_sites(mname)
        gr.errs_complete = self.errs_both_sides or not gr.errs
        return gr

    def group_of(self, rep, gr, sq, name):
        """Suffix group, further conditions and source of the collection `sq` the file is taken from."""
        gr.sq, gr.name = sq, name
        sufs, extra = None, []
        for a in sq.filt:
            if a[0] == 'in' and a[1] == f'{ELEM}.suffix' and sufs is None:
                px = _parse_expr(a[2])
                rep.require(px is not None, f'{self.fi.name}: suffix group {a[2]} cannot be read')
                sufs = self.constant(px, f'suffix group of {name}')
                rep.require(isinstance(sufs, (tuple, list, set, frozenset)) and all(isinstance(x, str) for x in sufs), f'{self.fi.name}: suffix group of {name} is not a collection of strings: {sufs!r}')
                sufs = tuple(sufs)
            elif a[0] == 'eq' and f'{ELEM}.suffix' in a[1:] and sufs is None and self.one_of_group(sq, a[2] if a[1] == f'{ELEM}.suffix' else a[1]) is not None:
                # `entry.suffix == ext` inside `for ext in <extension group>`: the entries of ONE extension of the group
                other = a[2] if a[1] == f'{ELEM}.suffix' else a[1]
                sufs = tuple(self.one_of_group(sq, other))
                gr.one_extension = other
            else:
                extra.append(a)
        if sufs is None and any(a[0] == 'notin' and a[1] == f'{ELEM}.suffix' for a in sq.filt):
            rep.add('R5', self.fi.site(sq.site), 'a match set holds the entries whose suffix IS in the group', False, expected='<entry>.suffix in <group>', found=sorted(sq.filt), stmt=f'suffix membership [{name}]')
            return False
        rep.require(sufs is not None, f'{self.fi.name}: {name} is not selected by `<entry>.suffix in <literal>`: {sorted(sq.filt)}')
        gr.sufs, gr.extra = sufs, extra
        site_st = sq.site if isinstance(sq.site, ast.stmt) else enclosing_stmt(self.ln, sq.site, self.dl.pm)
        srcx, gr.wrapped = _strip_materialise(_subst(self.ln, sq.src_node, site_st))
        gr.src_text = u(self.outward(srcx))
        return True

    def one_of_group(self, sq, text):
        """When `text` names the variable of an enclosing `for <name> in <constant tuple of strings>` around the collection: that tuple."""
        e_ = _parse_expr(text)
        if not isinstance(e_, ast.Name):
            return None
        site_st = sq.site if isinstance(sq.site, ast.stmt) else enclosing_stmt(self.ln, sq.site, self.dl.pm)
        d = reaching_def(self.ln, e_.id, site_st) if site_st is not None else None
        if not (isinstance(d, ast.For) and isinstance(d.target, ast.Name) and d.target.id == e_.id):
            return None
        try:
            vals = self.constant(d.iter, f'extension group iterated by {e_.id}')
        except Undecided:
            return None
        return tuple(vals) if isinstance(vals, (tuple, list)) and vals and all(isinstance(x, str) for x in vals) else None

    def lazy_single(self, rep, gr, first, take, value, st, label):
        """`x = next(G, None)` with G a generator over the filtered directory entries: x is THE single match exactly when x is not
        None and a second `next(G, None)` is None (entries are never None).  Both facts must hold where x is returned / used."""
        ln, where = self.ln, self.fi.name
        rep.require(not any(isinstance(s, (ast.For, ast.While, ast.Try)) for s in stmts_in(ln.body)), f'{where}: loops / try around {u(first)[:50]} are not evaluated')
        if isinstance(first.args[0], ast.GeneratorExp):
            # the generator is written inside the call: nothing else can ever pull a second element from it
            gname, gd, gv, nexts = 'the generator', take, first.args[0], [first]
        else:
            gname = first.args[0].id
            gd = reaching_def(ln, gname, take)
            gv = def_value(gd) if isinstance(gd, ast.stmt) else None
            rep.require(isinstance(gv, ast.GeneratorExp) and len(assigns_to(ln, gname)) == 1, f'{where}: {gname} in {u(first)} is not a generator expression bound once')
            nexts = [c for c in calls_in(ln) if u(c.func) == 'next' and c.args and isinstance(c.args[0], ast.Name) and c.args[0].id == gname]
            loads = [n for n in ast.walk(ln) if isinstance(n, ast.Name) and n.id == gname and isinstance(n.ctx, ast.Load)]
            rep.require(len(loads) == len(nexts) and all(len(c.args) == 2 and not c.keywords and is_none(c.args[1]) for c in nexts),
                        f'{where}: the generator {gname} is consumed by something other than next({gname}, None)')
        rep.require(isinstance(take, ast.Assign) and len(take.targets) == 1 and isinstance(take.targets[0], ast.Name) and take in ln.body and take.value is first,
                    f'{where}: {u(take)[:60]} is not an unconditional statement of the function body')
        xname = take.targets[0].id
        rep.require(len(assigns_to(ln, xname)) == 1, f'{where}: {xname} is bound more than once')
        sq = self.dl.comp_form(gv, gd, 0)
        if not self.group_of(rep, gr, sq, f'{gname} (generator)'):
            return None
        gr.lazy = True
        fa = self.facts_at(st, keep=(xname,))
        second = u(nexts[1]) if len(nexts) == 2 else None
        later = len(nexts) == 2 and enclosing_stmt(ln, nexts[1], self.dl.pm).lineno > take.lineno
        gr.single_ok = len(nexts) == 2 and nexts[0] is first and later and ('isnot', 'None', xname) in fa and ('is', 'None', second) in fa
        gr.single_expected = f'{xname} is not None and a second next({gname}, None) is None where {xname} is used'
        gr.single_found = sorted(fa) + [f'{len(nexts)} next({gname}, None) calls' + ('' if nexts[0] is first else f'; {xname} is not the first of them')]
        gr.errs = [r for r in stmts_in(ln.body) if isinstance(r, ast.Raise)]
        gr.errs_complete = always_exits(ln.body)      # whatever does not reach the use of x raises
        return gr

    def delegated(self, rep, H, call, take, label):
        """The file is the result of a module-level function of the package: evaluate that function with its parameters bound to
        the argument expressions.  It must return through exactly one `return <file>` and otherwise raise."""
        hp = [a.arg for a in H.node.args.posonlyargs + H.node.args.args]
        rep.require(not call.keywords and not any(isinstance(a, ast.Starred) for a in call.args) and len(call.args) <= len(hp) and not H.node.args.vararg and not H.node.args.kwarg,
                    f'{self.fi.name}: call {u(call)[:80]} binds parameters in a way the rule does not follow')
        args = [_subst(self.ln, a, take) for a in call.args]
        amap = dict(zip(hp, args))
        for p in hp[len(args):]:
            dflt = H.param_default(p)
            rep.require(dflt is not None, f'{H.name}: parameter {p} gets no argument in {u(call)[:60]}')
            amap[p] = dflt
        rep.require(not any(any(binds_deep(s, p) for s in H.node.body) for p in hp), f'{H.name}: a parameter is rebound inside the helper')
        rets = [s for s in stmts_in(H.node.body) if isinstance(s, ast.Return)]
        rep.require(len(rets) == 1 and rets[0].value is not None and not any(isinstance(n, (ast.Yield, ast.YieldFrom)) for n in ast.walk(H.node)),
                    f'{H.name}: expected exactly one `return <file>`, found {[u(r)[:40] for r in rets]}')
        hcx = _LocateCtx(self.m, H, amap, self, self.depth + 1)
        gr = hcx.file_of(rep, rets[0].value, rets[0], f'{label} via {H.name}')
        if gr is None:
            return None
        # the file exists only where the helper returns; every other way out of the helper must be a raise (checked by the caller
        # for its class), never falling off the end with None
        gr.errs_complete = gr.errs_complete and always_exits(H.node.body)
        if gr.fi is H:
            gr.errs = [r for r in stmts_in(H.node.body) if isinstance(r, ast.Raise)] if not gr.errs else gr.errs
        return gr


def check(ctx):
    rep, m = ctx.rep, ctx.model
    rep.rule('R1', 'genomes_by_id_subset: the two returned lists hold, for the same positions of the per-id lookup list (those whose entry is not None), the entry and the position; lookup is non-strict and order-preserving over ids')
    rep.rule('R2', '_map_ids_to_genomes: {added column: entity}')
    rep.rule('R3', 'ReferenceDatabase.__init__: raise on id_attr None; raise when matched count != genome count; ids and id_attr from the same signatures object')
    rep.rule('R4', '_check_genome_id_attr accepts only Genome.ID_ATTRS members')
    rep.rule('R5', 'locate_files: each suffix group must match exactly one file (n != 1 raises DatabaseLoadError) before it is taken')
    rep.rule('R7', 'premise of R2: a genome set with a NULL id never yields a lookup (count query > 0, or a None key of the id map, raises before any id is looked up)')
    rep.rule('R6', 'query(): signatures, ref_indices and genomes all come from the one db object; loaders pass the loaded objects to the constructor')
    rep.trusted += ['SQLAlchemy Query.add_columns yields rows (entity, added column)', 'dict.get returns None for an unknown id',
                    'the values of the id map are AnnotatedGenome rows, never None (so `id in d` and `d.get(id) is not None` select the same ids)']
    MS = _map_self_checks(m)      # what _map_ids_to_genomes validates / guards itself, on behalf of its callers

    # ---------------------------------------------------------------------------------- R1
    fi = m.func(f'{MOD}.genomes_by_id_subset')
    rep.functions.add(fi.qualname)
    fn = fi.node
    gset, id_attr, ids = fi.params()[:3]
    gm = guard_map(fn)
    rets = [s for s in stmts_in(fn.body) if isinstance(s, ast.Return)]
    rep.require(len(rets) == 1 and isinstance(rets[0].value, ast.Tuple) and len(rets[0].value.elts) == 2, 'genomes_by_id_subset: does not return a pair')
    ge, ie = rets[0].value.elts
    gout, iout = u(ge), u(ie)
    dv = _Derive(fn, gm, 'genomes_by_id_subset', resolve=lambda f_: m.resolve(fi.module, f_))
    G, I = dv.seq_of(ge, rets[0]), dv.seq_of(ie, rets[0])
    rep.require(G is not None and I is not None, f'genomes_by_id_subset: returned lists are not built by a recognised construction (append loop / comprehension): {gout if G is None else iout}')
    rep.floor('R1', 'element sites (append / comprehension element) of the two returned lists in genomes_by_id_subset', len({id(G.site), id(I.site)}), 2)
    diff = G.filt ^ I.filt
    if diff and not any(any(sym in str(x) for sym in (IDX, ELEM, RANK)) for a in diff for x in a[1:]):
        raise Undecided(f'genomes_by_id_subset: the two lists are built under conditions that differ in facts not about the enumerated pair: {sorted(diff)}')
    rep.add('R1', fi.site(I.site), 'genome and index are taken for the same positions (lists stay parallel)', G.src[0] == I.src[0] and not diff, expected='same source list, same condition',
            found='ok' if G.src[0] == I.src[0] and not diff else f'genomes: {G.describe()} / indices: {I.describe()}', stmt='appends same block')
    rep.add('R1', fi.site(I.site), 'index and genome are bound together by the position in the lookup list', not G.notes and not I.notes and G.src[0] == I.src[0],
            expected='for i, g in enumerate(<lookup list>) or an equivalent pairing of position and entry', found=(G.describe(), I.describe()), stmt='enumerate')
    # Two ways to pair an entry with its position: (A) enumerate the per-id lookup list of genomes_by_id(strict=False);
    # (B) enumerate the ids themselves and look each one up in the id map (`d.get(id)`): then the entry is that lookup.
    sv = G.src_node
    by_ids = G.src[0] == ('name', ids) or (G.src[0][0] == 'def' and isinstance(sv, ast.AST) and _param_origin(fn, sv, enclosing_stmt(fn, sv, dv.pm)) == ids)
    entry, receiver, strict_lookup = ELEM, None, False
    if by_ids and isinstance(G.elt, tuple) and G.elt[0] == 'other':
        pe = _parse_expr(G.elt[1])
        if isinstance(pe, ast.Call) and isinstance(pe.func, ast.Attribute) and pe.func.attr == 'get' and not pe.keywords and pe.args and u(pe.args[0]) == ELEM \
                and (len(pe.args) == 1 or (len(pe.args) == 2 and is_none(pe.args[1]))):
            entry, receiver = G.elt, u(pe.func.value)
        elif (isinstance(pe, ast.Subscript) and u(pe.slice) == ELEM) or (isinstance(pe, ast.Call) and isinstance(pe.func, ast.Attribute) and pe.func.attr == '__getitem__' and [u(a) for a in pe.args] == [ELEM]):
            entry, receiver, strict_lookup = G.elt, u(pe.value if isinstance(pe, ast.Subscript) else pe.func.value), True
        else:
            raise Undecided(f'genomes_by_id_subset: the genome list holds {G.elt[1]} for each id: not a recognised lookup of the id')
    entry_t = entry if isinstance(entry, str) else entry[1]

    def kept_when_matched(sq):
        """unknown ids are skipped: `entry is not None`, or - looking ids up in the map directly - `id in <that map>`"""
        return ('isnot', entry_t, 'None') in sq.filt or ('isnot', 'None', entry_t) in sq.filt or (receiver is not None and ('in', ELEM, receiver) in sq.filt)
    rep.add('R1', fi.site(G.site), 'the genome list holds the entry at the enumerated position', G.elt == entry and (not by_ids or receiver is not None),
            expected='lookup[i]' if not by_ids else '<id map>.get(ids[i])', found=G.describe(), stmt='append genome')
    rep.add('R1', fi.site(I.site), 'the index list holds the position in the signature-ID list (not a running count)', I.elt == IDX,
            expected='i', found=I.describe(), stmt='append index')
    for sq, name in ((G, 'genome'), (I, 'index')):
        rep.add('R1', fi.site(sq.site), f'{name} is kept only for `entry is not None` (unmatched signature IDs are skipped together)', kept_when_matched(sq),
                expected='<entry> is not None', found=sorted(sq.filt), stmt=f'{name} guard')
    site_l = sv if isinstance(sv, ast.AST) and hasattr(sv, 'lineno') else rets[0]
    if by_ids and receiver is not None:
        maps = [c for c in calls_in(fn) if m.resolve_call(fi, c) == f'{MOD}._map_ids_to_genomes']
        rep.require(len(maps) == 1, f'genomes_by_id_subset: ids are looked up in {receiver}; expected exactly one _map_ids_to_genomes call to compare it with, found {len(maps)}')
        mst_ = enclosing_stmt(fn, maps[0], dv.pm)
        rep.require(not any(isinstance(o, (ast.For, ast.While)) for (_, _, o) in block_path(fn, mst_)) and u(_subst(fn, maps[0], mst_)) == receiver,
                    f'genomes_by_id_subset: cannot tell that {receiver} is the id map built by {u(maps[0])[:60]}')
        ok_set, ok_val, seen_m = _id_map_flow(m, fi, maps[0], mst_, gset, id_attr, MS['validates'])
        rep.add('R1', fi.site(maps[0]), 'the enumerated list is the per-ID lookup of the given ids', ok_set, expected=f'_map_ids_to_genomes({gset}, <validated {id_attr}>).get(id) for each id of {ids}', found=seen_m,
                stmt='lookup list')
        rep.add('R4', fi.site(maps[0]), 'the id attribute is validated before use', ok_val, expected=f'_check_genome_id_attr({id_attr})', found=seen_m, stmt='id_attr validation [subset]')
        rep.add('R1', fi.site(G.site), 'the lookup is non-strict (unrelated signatures in the file are tolerated)', not strict_lookup or ('in', ELEM, receiver) in G.filt, expected='<id map>.get(id), or <id map>[id] only for ids that are keys of it', found=G.describe(), stmt='strict flag')
        okn_s, seen_ns = _null_id_guard(rep, m, fi, gset, id_attr, rets, MS['validates'])
        if not okn_s and MS['guards'] and ok_set and ok_val:
            okn_s, seen_ns = True, 'guard inside _map_ids_to_genomes, called with this genome set and id attribute'
        rep.add('R7', fi.site(), 'no id is looked up for a genome set in which some genome has no value for the id attribute', okn_s,
                expected=f'_check_genomes_have_ids({gset}, <validated {id_attr}>) (or a raise under `None in <id map>`) before the lookup', found=seen_ns, stmt='null-id guard [subset]')
    else:
        lst_ = enclosing_stmt(fn, sv, dv.pm) if isinstance(sv, ast.Call) else None
        ok = isinstance(sv, ast.Call) and m.resolve_call(fi, sv) == f'{MOD}.genomes_by_id' and len(sv.args) >= 3 and [u(_subst(fn, a, lst_)) for a in sv.args[:2]] == [gset, id_attr] \
            and _param_origin(fn, sv.args[2], lst_) == ids
        strict = get_arg(sv, 3, 'strict') if isinstance(sv, ast.Call) else None
        rep.add('R1', fi.site(site_l), 'the enumerated list is the per-ID lookup of the given ids', ok, expected=f'genomes_by_id({gset}, {id_attr}, {ids}, strict=False)', found=u(sv),
                stmt='lookup list')
        if ok:
            _require_params(rep, fn, (gset, id_attr), lst_, 'genomes_by_id_subset')
        rep.add('R1', fi.site(site_l), 'the lookup is non-strict (unrelated signatures in the file are tolerated)', strict is not None and strict is not Ellipsis and is_const(strict, False),
                expected='strict=False', found=u(strict) if strict not in (None, Ellipsis) else strict, stmt='strict flag')
    for sq, lst in ((G, gout), (I, iout)):
        if sq.how == 'append loop':
            ds = assigns_to(fn, lst)
            rep.add('R1', fi.site(ds[0] if ds else None), f'{lst} starts empty', len(ds) == 1 and isinstance(def_value(ds[0]), ast.List) and not def_value(ds[0]).elts,
                    expected='[]', found=[u(d) for d in ds], stmt=f'{lst} init')
        else:
            rep.add('R1', fi.site(sq.site), f'{lst} starts empty', True, expected='fresh list', found='comprehension', stmt=f'{lst} init')
    # genomes_by_id: order-preserving comprehension over ids
    fb = m.func(f'{MOD}.genomes_by_id')
    rep.functions.add(fb.qualname)
    gmb = guard_map(fb.node)
    bp_ = fb.params()
    ids_b = bp_[2]
    rep.require(len(bp_) > 3, 'genomes_by_id: no strict parameter')
    strict_b = bp_[3]
    rets_b = [s for s in stmts_in(fb.node.body) if isinstance(s, ast.Return)]
    dname, dname_at = None, None
    cases = []
    def value_cases(v, modes):
        """(value expression, strict modes under which it is the result): a conditional expression on the strict flag is a case split"""
        if isinstance(v, ast.IfExp):
            out = []
            for mode in modes:
                t_ = _truth_of(v.test, strict_b, mode)
                rep.require(t_ is not None, f'genomes_by_id: result is conditional on something other than {strict_b}: {u(v.test)}')
                out += value_cases(v.body if t_ else v.orelse, [mode])
            return out
        return [(v, list(modes))]

    flat = []
    for r in rets_b:
        at = _facts(fb.node, gmb[r])
        rep.require(reaching_def(fb.node, strict_b, r) is PARAM, f'genomes_by_id: parameter {strict_b} is rebound before {u(r)[:60]}')
        flat += [(r, v_, ms) for (v_, ms) in value_cases(r.value, [True] if ('true', strict_b) in at else [False] if ('false', strict_b) in at else [True, False])]
    for r, v, modes in flat:
        v0 = v
        if isinstance(v, ast.Call) and isinstance(v.func, ast.Name) and v.func.id == 'list' and len(v.args) == 1 and not v.keywords and isinstance(v.args[0], ast.GeneratorExp):
            v = v.args[0]
        if isinstance(v, ast.Call) and isinstance(v.func, ast.Name) and v.func.id == 'list' and len(v.args) == 1 and not v.keywords and isinstance(v.args[0], ast.Call) \
                and isinstance(v.args[0].func, ast.Name) and v.args[0].func.id == 'map' and m.resolve(fb.module, v.args[0].func) is None and len(v.args[0].args) == 2 and not v.args[0].keywords:
            mf, mx = v.args[0].args         # list(map(F, xs))  ==  [F(x) for x in xs]
            fresh = 'x__map'
            v = ast.copy_location(ast.ListComp(elt=ast.Call(func=mf, args=[ast.Name(id=fresh, ctx=ast.Load())], keywords=[]),
                                               generators=[ast.comprehension(target=ast.Name(id=fresh, ctx=ast.Store()), iter=mx, ifs=[], is_async=0)]), v)
            ast.fix_missing_locations(v)
        okc = isinstance(v, (ast.ListComp, ast.GeneratorExp)) and len(v.generators) == 1 and isinstance(v.generators[0].target, ast.Name)
        rep.require(okc, f'genomes_by_id: return is not a list comprehension: {u(v0)}')
        one2one = not v.generators[0].ifs and _param_origin(fb.node, v.generators[0].iter, r) == ids_b
        t = v.generators[0].target.id
        for mode in modes:
            cases.append((r, mode))
            label = 'strict' if mode else 'non-strict'
            rep.add('R1', fb.site(r), 'the lookup list has exactly one entry per id, in the order of ids', one2one, expected=f'for x in {ids_b} (no filter, no reordering)',
                    found=u(v), stmt=f'lookup order[{label}]')
            k = _lookup_kind(fb.node, v.elt, t, r, strict_b, mode)
            rep.require(k is not None, f'genomes_by_id: cannot tell how {u(v.elt)} looks up {t} when {strict_b} is {mode}')
            if not mode:
                rep.add('R1', fb.site(r), 'non-strict lookup yields one entry per id, None for unknown ids, in id order', k[0] == 'get', expected=f'[d.get({t}) for {t} in {ids_b}]', found=u(v) + f' -> {k}',
                        stmt='non-strict lookup')
                if k[0] == 'get':
                    dname, dname_at = k[1], r
            else:
                rep.add('R1', fb.site(r), 'strict lookup raises KeyError for unknown ids', k[0] == 'item', expected=f'[d[{t}] for {t} in {ids_b}]', found=u(v) + f' -> {k}', stmt='strict lookup')
    rep.floor('R1', 'lookup cases (return x strict mode) in genomes_by_id', len(cases), 2)
    rep.require({mode for (_, mode) in cases} == {True, False}, 'genomes_by_id: the returns do not cover both strict modes')
    rep.account_returns('R1', fb, rets_b, 'lookup list')
    rep.account_returns('R1', fi, rets, 'matched (genomes, indices) pair')
    rep.require(dname is not None, 'genomes_by_id: non-strict lookup dict not identified')
    dd = assigns_to(fb.node, dname)
    od = _flow_origin(fb.node, _parse_expr(dname), dname_at) if _parse_expr(dname) is not None else None
    is_map = len(dd) <= 1 and bool(od) and od[0] == 'expr' and isinstance(od[1], ast.Call) and m.resolve_call(fb, od[1]) == f'{MOD}._map_ids_to_genomes'
    ok_set, ok_val, seen_m = _id_map_flow(m, fb, od[1], od[2], bp_[0], bp_[1], MS['validates']) if is_map else (False, False, [u(x) for x in dd])
    rep.add('R1', fb.site(dd[0] if dd else None), 'the lookup dict is the id map of this genome set', is_map and ok_set, expected=f'_map_ids_to_genomes({bp_[0]}, id_attr)', found=seen_m,
            stmt='lookup dict')
    rep.add('R4', fb.site(dd[0] if dd else None), 'the id attribute is validated before use', is_map and ok_val,
            expected=f'_map_ids_to_genomes({bp_[0]}, _check_genome_id_attr({bp_[1]}))', found=seen_m, stmt='id_attr validation')
    okn, seen_n = _null_id_guard(rep, m, fb, bp_[0], bp_[1], rets_b, MS['validates'])
    if not okn and MS['guards'] and is_map and ok_set and ok_val:
        okn, seen_n = True, 'guard inside _map_ids_to_genomes, called with this genome set and id attribute'
    rep.add('R7', fb.site(), 'no id is looked up for a genome set in which some genome has no value for the id attribute', okn,
            expected=f'_check_genomes_have_ids({bp_[0]}, <validated {bp_[1]}>) (or a raise under `None in <id map>`) before every return', found=seen_n, stmt='null-id guard')
    # _check_genomes_have_ids: raises exactly when the count of genomes of the set whose id attribute IS NULL is positive
    fh = _follow_delegation(m, m.func(f'{MOD}._check_genomes_have_ids'))
    rep.functions.add(fh.qualname)
    hp_ = _own_params(fh)
    gmh = guard_map(fh.node)
    counts = [c for c in calls_in(fh.node) if callee_attr(c) == 'count' and not c.args and u(c).startswith(f'{hp_[0]}.genomes')]
    rep.require(len(counts) == 1, f'_check_genomes_have_ids: expected one count() query on {hp_[0]}.genomes, found {len(counts)}')
    qn = counts[0]
    qtext = u(qn)
    filters = [c for c in calls_in(qn) if callee_attr(c) in ('filter', 'where')]
    is_null = False
    if len(filters) == 1 and len(filters[0].args) == 1 and not filters[0].keywords:
        fa_ = filters[0].args[0]
        is_null = (isinstance(fa_, ast.Compare) and len(fa_.ops) == 1 and isinstance(fa_.ops[0], (ast.Eq, ast.Is)) and sorted([u(fa_.left), u(fa_.comparators[0])]) == sorted(['None', hp_[1]])) \
            or (isinstance(fa_, ast.Call) and isinstance(fa_.func, ast.Attribute) and fa_.func.attr in ('is_', '__eq__') and u(fa_.func.value) == hp_[1] and [u(a) for a in fa_.args] == ['None'])
    joins_h = [c for c in calls_in(qn) if callee_attr(c) == 'join']
    rep.add('R7', fh.site(qn), 'the count is over the genomes of this set whose id attribute is NULL', is_null and len(joins_h) == 1 and [u(a) for a in joins_h[0].args] == ['AnnotatedGenome.genome']
            and all(reaching_def(fh.node, p_, enclosing_stmt(fh.node, qn)) is PARAM for p_ in hp_[:2]),
            expected=f'{hp_[0]}.genomes.join(AnnotatedGenome.genome).filter({hp_[1]} == None).count()', found=qtext, stmt='null count query')
    positive = ({('lt', '0', qtext)}, {('ne', '0', qtext)}, {('true', qtext)}, {('le', '1', qtext)})
    zero = (('le', qtext, '0'), ('eq', '0', qtext), ('false', qtext), ('lt', qtext, '1'))
    raises_h = [s for s in stmts_in(fh.node.body) if isinstance(s, ast.Raise)]
    ok_r = bool(raises_h) and all(_facts(fh.node, gmh[r]) in positive for r in raises_h)
    rep.add('R7', fh.site(raises_h[0] if raises_h else None), 'an error is raised exactly when that count is positive', ok_r, expected=f'raise under {qtext} > 0',
            found=[sorted(_facts(fh.node, gmh[r])) for r in raises_h], stmt='null count raise')
    ft_h = _fall_through_guards(fh.node, gmh)
    end_h = _facts(fh.node, ft_h) if ft_h is not None else set()
    rep.add('R7', fh.site(), 'the check completes only when no genome of the set lacks the id', any(z in end_h for z in zero) and not any(isinstance(s, ast.Return) for s in stmts_in(fh.node.body)),
            expected=f'{qtext} == 0 on the normal exit', found=sorted(end_h), stmt='null count exit')

    # ---------------------------------------------------------------------------------- R2
    fm = _follow_delegation(m, m.func(f'{MOD}._map_ids_to_genomes'))
    rep.functions.add(fm.qualname)
    mp = _own_params(fm)
    rets_m = [s for s in stmts_in(fm.node.body) if isinstance(s, ast.Return)]
    dc = rets_m[-1].value if rets_m else None
    dkey = dval = None
    if isinstance(dc, ast.DictComp) and len(dc.generators) == 1:
        dkey, dval = dc.key, dc.value
    elif isinstance(dc, ast.Call) and m.resolve(fm.module, dc.func) in (None,) and u(dc.func) == 'dict' and len(dc.args) == 1 and not dc.keywords \
            and isinstance(dc.args[0], (ast.GeneratorExp, ast.ListComp)) and len(dc.args[0].generators) == 1 \
            and isinstance(dc.args[0].elt, ast.Tuple) and len(dc.args[0].elt.elts) == 2:
        dc = dc.args[0]                     # dict((key, value) for ...) is {key: value for ...}
        dkey, dval = dc.elt.elts
    rep.require(dkey is not None, f'_map_ids_to_genomes: does not return a dict comprehension / dict(<pairs>): {u(dc)[:80] if dc is not None else None}')
    rep.account_returns('R2', fm, rets_m[-1:], 'id map')
    rets_m = rets_m[-1:]
    g = dc.generators[0]
    rep.require(isinstance(g.target, ast.Tuple) and len(g.target.elts) == 2 and not g.ifs, '_map_ids_to_genomes: comprehension target is not a pair')
    ent, col = (u(e) for e in g.target.elts)
    rep.add('R2', fm.site(rets_m[0]), 'map key is the ID column, value the genome entity', u(dkey) == col and u(dval) == ent, expected=f'{{{col}: {ent}}}', found=f'{{{u(dkey)}: {u(dval)}}}',
            stmt='dict orientation')
    q = g.iter
    qv = q
    if isinstance(q, ast.Name):
        d = reaching_def(fm.node, q.id, rets_m[0])
        qv = def_value(d) if d not in (None, PARAM, AMBIGUOUS) else None
    addc = [c for c in calls_in(qv) if callee_attr(c) == 'add_columns'] if qv is not None else []
    okq = len(addc) == 1 and [u(a) for a in addc[0].args] == [mp[1]] and u(qv).startswith(f'{mp[0]}.genomes')
    rep.add('R2', fm.site(rets_m[0]), 'rows are (genome of this set, value of the requested id attribute)', okq, expected=f'{mp[0]}.genomes...add_columns({mp[1]})', found=u(qv),
            stmt='query shape')
    joins = [c for c in calls_in(qv) if callee_attr(c) == 'join'] if qv is not None else []
    rep.add('R2', fm.site(rets_m[0]), 'the id column is read from the genome joined through the annotation', len(joins) == 1 and [u(a) for a in joins[0].args] == ['AnnotatedGenome.genome'],
            expected='.join(AnnotatedGenome.genome)', found=[u(j) for j in joins], stmt='join')

    # ---------------------------------------------------------------------------------- R3
    fc = m.func(f'{MOD}.ReferenceDatabase.__init__')
    rep.functions.add(fc.qualname)
    cn = fc.node
    selfp, gsetp, sigp = fc.params()[:3]
    gmc = guard_map(cn)
    pmc = find_parent_map(cn)
    raises = [s for s in stmts_in(cn.body) if isinstance(s, ast.Raise)]
    sub_calls = [c for c in calls_in(cn) if m.resolve_call(fc, c) == f'{MOD}.genomes_by_id_subset']
    rep.require(len(sub_calls) == 1, 'ReferenceDatabase.__init__: expected one genomes_by_id_subset call')
    sc = sub_calls[0]
    sst = next((s for s in stmts_in(cn.body) if isinstance(s, ast.Assign) and s.value is sc), None)
    rep.require(sst is not None, f'ReferenceDatabase.__init__: the result of genomes_by_id_subset is not bound by an assignment: {u(enclosing_stmt(cn, sc, pmc))[:80]}')
    rep.require(not any(isinstance(o, (ast.For, ast.While)) for (_, _, o) in block_path(cn, sst)), 'ReferenceDatabase.__init__: genomes_by_id_subset is called in a loop')
    sc_text = u(_subst(cn, sc, sst))
    # every store to an attribute of self: text -> [(statement, stored value expression or None)]
    stores = {}
    for s in stmts_in(cn.body):
        if isinstance(s, ast.Assign):
            for t in s.targets:
                if isinstance(t, ast.Attribute):
                    stores.setdefault(u(t), []).append((s, s.value))
                elif isinstance(t, (ast.Tuple, ast.List)):
                    for k, e in enumerate(t.elts):
                        if isinstance(e, ast.Attribute):
                            if isinstance(s.value, (ast.Tuple, ast.List)) and len(s.value.elts) == len(t.elts):
                                val = s.value.elts[k]
                            elif any(isinstance(x, ast.Starred) for x in t.elts):
                                val = None
                            else:
                                val = ast.copy_location(ast.Subscript(value=s.value, slice=ast.Constant(value=k), ctx=ast.Load()), s.value)
                            stores.setdefault(u(e), []).append((s, val))
        elif isinstance(s, (ast.AugAssign, ast.AnnAssign)) and isinstance(s.target, ast.Attribute):
            stores.setdefault(u(s.target), []).append((s, getattr(s, 'value', None) if isinstance(s, ast.AnnAssign) else None))
        elif isinstance(s, (ast.For, ast.With)):
            for t in ast.walk(s.target) if isinstance(s, ast.For) else [x for i in s.items if i.optional_vars is not None for x in ast.walk(i.optional_vars)]:
                if isinstance(t, ast.Attribute) and isinstance(t.ctx, ast.Store):
                    stores.setdefault(u(t), []).append((s, None))

    def stored(attr):
        """Text of the one value unconditionally stored to self.<attr> (locals read through), else a description of why not."""
        ss = stores.get(f'{selfp}.{attr}', [])
        if len(ss) != 1:
            return None, f'{len(ss)} stores to {selfp}.{attr}'
        s, val = ss[0]
        if not _on_every_normal_path(cn, s):
            return None, f'{selfp}.{attr} is stored conditionally: {u(s)[:60]}'
        if val is None:
            return None, f'unrecognised store {u(s)[:60]}'
        return u(_subst(cn, val, s)), None

    got_g, why_g = stored('genomes')
    got_i, why_i = stored('sig_indices')
    okt = got_g == f'{sc_text}[0]' and got_i == f'{sc_text}[1]'
    sst_g = stores.get(f'{selfp}.genomes', [(sst, None)])[0][0]
    rep.add('R3', fc.site(sst_g), 'matched genomes and their signature positions are stored in the returned order (genomes, indices)', okt,
            expected=f'{selfp}.genomes = <subset result>[0]; {selfp}.sig_indices = <subset result>[1]',
            found=(why_g or got_g, why_i or got_i), stmt='pair unpack')
    _MUT = ('sort', 'reverse', 'append', 'extend', 'insert', 'pop', 'remove', 'clear', '__setitem__', '__delitem__')
    both = (f'{selfp}.genomes', f'{selfp}.sig_indices', f'{sc_text}[0]', f'{sc_text}[1]')
    touched = [c for c in calls_in(cn) if isinstance(c.func, ast.Attribute) and c.func.attr in _MUT and u(_subst(cn, c.func.value, enclosing_stmt(cn, c, pmc))) in both]
    touched += [t for s in stmts_in(cn.body) if isinstance(s, (ast.Assign, ast.AugAssign, ast.Delete)) for t in (s.targets if hasattr(s, 'targets') else [s.target])
                if isinstance(t, ast.Subscript) and u(_subst(cn, t.value, s)) in both]
    rep.add('R3', fc.site(touched[0] if touched else sst), 'the two matched lists are not modified in place after matching (a re-ordering of one would break the pairing)', not touched,
            expected='no in-place modification', found=[u(t)[:60] for t in touched], stmt='lists unmodified')
    arg = [_subst(cn, a, sst) for a in sc.args]
    rep.add('R3', fc.site(sst), 'ids and the id attribute come from the same signatures object; genomes from the given genome set',
            len(arg) >= 3 and u(arg[0]) == gsetp and u(arg[1]) == f'{sigp}.meta.id_attr' and u(arg[2]) == f'{sigp}.ids',
            expected=f'({gsetp}, {sigp}.meta.id_attr, {sigp}.ids)', found=tuple(u(a) for a in arg), stmt='subset arguments')
    # further arguments are options of the subset function: only constants can be followed into it
    fsub = m.func(f'{MOD}.genomes_by_id_subset')
    sub_p = fsub.params()
    rep.require(not any(isinstance(a, ast.Starred) for a in sc.args) and all(k.arg in sub_p[3:] for k in sc.keywords) and len(sc.args) <= len(sub_p),
                f'ReferenceDatabase.__init__: {u(sc)[:80]} binds parameters of genomes_by_id_subset in a way the rule does not follow')
    sub_opts = {}
    for pname in sub_p[3:]:
        k_ = sub_p.index(pname)
        a_ = sc.args[k_] if k_ < len(sc.args) else next((kw.value for kw in sc.keywords if kw.arg == pname), fsub.param_default(pname))
        rep.require(isinstance(a_, ast.Constant), f'ReferenceDatabase.__init__: option {pname} of genomes_by_id_subset is given as {u(a_)}, not a constant')
        sub_opts[pname] = a_.value
    _require_params(rep, cn, (gsetp, sigp), sst, 'ReferenceDatabase.__init__')
    at = _facts(cn, gmc[sst])
    idt = u(arg[1]) if len(arg) > 1 else None
    rep.add('R3', fc.site(sst), 'a missing id attribute is refused before matching', ('isnot', 'None', idt) in at, expected=f'{idt} is not None on the path', found=sorted(at),
            stmt='id_attr guard')
    # completeness: on the normal exit, len(self.genomes) == genomeset.genomes.count()
    end_guards = _fall_through_guards(cn, gmc)
    last = cn.body[-1]
    rep.require(end_guards is not None, 'ReferenceDatabase.__init__: never completes normally')
    cnt = f'{gsetp}.genomes.count()'
    table = {cnt: lambda: ast.Name(id='SET_COUNT', ctx=ast.Load()),
             f'{sc_text}[0]': lambda: ast.Name(id='MATCHED_GENOMES', ctx=ast.Load()),
             f'{sc_text}[1]': lambda: ast.Name(id='MATCHED_INDICES', ctx=ast.Load())}
    if okt:
        # the attributes hold exactly these values from their (single, unconditional) store on
        table[f'{selfp}.genomes'] = table[f'{sc_text}[0]']
        table[f'{selfp}.sig_indices'] = table[f'{sc_text}[1]']
    eat = set()
    for t, p in _xguards(cn, end_guards):
        a = atoms(_replace(t, table), p)
        if a:
            eat |= a
    want = [Aff({f'len({x})': 1, 'SET_COUNT': -1}) for x in ('MATCHED_GENOMES', 'MATCHED_INDICES')]

    def complete(facts):
        """Do the facts contain: number of matched genomes == number of genomes of the set?"""
        for a in facts:
            dif = None
            if a[0] == 'eq':
                l, r = (Aff.try_of(_parse_expr(x)) if _parse_expr(x) is not None else None for x in a[1:])
                dif = l.sub(r) if l is not None and r is not None else None
            elif a[0] == 'false':      # `if n - len(genomes): raise`  -> zero on the normal exit
                dif = Aff.try_of(_parse_expr(a[1])) if _parse_expr(a[1]) is not None else None
                if dif is not None and not dif.terms:
                    dif = None
            if dif is not None and any(dif == w or dif == w.scale(-1) for w in want):
                return True
        return False
    okc = complete(eat)
    c_site, c_found, c_expected = fc.site(last), sorted(eat), f'len({selfp}.genomes) == {cnt} on every normal exit'
    if not okc and okt:
        # the check may have moved into genomes_by_id_subset (behind an option the constructor passes): what holds where that
        # function returns, under the given options, holds for the lists the constructor stores
        rs0 = [s_ for s_ in stmts_in(fsub.node.body) if isinstance(s_, ast.Return)]
        params_kept = len(rs0) == 1 and all(reaching_def(fsub.node, p_, rs0[0]) is PARAM for p_ in list(sub_opts) + sub_p[:3])
        sn = _specialise(fsub.node, sub_opts)       # the function as it runs with these options
        gms = guard_map(sn)
        rs = [s_ for s_ in stmts_in(sn.body) if isinstance(s_, ast.Return)]
        if params_kept and len(rs) == 1 and isinstance(rs[0].value, ast.Tuple) and len(rs[0].value.elts) == 2:
            tsub = {f'{sub_p[0]}.genomes.count()': table[cnt], u(rs[0].value.elts[0]): table[f'{sc_text}[0]'], u(rs[0].value.elts[1]): table[f'{sc_text}[1]']}
            sat = set()
            for t, p_ in _xguards(sn, gms[rs[0]]):
                a = atoms(_replace(_assume(t, sub_opts), tsub), p_)
                if a:
                    sat |= a
            okc = complete(sat)
            c_site, c_found = fsub.site(rs[0]), sorted(sat) + [f'options {sub_opts}']
            c_expected = f'len(<matched genomes>) == {sub_p[0]}.genomes.count() where genomes_by_id_subset returns (options {sub_opts}), or in the constructor'
            if not okc:
                # a count comparison is there but against another quantity: name it
                for a in sat:
                    if a[0] != 'eq':
                        continue
                    sides = [x for x in a[1:] if x not in ('len(MATCHED_GENOMES)', 'len(MATCHED_INDICES)')]
                    if len(sides) != 1:
                        continue
                    o_ = _parse_expr(sides[0])
                    inner = o_.args[0] if isinstance(o_, ast.Call) and isinstance(o_.func, ast.Name) and o_.func.id == 'len' and len(o_.args) == 1 else None
                    if isinstance(inner, ast.Call) and m.resolve_call(fsub, inner) == f'{MOD}._map_ids_to_genomes':
                        c_found = [f'the matched count is compared with {sides[0]}: the number of DISTINCT id values (genomes sharing an id value collapse into one key), not the number of genomes of the set'] + c_found
                    elif isinstance(inner, ast.Name) and inner.id == sub_p[2]:
                        c_found = [f'the matched count is compared with {sides[0]}: the number of signature ids, not the number of genomes of the set'] + c_found
                    else:
                        raise Undecided(f'genomes_by_id_subset: the matched count is compared with {sides[0]}; whether that is the number of genomes of the set is not evaluated')
    rep.add('R3', c_site, 'a database object exists only if every genome of the set was matched to a signature', okc, expected=c_expected,
            found=c_found, stmt='completeness guard')
    for s in stmts_in(cn.body):
        if isinstance(s, ast.Return):
            rep.add('R3', fc.site(s), 'no early return bypasses the completeness check', False, expected='none', found=u(s), stmt='early return')
    got_s, why_s = stored('signatures')
    got_gs, why_gs = stored('genomeset')
    rep.add('R3', fc.site(), 'the object keeps the very signatures / genome set it was matched against', got_s == sigp and got_gs == gsetp,
            expected=f'{selfp}.signatures = {sigp}; {selfp}.genomeset = {gsetp}', found=(why_s or got_s, why_gs or got_gs), stmt='stored members')

    # ---------------------------------------------------------------------------------- R4
    fk = _follow_delegation(m, m.func(f'{MOD}._check_genome_id_attr'))
    rep.functions.add(fk.qualname)
    gmk = guard_map(fk.node)
    rep.require(len(_own_params(fk)) >= 1, f'{fk.name}: no attribute parameter')
    ap = _own_params(fk)[0]

    def is_id_attrs(text):
        """Is this expression the whitelist Genome.ID_ATTRS (as `Genome.ID_ATTRS`, or `cls.ID_ATTRS` inside a classmethod of Genome)?"""
        e_ = _parse_expr(text)
        if not (isinstance(e_, ast.Attribute) and e_.attr == 'ID_ATTRS'):
            return False
        if isinstance(e_.value, ast.Name) and e_.value.id == 'cls' and fk.cls is not None and fk.params()[:1] == ['cls']:
            return fk.cls.qualname == 'gambit.db.models.Genome'
        return m.resolve(fk.module, e_.value) == 'gambit.db.models.Genome'
    rets_k = [s for s in stmts_in(fk.node.body) if isinstance(s, ast.Return)]
    rep.require(not (len(_body(fk.node)) == 1 and rets_k and isinstance(rets_k[0].value, ast.Call) and not any(isinstance(s, ast.Raise) for s in stmts_in(fk.node.body))),
                f'{fk.name}: hands the attribute to {u(rets_k[0].value)[:60] if rets_k else None} in a way the rule does not follow (not a plain pass-through of its parameters to a known function)')
    lastk = fk.node.body[-1]
    rep.add('R4', fk.site(lastk), 'anything not whitelisted raises ValueError', isinstance(lastk, ast.Raise) and raised_name(lastk) == 'ValueError', expected='raise ValueError',
            found=u(lastk)[:60], stmt='reject')
    for r in [s for s in stmts_in(fk.node.body) if isinstance(s, ast.Return)]:
        rep.require(reaching_def(fk.node, ap, r) is PARAM, f'_check_genome_id_attr: parameter {ap} is rebound before {u(r)[:60]}')
        xg = _xguards(fk.node, gmk[r])
        at = path_atoms(xg)
        in_whitelist = any(a[0] == 'in' and a[1] == ap and is_id_attrs(a[2]) for a in at)
        bp = block_path(fk.node, r)
        loop = next((o for (_, _, o) in reversed(bp) if isinstance(o, ast.For)), None)
        via_loop = loop is not None and is_id_attrs(u(loop.iter)) and any(a[0] == 'is' and ap in a for a in at)
        # `any(attr is getattr(Genome, name) for name in Genome.ID_ATTRS)` holds on the path: the loop above, written as a quantifier
        via_any = False
        for t, p in xg:
            for c in (t.values if isinstance(t, ast.BoolOp) and isinstance(t.op, ast.And) and p else [t]):
                if p and isinstance(c, ast.Call) and isinstance(c.func, ast.Name) and c.func.id == 'any' and len(c.args) == 1 and not c.keywords \
                        and isinstance(c.args[0], (ast.GeneratorExp, ast.ListComp)) and len(c.args[0].generators) == 1:
                    gen = c.args[0].generators[0]
                    ea = atoms(c.args[0].elt, True) or set()
                    if is_id_attrs(u(gen.iter)) and any(a[0] == 'is' and ap in a[1:] for a in ea):
                        via_any = True
        rep.add('R4', fk.site(r), 'an attribute is accepted only when it is one of Genome.ID_ATTRS', in_whitelist or via_loop or via_any, expected='membership in Genome.ID_ATTRS',
                found=sorted(at), stmt=r)
    gcls = m.cls('gambit.db.models.Genome')
    ida = gcls.class_attrs.get('ID_ATTRS')
    rep.require(ida is not None, 'Genome.ID_ATTRS not found')
    names = ast.literal_eval(ida)
    cols_ok = all(n in gcls.class_attrs for n in names)
    rep.add('R4', gcls.site(ida), 'every whitelisted id attribute is a column of Genome', cols_ok and len(names) >= 1, expected='columns', found=names, stmt='ID_ATTRS')

    # ---------------------------------------------------------------------------------- R5
    fl = _unroll_constant_loops(m, m.func(f'{MOD}.ReferenceDatabase.locate_files'))
    rep.functions.add(fl.qualname)
    ln = fl.node
    lastl = ln.body[-1]
    okr = isinstance(lastl, ast.Return) and isinstance(lastl.value, ast.Tuple) and len(lastl.value.elts) == 2
    groups = []    # one _FileGroup per returned position
    if okr:
        cx = _LocateCtx(m, fl)
        for pos, e in enumerate(lastl.value.elts):
            if isinstance(e, ast.Name):
                ds = assigns_to(ln, e.id)
                unpack = ds[0].targets[0] if len(ds) == 1 and isinstance(ds[0], ast.Assign) and len(ds[0].targets) == 1 and isinstance(ds[0].targets[0], (ast.Tuple, ast.List)) else None
                if unpack is not None and all(isinstance(t_, ast.Name) for t_ in unpack.elts) and isinstance(ds[0].value, ast.Name) and ds[0] in ln.body:
                    # a, b = items : the k-th item of a list grown by append / extend statements
                    gr = cx.file_of_item(rep, ds[0].value.id, [t_.id for t_ in unpack.elts].index(e.id), len(unpack.elts), ds[0], e.id)
                else:
                    rep.require(len(ds) == 1 and def_value(ds[0]) is not None, f'locate_files: {e.id} is not bound exactly once by a plain assignment')
                    gr = cx.file_of(rep, def_value(ds[0]), ds[0], e.id)
            else:
                gr = cx.file_of(rep, e, lastl, f'result[{pos}]')      # the file expression written in the return itself
            if gr is None:
                continue        # a violation was recorded
            gr.pos = pos
            groups.append(gr)
        # further conditions on a group are tolerated only when they are implied: `suffix not in <a disjoint literal group>`
        for gr in groups:
            for a in gr.extra:
                implied = False
                if a[0] == 'notin' and a[1] == f'{ELEM}.suffix':
                    try:
                        implied = not set(ast.literal_eval(a[2])) & set(gr.sufs)
                    except Exception:
                        implied = False
                rep.require(implied, f'locate_files: {gr.name} is selected under a further condition the rule cannot evaluate: {a}')
    rep.add('R5', fl.site(lastl), 'returns a (genome file, signature file) pair', okr, expected='(genomes_file, signatures_file)', found=u(lastl)[:80], stmt='locate result pair')
    rep.floor('R5', 'suffix groups in locate_files', len(groups), 2)
    sufs = sorted(tuple(sorted(g.sufs)) for g in groups)
    rep.add('R5', fl.site(), 'the two groups are the genome-database and signature-file extensions', sufs == [('.db', '.gdb'), ('.gs', '.h5')], expected="('.gdb','.db'), ('.gs','.h5')",
            found=sufs, stmt='suffix groups')
    for gr in groups:
        sfx, sq = gr.sufs, gr.sq
        rep.functions.add(gr.fi.qualname)
        rep.add('R5', gr.fi.site(gr.take), f'{sfx}: the match set is checked to hold exactly one file before one is taken', gr.single_ok, expected=gr.single_expected,
                found=gr.single_found, stmt=f'single {sfx}')
        kinds = [_raised_class(m, gr.fi, r) for r in gr.errs]
        rep.require(None not in kinds, f'{gr.fi.name}: cannot tell which exception class {[u(r)[:60] for r, k_ in zip(gr.errs, kinds) if k_ is None]} raises')
        rep.add('R5', gr.fi.site(gr.errs[0] if gr.errs else gr.take), f'{sfx}: DatabaseLoadError is raised when the number of matches is not 1',
                bool(gr.errs) and gr.errs_complete and all(k_ == f'{MOD}.DatabaseLoadError' for k_ in kinds), expected='raise DatabaseLoadError under len(matches) != 1',
                found=[u(r)[:50] for r in gr.errs] + ([] if gr.errs_complete else ['(and a path that neither returns the file nor raises)']), stmt=f'single-match error {sfx}')
        shared_iter = sq.src[0][0] == 'def' and not gr.wrapped and any(o.sq.src[0] == sq.src[0] and o.sq.site is not sq.site for o in groups if o is not gr)
        rep.add('R5', gr.fi.site(sq.site), f'{sfx}: candidates are the direct children of the given directory', sq.elt == ELEM and not sq.notes and not shared_iter
                and gr.src_text in ('path.iterdir()', 'Path(path).iterdir()'), expected='entries of path.iterdir()',
                found=sq.describe() + f' [{gr.src_text}]' + (' (one iterator consumed by both groups)' if shared_iter else ''), stmt=f'candidates {sfx}')
    if any(g.lazy for g in groups):
        rep.trusted.append('Path.iterdir() yields Path objects, never None (so `next(it, None) is None` means the stream is exhausted)')
    gpos = next((g.pos for g in groups if '.gdb' in g.sufs), None)
    spos = next((g.pos for g in groups if '.gs' in g.sufs), None)
    rep.add('R5', fl.site(lastl), 'returns (genome file, signature file) in that order', (gpos, spos) == (0, 1), expected='(genomes_file, signatures_file)', found=u(lastl)[:80], stmt='locate result order')
    # loaders
    fload = m.func(f'{MOD}.ReferenceDatabase.load')
    rep.functions.add(fload.qualname)
    lp = fload.params()
    retl = [s for s in stmts_in(fload.node.body) if isinstance(s, ast.Return)]
    rep.require(len(retl) == 1 and isinstance(retl[0].value, ast.Call), 'ReferenceDatabase.load: no single constructor return')
    ctor = retl[0].value

    cargs = [a for a in ctor.args if not isinstance(a, ast.Starred)]
    ca = [_subst(fload.node, a, retl[0]) for a in cargs]

    def call_of(e, index=None):
        """(resolved callee, argument texts) of a call expression, or of `<call>[index]` when an index is required."""
        if index is not None:
            if not (isinstance(e, ast.Subscript) and is_const(e.slice, index)):
                return None, None
            e = e.value
        if isinstance(e, ast.Call) and not e.keywords:
            return m.resolve_call(fload, e), [u(a) for a in e.args]
        return None, None
    o1 = call_of(ca[0], 1) if len(ca) == 2 else (None, None)
    o2 = call_of(ca[1]) if len(ca) == 2 else (None, None)
    if len(ca) == 2 and o1 == (None, None):
        # load_genomeset written out in place (its body expanded into load): compare with what its own definition returns as
        # second element for this argument
        fls = _follow_delegation(m, m.func(f'{MOD}.load_genomeset'))
        rl = [s_ for s_ in stmts_in(fls.node.body) if isinstance(s_, ast.Return)]
        if len(rl) == 1 and isinstance(rl[0].value, ast.Tuple) and len(rl[0].value.elts) == 2 and len(_own_params(fls)) == 1 and fls.module is fload.module:
            gs_expr = _rename(_subst(fls.node, rl[0].value.elts[1], rl[0]), {_own_params(fls)[0]: ast.Name(id=lp[1], ctx=ast.Load())})
            opened = gs_expr.args[0] if isinstance(gs_expr, ast.Call) and len(gs_expr.args) == 1 and not gs_expr.keywords and m.resolve(fls.module, gs_expr.func) == 'gambit.db.models.only_genomeset' else None
            is_session = isinstance(opened, ast.Call) and not opened.args and not opened.keywords and isinstance(opened.func, ast.Call) \
                and m.resolve(fls.module, opened.func.func) == 'gambit.db.sqla.file_sessionmaker' and [u(a) for a in opened.func.args] == [lp[1]]
            if u(gs_expr) == u(ca[0]) and is_session and reaching_def(fls.node, _own_params(fls)[0], rl[0]) is PARAM:
                o1 = (f'{MOD}.load_genomeset', [lp[1]])
    rep.add('R6', fload.site(retl[0]), 'load() builds the database from the genome set of the genome file and the signatures of the signature file',
            u(ctor.func) == 'cls' and len(ctor.args) == 2 and not ctor.keywords and o1 == (f'{MOD}.load_genomeset', [lp[1]]) and o2 == ('gambit.sigs.base.load_signatures', [lp[2]]),
            expected=f'cls(load_genomeset({lp[1]})[1], load_signatures({lp[2]}))', found=[u(a) for a in ca], stmt='load')
    _require_params(rep, fload.node, (lp[1], lp[2]), retl[0], 'ReferenceDatabase.load')
    fdir = m.func(f'{MOD}.ReferenceDatabase.load_from_dir')
    rep.functions.add(fdir.qualname)
    retd = [s for s in stmts_in(fdir.node.body) if isinstance(s, ast.Return)]
    dparam = fdir.params()[1]
    loc = f'cls.locate_files({dparam})'
    okd, seen_d = False, [u(r)[:80] for r in retd]
    if len(retd) == 1 and isinstance(retd[0].value, ast.Call) and u(retd[0].value.func) == 'cls.load' and not retd[0].value.keywords:
        la = retd[0].value.args
        if len(la) == 1 and isinstance(la[0], ast.Starred):
            seen_d = ['*' + u(_subst(fdir.node, la[0].value, retd[0]))]
            okd = seen_d == ['*' + loc]
        elif not any(isinstance(a, ast.Starred) for a in la):
            seen_d = [u(_subst(fdir.node, a, retd[0])) for a in la]
            okd = seen_d == [f'{loc}[0]', f'{loc}[1]']
    rep.add('R6', fdir.site(), 'load_from_dir passes the located (genome file, signature file) pair to load() in order', okd, expected='cls.load(*cls.locate_files(path))',
            found=seen_d, stmt='load_from_dir')
    if okd:
        _require_params(rep, fdir.node, (dparam,), retd[0], 'ReferenceDatabase.load_from_dir')

    # ---------------------------------------------------------------------------------- R6
    fq = m.func('gambit.query.query')
    rep.functions.add(fq.qualname)
    dbp = fq.params()[0]
    pmq = find_parent_map(fq.node)
    mats = [c for c in calls_in(fq.node) if m.resolve_call(fq, c) == 'gambit.metric.jaccarddist_matrix']
    rep.require(len(mats) == 1, 'query: expected one jaccarddist_matrix call')
    mc = mats[0]
    mst = enclosing_stmt(fq.node, mc, pmq)
    refs, ri = get_arg(mc, 1, 'refs'), get_arg(mc, 2, 'ref_indices')
    refs = refs if refs is None or refs is Ellipsis else _subst(fq.node, refs, mst)
    ri = ri if ri is None or ri is Ellipsis else _subst(fq.node, ri, mst)
    rep.add('R6', fq.site(mc), 'distances are computed against the database signatures selected by the genome<->signature index list of the same object',
            refs is not Ellipsis and ri is not Ellipsis and u(refs) == f'{dbp}.signatures' and u(ri) == f'{dbp}.sig_indices',
            expected=f'({dbp}.signatures, ref_indices={dbp}.sig_indices)', found=(u(refs) if refs is not Ellipsis else '*', u(ri) if ri is not Ellipsis else '*'), stmt='matrix operands')
    items = [c for c in calls_in(fq.node) if m.resolve_call(fq, c) == 'gambit.query.get_result_item']
    item_db = [u(_subst(fq.node, c.args[0], enclosing_stmt(fq.node, c, pmq))) if c.args and not isinstance(c.args[0], ast.Starred) else None for c in items]
    rep.add('R6', fq.site(items[0] if items else mc), 'classification receives the same database object', len(items) == 1 and item_db[0] == dbp,
            expected=f'get_result_item({dbp}, ...)', found=[u(c)[:60] for c in items], stmt='classify operand')
    _require_params(rep, fq.node, (dbp,), mst, 'query')
    if len(items) == 1:
        _require_params(rep, fq.node, (dbp,), enclosing_stmt(fq.node, items[0], pmq), 'query')
    fg = m.func('gambit.query.get_result_item')
    rep.functions.add(fg.qualname)
    pmg = find_parent_map(fg.node)
    gp = fg.params()
    cls_calls = [c for c in calls_in(fg.node) if m.resolve_call(fg, c) == 'gambit.classify.classify']
    okg = False
    seen = []
    if len(cls_calls) == 1 and len(cls_calls[0].args) >= 2 and not any(isinstance(a, ast.Starred) for a in cls_calls[0].args[:2]):
        cst = enclosing_stmt(fg.node, cls_calls[0], pmg)
        seen = [u(_subst(fg.node, a, cst)) for a in cls_calls[0].args[:2]]
        okg = seen == [f'{gp[0]}.genomes', gp[2]]
    rep.add('R6', fg.site(cls_calls[0] if cls_calls else None), 'column j of the distance row is judged with genome j of the same database', okg,
            expected='classify(db.genomes, dists)', found=[u(c)[:60] for c in cls_calls] + seen, stmt='classify genomes')
    if okg:
        _require_params(rep, fg.node, (gp[0], gp[2]), enclosing_stmt(fg.node, cls_calls[0], pmg), 'get_result_item')
    # "every distance reported for a genome is computed from that signature": the matrix must select the reference chunk and the
    # output columns through the same slice of ref_indices (C05-B5), re-evaluated here
    from . import c05
    rep.rule('B5', 'C05-B5 re-evaluated: one slice selects reference chunk (through ref_indices) and output columns; chunk tiling')
    c05.check_matrix(ctx)
    # CLI loader
    fcli = m.func('gambit.cli.common.CLIContext.get_database')
    rep.functions.add(fcli.qualname)
    retc = [s for s in stmts_in(fcli.node.body) if isinstance(s, ast.Return)]
    okc = len(retc) == 1 and isinstance(retc[0].value, ast.Call) and m.resolve_call(fcli, retc[0].value) == f'{MOD}.ReferenceDatabase' and len(retc[0].value.args) == 2 \
        and not isinstance(retc[0].value.args[1], ast.Starred) and u(_subst(fcli.node, retc[0].value.args[1], retc[0])) == 'self.signatures'
    rep.add('R6', fcli.site(retc[0] if retc else None), 'the CLI builds the database through the checked constructor with the located signature file', okc, expected='ReferenceDatabase(gset, self.signatures)',
            found=[u(r)[:80] for r in retc], stmt='cli get_database')


from ..variants import V  # noqa: E402

_R = 'src/gambit/db/refdb.py'
_Q = 'src/gambit/query.py'
_SUBSET_OLD = "\tgenomes_out = []\n\tidxs_out = []\n\n\tfor i, g in enumerate(genomes):\n\t\tif g is not None:\n\t\t\tgenomes_out.append(g)\n\t\t\tidxs_out.append(i)\n"
_BYID_OLD = "\tif strict:\n\t\treturn [d[id_] for id_ in ids]\n\telse:\n\t\treturn [d.get(id_) for id_ in ids]\n"
_INIT_OLD = "\t\tself.genomes, self.sig_indices = genomes_by_id_subset(genomeset, id_attr, signatures.ids)\n\n\t\tn = genomeset.genomes.count()\n\t\tif len(self.genomes) != n:\n\t\t\tmissing = n - len(self.genomes)\n"
_IDLOOP_OLD = "\t\tfor allowed_name in Genome.ID_ATTRS:\n\t\t\tallowed = getattr(Genome, allowed_name)\n\t\t\tif attr is allowed:\n\t\t\t\treturn attr\n"
_SUBSET_CALL_OLD = "\tgenomes = genomes_by_id(genomeset, id_attr, ids, strict=False)\n" + _SUBSET_OLD
_PROLOGUE = "\tid_attr = _check_genome_id_attr(id_attr)\n\t_check_genomes_have_ids(genomeset, id_attr)\n\td = _map_ids_to_genomes(genomeset, id_attr)\n"
_ONEPASS = "\tgenomes_out = []\n\tidxs_out = []\n\n\tfor i, id_ in enumerate(ids):\n\t\tg = d.get(id_)\n\t\tif g is None:\n\t\t\tcontinue\n\t\tgenomes_out.append(g)\n\t\tidxs_out.append(i)\n"
_SUBSET_DEF = "def genomes_by_id_subset(genomeset: ReferenceGenomeSet,"
_TABLE_HELPER = "def _id_table(gset, attr):\n\tattr = _check_genome_id_attr(attr)\n\t_check_genomes_have_ids(gset, attr)\n\treturn _map_ids_to_genomes(gset, attr)\n\n\n"
_NULLCALL = "\t_check_genomes_have_ids(genomeset, id_attr)\n\td = _map_ids_to_genomes(genomeset, id_attr)\n\tif strict:"
_CLASS_DEF = "class ReferenceDatabase:\n"
_INIT_TAIL_OLD = """\t\tid_attr = signatures.meta.id_attr
\t\tif id_attr is None:
\t\t\traise TypeError('id_attr field of signatures metadata cannot be None')

\t\tself.genomes, self.sig_indices = genomes_by_id_subset(genomeset, id_attr, signatures.ids)

\t\tn = genomeset.genomes.count()
\t\tif len(self.genomes) != n:
\t\t\tmissing = n - len(self.genomes)
\t\t\traise ValueError(f'{missing} of {n} genomes not matched to signature IDs. Is the id_attr attribute of the signatures metadata correct?')
"""
_INIT_SPLIT = "\t\tself.genomes, self.sig_indices = _pair_up(genomeset, signatures)\n\t\t_require_complete(genomeset, self.genomes)\n"
_SPLIT_HELPERS = """def _pair_up(gset, sigs):
\tattr = sigs.meta.id_attr
\tif attr is not None:
\t\treturn genomes_by_id_subset(gset, attr, sigs.ids)

\traise TypeError('id_attr field of signatures metadata cannot be None')


def _require_complete(gset, matched):
\ttotal = gset.genomes.count()
\tif len(matched) == total:
\t\treturn

\traise ValueError(f'{total - len(matched)} of {total} genomes not matched to signature IDs.')


"""
_LOADSET_DEF = "def load_genomeset(db_file: 'FilePath')"
_LOCATE_DELEGATED = "\t\tgenomes_file = _the_only(path, _GENOME_EXTS, 'genome database (.gdb or .db)')\n\t\tsignatures_file = _the_only(path, _SIGNATURE_EXTS, 'signature (.gs or .h5)')\n"
_EXT_CONSTS = "_GENOME_EXTS = ('.gdb', '.db')\n_SIGNATURE_EXTS = ('.gs', '.h5')\n\n\n"
_ONLY_EAGER = _EXT_CONSTS + """def _the_only(directory, exts, desc):
\tcandidates = [f for f in directory.iterdir() if f.suffix in exts]
\tif len(candidates) != 1:
\t\traise DatabaseLoadError(f'{"Multiple" if candidates else "No"} {desc} files found in directory {directory}', directory=directory)
\treturn candidates[0]


"""
_ONLY_LAZY = _EXT_CONSTS + """def _the_only(directory, exts, desc):
\tstream = (f for f in directory.iterdir() if f.suffix in exts)
\tfirst = next(stream, None)

\tif first is None:
\t\thow_many = 'No'
\telif next(stream, None) is not None:
\t\thow_many = 'Multiple'
\telse:
\t\treturn first

\traise DatabaseLoadError(f'{how_many} {desc} files found in directory {directory}', directory=directory)


"""
_M = 'src/gambit/db/models.py'
_CHECKATTR_OLD = """\tif isinstance(attr, str) and attr in Genome.ID_ATTRS:
\t\treturn getattr(Genome, attr)

\telif isinstance(attr, InstrumentedAttribute):
\t\tfor allowed_name in Genome.ID_ATTRS:
\t\t\tallowed = getattr(Genome, allowed_name)
\t\t\tif attr is allowed:
\t\t\t\treturn attr

\traise ValueError('Genome ID attribute must be one of the following: ' + ', '.join(Genome.ID_ATTRS))
"""
_GENOME_REPR = "\tdef __repr__(self):\n\t\treturn f'<{type(self).__name__}:{self.id} {self.key!r}>'\n\n\nclass ReferenceGenomeSet(Base):"
_MOVED_CHECK = """\tdef __repr__(self):
\t\treturn f'<{type(self).__name__}:{self.id} {self.key!r}>'

\t@classmethod
\tdef validated_id_attr(cls, attr):
\t\tfrom sqlalchemy.orm.attributes import InstrumentedAttribute
\t\tif isinstance(attr, str) and attr in cls.ID_ATTRS:
\t\t\treturn getattr(cls, attr)

\t\telif isinstance(attr, InstrumentedAttribute):
\t\t\tfor allowed_name in cls.ID_ATTRS:
\t\t\t\tallowed = getattr(cls, allowed_name)
\t\t\t\tif attr is allowed:
\t\t\t\t\treturn attr

\t\traise ValueError('Genome ID attribute must be one of the following: ' + ', '.join(cls.ID_ATTRS))


class ReferenceGenomeSet(Base):"""
_COMPRESS_IMPORT = ("from pathlib import Path\n", "from itertools import compress\nfrom pathlib import Path\n")
_LOCATE_TABLE = """\t\tfound = []

\t\tfor what, exts in _FILE_KINDS:
\t\t\tcandidates = {f for f in path.iterdir() if f.suffix in exts}
\t\t\tif len(candidates) != 1:
\t\t\t\traise DatabaseLoadError.bad_count(len(candidates), what, path)
\t\t\tfound.extend(candidates)

\t\tgenomes_file, signatures_file = found
"""
_KINDS_CONST = "_FILE_KINDS = (\n\t('genome database (.gdb or .db)', ('.gdb', '.db')),\n\t('signature (.gs or .h5)', ('.gs', '.h5')),\n)\n\n\n"
_ERR_CLASS_DEF = "class DatabaseLoadError(Exception):\n"
_ERR_INIT_TAIL = "\t\tself.genomes_file = genomes_file\n\t\tself.signatures_file = signatures_file\n"
_ERR_FACTORY = _ERR_INIT_TAIL + "\n\t@classmethod\n\tdef bad_count(cls, n, what, directory):\n\t\treturn cls(f'{\"Multiple\" if n else \"No\"} {what} files found in directory {directory}', directory=directory)\n"
_LOADSET_OLD = "def load_genomeset(db_file: 'FilePath') -> tuple[Session, ReferenceGenomeSet]:\n\t\"\"\"Get the only :class:`gambit.db.models.ReferenceGenomeSet` from a genomes database file.\"\"\"\n\tsession = file_sessionmaker(db_file)()\n\tgset = only_genomeset(session)\n\treturn session, gset\n"
_LOADSET_ALIAS = "def load_genomeset(db_file: 'FilePath') -> tuple[Session, ReferenceGenomeSet]:\n\treturn ReferenceDatabase.open_genomeset(db_file)\n"
_LOCATE_DECO = "\t@classmethod\n\tdef locate_files(cls, path: 'FilePath') -> tuple[Path, Path]:\n"
_OPEN_STATIC = "\t@staticmethod\n\tdef open_genomeset(db_file):\n\t\tsession = file_sessionmaker(db_file)()\n\t\tgset = only_genomeset(session)\n\t\treturn session, gset\n\n"
_FIND_CALLS = "\t\tgenomes_file = _find_one(path, _GENOME_EXTS, 'genome database (.gdb or .db)')\n\t\tsignatures_file = _find_one(path, _SIGNATURE_EXTS, 'signature (.gs or .h5)')\n"
_FIND_POOLED = _EXT_CONSTS + """def _find_one(directory, extensions, desc):
\tfiles = sorted(directory.iterdir())
\tmatches = [f for f in files if f.suffix in extensions]
\tif len(matches) > 1:
\t\traise DatabaseLoadError(f'Multiple {desc} files found in directory {directory}', directory=directory)
\tif matches:
\t\treturn matches[0]

\traise DatabaseLoadError(f'No {desc} files found in directory {directory}', directory=directory)


"""
_FIND_PER_EXT = _EXT_CONSTS + """def _find_one(directory, extensions, desc):
\tfiles = sorted(directory.iterdir())

\tfor ext in extensions:
\t\tmatches = [f for f in files if f.suffix == ext]
\t\tif len(matches) > 1:
\t\t\traise DatabaseLoadError(f'Multiple {desc} files found in directory {directory}', directory=directory)
\t\tif matches:
\t\t\treturn matches[0]

\traise DatabaseLoadError(f'No {desc} files found in directory {directory}', directory=directory)


"""
_MAPQ_OLD = "\tq = genomeset.genomes.join(AnnotatedGenome.genome).add_columns(id_attr)\n\treturn {id_: g for g, id_ in q}"
_MAPQ_SELFCHECK = "\tid_attr = _check_genome_id_attr(id_attr)\n\t_check_genomes_have_ids(genomeset, id_attr)\n" + _MAPQ_OLD
_BYID_PROLOGUE_OLD = "\tid_attr = _check_genome_id_attr(id_attr)\n\t_check_genomes_have_ids(genomeset, id_attr)\n\td = _map_ids_to_genomes(genomeset, id_attr)\n\tif strict:"
_BYID_PROLOGUE_NEW = "\td = _map_ids_to_genomes(genomeset, id_attr)\n\tif strict:"
_SUBSET_SIG_OLD = "                         ids: Sequence,\n                         ) -> tuple[list[AnnotatedGenome], list[int]]:"
_SUBSET_SIG_NEW = "                         ids: Sequence,\n                         require_all: bool = False,\n                         ) -> tuple[list[AnnotatedGenome], list[int]]:"
_SUBSET_REQUIRE_ALL = """\td = _map_ids_to_genomes(genomeset, id_attr)
\tidxs_out = [i for i, id_ in enumerate(ids) if id_ in d]
\tgenomes_out = [d[ids[i]] for i in idxs_out]

\tif require_all and len(genomes_out) != TOTAL:
\t\tmissing = TOTAL - len(genomes_out)
\t\traise ValueError(f'{missing} of {TOTAL} genomes not matched to signature IDs.')
"""
_INIT_CHECK_OLD = """\t\tself.genomes, self.sig_indices = genomes_by_id_subset(genomeset, id_attr, signatures.ids)

\t\tn = genomeset.genomes.count()
\t\tif len(self.genomes) != n:
\t\t\tmissing = n - len(self.genomes)
\t\t\traise ValueError(f'{missing} of {n} genomes not matched to signature IDs. Is the id_attr attribute of the signatures metadata correct?')
"""
_INIT_REQUIRE_ALL = "\t\tself.genomes, self.sig_indices = genomes_by_id_subset(genomeset, id_attr, signatures.ids, require_all=True)\n"


def _moved_check(total, init=_INIT_REQUIRE_ALL, mapq=_MAPQ_SELFCHECK, body=_SUBSET_REQUIRE_ALL):
    """Edits of the 'completeness check moved into genomes_by_id_subset(require_all=True), validation moved into the id map' refactoring;
    `total` is what the matched count is compared with."""
    return ((_R, _BYID_PROLOGUE_OLD, _BYID_PROLOGUE_NEW), (_R, _SUBSET_SIG_OLD, _SUBSET_SIG_NEW), (_R, _SUBSET_CALL_OLD, body.replace('TOTAL', total)), (_R, _INIT_CHECK_OLD, init)), mapq


_LOCATE_OLD = """\t\tdef check_single_match(matches, desc: str):
\t\t\tn = len(matches)
\t\t\tif n != 1:
\t\t\t\traise DatabaseLoadError(
\t\t\t\t\tf'{"Multiple" if n else "No"} {desc} files found in directory {path}',
\t\t\t\t\tdirectory=path,
\t\t\t\t)

\t\tgenomes_matches = {f for f in path.iterdir() if f.suffix in ('.gdb', '.db')}
\t\tcheck_single_match(genomes_matches, 'genome database (.gdb or .db)')
\t\tgenomes_file = genomes_matches.pop()

\t\tsignatures_matches = {f for f in path.iterdir() if f.suffix in ('.gs', '.h5')}
\t\tcheck_single_match(signatures_matches, 'signature (.gs or .h5)')
\t\tsignatures_file = signatures_matches.pop()
"""
_LOCATE_ONEPASS = """\t\tgenomes_matches = []
\t\tsignatures_matches = []

\t\tfor f in path.iterdir():
\t\t\tif f.suffix in ('.gdb', '.db'):
\t\t\t\tgenomes_matches.append(f)
\t\t\telif f.suffix in ('.gs', '.h5'):
\t\t\t\tsignatures_matches.append(f)

\t\tdef pick_only(matches: list, desc: str) -> Path:
\t\t\tif len(matches) == 1:
\t\t\t\treturn matches[0]
\t\t\tcount = 'Multiple' if matches else 'No'
\t\t\traise DatabaseLoadError(
\t\t\t\tf'{count} {desc} files found in directory {path}',
\t\t\t\tdirectory=path,
\t\t\t)

\t\tgenomes_file = pick_only(genomes_matches, 'genome database (.gdb or .db)')
\t\tsignatures_file = pick_only(signatures_matches, 'signature (.gs or .h5)')
"""
_LOCATE_LISTED = """\t\tfiles = list(path.iterdir())

\t\tdef pick_only(extensions, desc: str) -> Path:
\t\t\tmatches = [f for f in files if f.suffix in extensions]
\t\t\tif len(matches) == 1:
\t\t\t\treturn matches[0]
\t\t\tcount = 'Multiple' if matches else 'No'
\t\t\traise DatabaseLoadError(
\t\t\t\tf'{count} {desc} files found in directory {path}',
\t\t\t\tdirectory=path,
\t\t\t)

\t\tgenomes_file = pick_only(('.gdb', '.db'), 'genome database (.gdb or .db)')
\t\tsignatures_file = pick_only(('.gs', '.h5'), 'signature (.gs or .h5)')
"""
VARIANTS = [
    V('index = running count', 'B', _R, "\t\t\tidxs_out.append(i)\n", "\t\t\tidxs_out.append(len(idxs_out))\n", 'R1'),
    V('index append outside the guard', 'B', _R, "\t\tif g is not None:\n\t\t\tgenomes_out.append(g)\n\t\t\tidxs_out.append(i)\n", "\t\tif g is not None:\n\t\t\tgenomes_out.append(g)\n\t\tidxs_out.append(i)\n", 'R1'),
    V('dict orientation swapped', 'B', _R, "return {id_: g for g, id_ in q}", "return {g: id_ for g, id_ in q}", 'R2'),
    V('completeness raise deleted', 'B', _R, "\t\tif len(self.genomes) != n:\n\t\t\tmissing = n - len(self.genomes)\n\t\t\traise ValueError(f'{missing} of {n} genomes not matched to signature IDs. Is the id_attr attribute of the signatures metadata correct?')\n",
      "\t\tmissing = n - len(self.genomes)\n", 'R3'),
    V('completeness != weakened to <', 'B', _R, "if len(self.genomes) != n:", "if len(self.genomes) > n:", 'R3'),
    V('id_attr None raise deleted', 'B', _R, "\t\tif id_attr is None:\n\t\t\traise TypeError('id_attr field of signatures metadata cannot be None')\n", "", 'R3'),
    V('n > 1 instead of n != 1', 'B', _R, "\t\t\tif n != 1:", "\t\t\tif n > 1:", 'R5'),
    V('strict lookup in the subset', 'B', _R, "genomes = genomes_by_id(genomeset, id_attr, ids, strict=False)", "genomes = genomes_by_id(genomeset, id_attr, ids, strict=True)", 'R1'),
    V('ref_indices omitted in query', 'B', 'src/gambit/query.py', "\t\tref_indices=db.sig_indices,\n", "", 'R6'),
    V('genomes/indices unpacked crossed', 'B', _R, "self.genomes, self.sig_indices = genomes_by_id_subset", "self.sig_indices, self.genomes = genomes_by_id_subset", 'R3'),
    V('ids from another attribute', 'B', _R, "genomes_by_id_subset(genomeset, id_attr, signatures.ids)", "genomes_by_id_subset(genomeset, id_attr, range(len(signatures)))", 'R3'),
    V('lookup iterates sorted ids', 'B', _R, "return [d.get(id_) for id_ in ids]", "return [d.get(id_) for id_ in sorted(ids)]", None),
    V('signature pop without check', 'B', _R, "\t\tcheck_single_match(signatures_matches, 'signature (.gs or .h5)')\n", "", 'R5'),
    V('whitelist bypass for strings', 'B', _R, "\tif isinstance(attr, str) and attr in Genome.ID_ATTRS:", "\tif isinstance(attr, str):", 'R4'),
    V('locate returns crossed', 'B', _R, "\t\treturn genomes_file, signatures_file\n", "\t\treturn signatures_file, genomes_file\n", 'R5'),
    V('contiguous-run slice path in the matrix (seeded C04b, reduced)', 'B', 'src/gambit/metric.py', "idx = ref_slice if ref_indices is None else ref_indices[ref_slice]",
      "idx = ref_slice if ref_indices is None else slice(ref_indices[0] + ref_slice.start, ref_indices[0] + ref_slice.stop)", 'B5'),
    V('E: guard written as early continue', 'E', _R, "\t\tif g is not None:\n\t\t\tgenomes_out.append(g)\n\t\t\tidxs_out.append(i)\n",
      "\t\tif g is None:\n\t\t\tcontinue\n\t\tgenomes_out.append(g)\n\t\tidxs_out.append(i)\n"),
    V('E: completeness compared the other way round', 'E', _R, "if len(self.genomes) != n:", "if n != len(self.genomes):"),
    # ---- generalised idioms: every E (new accepted form) is followed by its broken twin(s) B in the same shape
    V('E: (index, genome) pair comprehension + two projections', 'E', _R, _SUBSET_OLD,
      "\tmatched = [(i, g) for i, g in enumerate(genomes) if g is not None]\n\tgenomes_out = [g for _, g in matched]\n\tidxs_out = [i for i, _ in matched]\n"),
    V('pair comprehension: projections swapped', 'B', _R, _SUBSET_OLD,
      "\tmatched = [(i, g) for i, g in enumerate(genomes) if g is not None]\n\tgenomes_out = [g for g, _ in matched]\n\tidxs_out = [i for _, i in matched]\n", 'R1'),
    V('pair comprehension: index = rank in the filtered list', 'B', _R, _SUBSET_OLD,
      "\tmatched = [(i, g) for i, g in enumerate(genomes) if g is not None]\n\tgenomes_out = [g for _, g in matched]\n\tidxs_out = [i for i, _ in enumerate(matched)]\n", 'R1'),
    V('E: index comprehension, genomes looked up by those indices', 'E', _R, _SUBSET_OLD,
      "\tidxs_out = [i for i, g in enumerate(genomes) if g is not None]\n\tgenomes_out = [genomes[i] for i in idxs_out]\n"),
    V('index comprehension: genomes looked up by rank', 'B', _R, _SUBSET_OLD,
      "\tidxs_out = [i for i, g in enumerate(genomes) if g is not None]\n\tgenomes_out = [genomes[i] for i in range(len(idxs_out))]\n", 'R1'),
    V('index comprehension: enumerate starts at 1', 'B', _R, _SUBSET_OLD,
      "\tidxs_out = [i for i, g in enumerate(genomes, 1) if g is not None]\n\tgenomes_out = [g for g in genomes if g is not None]\n", 'R1'),
    V('E: two independent comprehensions under the same filter', 'E', _R, _SUBSET_OLD,
      "\tgenomes_out = [g for g in genomes if g is not None]\n\tidxs_out = [i for i, g in enumerate(genomes) if g is not None]\n"),
    V('two comprehensions: index list not filtered', 'B', _R, _SUBSET_OLD,
      "\tgenomes_out = [g for g in genomes if g is not None]\n\tidxs_out = [i for i, g in enumerate(genomes)]\n", 'R1'),
    V('two comprehensions: indices of the unmatched ids', 'B', _R, _SUBSET_OLD,
      "\tgenomes_out = [g for g in genomes if g is not None]\n\tidxs_out = [i for i, g in enumerate(genomes) if g is None]\n", 'R1'),
    V('E: loop over range(len()), entry bound to a local', 'E', _R, "\tfor i, g in enumerate(genomes):\n\t\tif g is not None:\n", "\tfor i in range(len(genomes)):\n\t\tg = genomes[i]\n\t\tif g is not None:\n"),
    V('range(len()) loop: entry read at another position', 'B', _R, "\tfor i, g in enumerate(genomes):\n\t\tif g is not None:\n", "\tfor i in range(len(genomes)):\n\t\tg = genomes[i - 1]\n\t\tif g is not None:\n", 'R1'),
    V('E: lookup function selected once by strict', 'E', _R, _BYID_OLD, "\tlookup = d.__getitem__ if strict else d.get\n\treturn [lookup(id_) for id_ in ids]\n"),
    V('lookup function selection inverted', 'B', _R, _BYID_OLD, "\tlookup = d.get if strict else d.__getitem__\n\treturn [lookup(id_) for id_ in ids]\n", 'R1'),
    V('lookup function: non-strict falls back to the first genome', 'B', _R, _BYID_OLD, "\tlookup = d.__getitem__ if strict else d.get\n\treturn [lookup(id_) for id_ in sorted(ids)]\n", 'R1'),
    V('E: conditional expression per element', 'E', _R, _BYID_OLD, "\treturn [d[id_] if strict else d.get(id_) for id_ in ids]\n"),
    V('conditional expression per element inverted', 'B', _R, _BYID_OLD, "\treturn [d.get(id_) if strict else d[id_] for id_ in ids]\n", 'R1'),
    V('E: ids copied to a list first', 'E', _R, _BYID_OLD, "\tid_list = list(ids)\n\tif strict:\n\t\treturn [d[id_] for id_ in id_list]\n\telse:\n\t\treturn [d.get(id_) for id_ in id_list]\n"),
    V('E: ids parameter rebound to a list copy of itself', 'E', _R, _BYID_OLD, "\tids = list(ids)\n" + _BYID_OLD),
    V('ids parameter rebound to a transformed list', 'B', _R, _BYID_OLD, "\tids = [str(id_).strip() for id_ in ids]\n" + _BYID_OLD, 'R1'),
    V('ids sorted into a local first', 'B', _R, _BYID_OLD, "\tid_list = sorted(ids)\n\tif strict:\n\t\treturn [d[id_] for id_ in id_list]\n\telse:\n\t\treturn [d.get(id_) for id_ in id_list]\n", 'R1'),
    V('E: subset result bound to locals, then stored; completeness on the difference', 'E', _R, _INIT_OLD,
      "\t\tgenomes, sig_indices = genomes_by_id_subset(genomeset, id_attr, signatures.ids)\n\t\tself.genomes = genomes\n\t\tself.sig_indices = sig_indices\n\n\t\tn = genomeset.genomes.count()\n\t\tmissing = n - len(genomes)\n\t\tif missing != 0:\n"),
    V('locals stored crossed', 'B', _R, _INIT_OLD,
      "\t\tgenomes, sig_indices = genomes_by_id_subset(genomeset, id_attr, signatures.ids)\n\t\tself.genomes = sig_indices\n\t\tself.sig_indices = genomes\n\n\t\tn = genomeset.genomes.count()\n\t\tmissing = n - len(genomes)\n\t\tif missing != 0:\n", 'R3'),
    V('completeness on the difference, only one direction', 'B', _R, _INIT_OLD,
      "\t\tgenomes, sig_indices = genomes_by_id_subset(genomeset, id_attr, signatures.ids)\n\t\tself.genomes = genomes\n\t\tself.sig_indices = sig_indices\n\n\t\tn = genomeset.genomes.count()\n\t\tmissing = n - len(genomes)\n\t\tif missing > 1:\n", 'R3'),
    V('locals stored after re-sorting the genomes only', 'B', _R, _INIT_OLD,
      "\t\tgenomes, sig_indices = genomes_by_id_subset(genomeset, id_attr, signatures.ids)\n\t\tself.genomes = sorted(genomes, key=lambda g: g.genome_id)\n\t\tself.sig_indices = sig_indices\n\n\t\tn = genomeset.genomes.count()\n\t\tmissing = n - len(genomes)\n\t\tif missing != 0:\n", 'R3'),
    V('stored genome list sorted in place afterwards', 'B', _R, "\t\tn = genomeset.genomes.count()\n", "\t\tself.genomes.sort(key=lambda g: g.genome_id)\n\t\tn = genomeset.genomes.count()\n", 'R3'),
    V('completeness counts another list', 'B', _R, _INIT_OLD,
      "\t\tgenomes, sig_indices = genomes_by_id_subset(genomeset, id_attr, signatures.ids)\n\t\tself.genomes = genomes\n\t\tself.sig_indices = sig_indices\n\n\t\tn = genomeset.genomes.count()\n\t\tmissing = n - len(signatures.ids)\n\t\tif missing != 0:\n", 'R3'),
    V('E: completeness tested by truthiness of the difference', 'E', _R, "\t\tif len(self.genomes) != n:\n", "\t\tif n - len(self.genomes):\n"),
    V('truthiness of the difference inverted', 'B', _R, "\t\tif len(self.genomes) != n:\n", "\t\tif not (n - len(self.genomes)):\n", 'R3'),
    V('E: id_attr read inline (no local)', 'E', _R, "\t\tid_attr = signatures.meta.id_attr\n\t\tif id_attr is None:\n", "\t\tif signatures.meta.id_attr is None:\n",
      also=((_R, "genomes_by_id_subset(genomeset, id_attr, signatures.ids)", "genomes_by_id_subset(genomeset, signatures.meta.id_attr, signatures.ids)"),)),
    V('id_attr read inline, guard tests the metadata object instead', 'B', _R, "\t\tid_attr = signatures.meta.id_attr\n\t\tif id_attr is None:\n", "\t\tif signatures.meta is None:\n",
      'R3', also=((_R, "genomes_by_id_subset(genomeset, id_attr, signatures.ids)", "genomes_by_id_subset(genomeset, signatures.meta.id_attr, signatures.ids)"),)),
    V('E: whitelist condition bound to a name first', 'E', _R, "\tif isinstance(attr, str) and attr in Genome.ID_ATTRS:\n", "\tis_valid_name = isinstance(attr, str) and attr in Genome.ID_ATTRS\n\tif is_valid_name:\n"),
    V('named whitelist condition without the membership test', 'B', _R, "\tif isinstance(attr, str) and attr in Genome.ID_ATTRS:\n", "\tis_valid_name = isinstance(attr, str) and hasattr(Genome, attr)\n\tif is_valid_name:\n", 'R4'),
    V('E: identity search written with any()', 'E', _R, _IDLOOP_OLD, "\t\tif any(attr is getattr(Genome, name) for name in Genome.ID_ATTRS):\n\t\t\treturn attr\n"),
    V('any() searches every attribute of Genome', 'B', _R, _IDLOOP_OLD, "\t\tif any(attr is getattr(Genome, name, None) for name in dir(Genome)):\n\t\t\treturn attr\n", 'R4'),
    V('any() tests the type only', 'B', _R, _IDLOOP_OLD, "\t\tif any(isinstance(attr, type(getattr(Genome, name))) for name in Genome.ID_ATTRS):\n\t\t\treturn attr\n", 'R4'),
    V('E: one directory pass sorting entries into two lists; helper returns the single entry', 'E', _R, _LOCATE_OLD, _LOCATE_ONEPASS),
    V('one directory pass: helper accepts any non-empty list', 'B', _R, _LOCATE_OLD, _LOCATE_ONEPASS.replace("if len(matches) == 1:", "if len(matches) >= 1:"), 'R5'),
    V('one directory pass: entries sorted into the wrong lists', 'B', _R, _LOCATE_OLD,
      _LOCATE_ONEPASS.replace("\t\t\t\tgenomes_matches.append(f)", "\t\t\t\tTMP.append(f)").replace("\t\t\t\tsignatures_matches.append(f)", "\t\t\t\tgenomes_matches.append(f)").replace("TMP.append", "signatures_matches.append"), 'R5'),
    V('one directory pass: wrong error type', 'B', _R, _LOCATE_OLD, _LOCATE_ONEPASS.replace("raise DatabaseLoadError(", "raise FileNotFoundError(").replace("\t\t\t\tdirectory=path,\n", ""), 'R5'),
    V('E: directory listed once, helper filters by extension', 'E', _R, _LOCATE_OLD, _LOCATE_LISTED),
    V('directory iterator shared by both groups (second group always empty)', 'B', _R, _LOCATE_OLD, _LOCATE_LISTED.replace("files = list(path.iterdir())", "files = path.iterdir()"), 'R5'),
    V('listed once: helper takes the first of several', 'B', _R, _LOCATE_OLD, _LOCATE_LISTED.replace("if len(matches) == 1:", "if matches:"), 'R5'),
    V('E: guard clause in the function body instead of a checking helper', 'E', _R, "\t\tcheck_single_match(genomes_matches, 'genome database (.gdb or .db)')\n",
      "\t\tif len(genomes_matches) != 1:\n\t\t\traise DatabaseLoadError('genome database file not unique', directory=path)\n"),
    V('guard clause only refuses several files', 'B', _R, "\t\tcheck_single_match(genomes_matches, 'genome database (.gdb or .db)')\n",
      "\t\tif len(genomes_matches) > 1:\n\t\t\traise DatabaseLoadError('genome database file not unique', directory=path)\n", 'R5'),
    V('E: located pair passed on by star-unpacking', 'E', _R, "\t\tgenomes_file, signatures_file = cls.locate_files(path)\n\t\treturn cls.load(genomes_file, signatures_file)", "\t\treturn cls.load(*cls.locate_files(path))"),
    V('star-unpacked pair reversed', 'B', _R, "\t\tgenomes_file, signatures_file = cls.locate_files(path)\n\t\treturn cls.load(genomes_file, signatures_file)", "\t\treturn cls.load(*reversed(cls.locate_files(path)))", 'R6'),
    V('E: located pair kept as one local and indexed', 'E', _R, "\t\tgenomes_file, signatures_file = cls.locate_files(path)\n\t\treturn cls.load(genomes_file, signatures_file)",
      "\t\tfiles = cls.locate_files(path)\n\t\treturn cls.load(files[0], files[1])"),
    V('located pair indexed crossed', 'B', _R, "\t\tgenomes_file, signatures_file = cls.locate_files(path)\n\t\treturn cls.load(genomes_file, signatures_file)",
      "\t\tfiles = cls.locate_files(path)\n\t\treturn cls.load(files[1], files[0])", 'R6'),
    V('E: load() without intermediate locals', 'E', _R, "\t\tsession, gset = load_genomeset(genomes_file)\n\t\tsigs = load_signatures(signatures_file)\n\t\treturn cls(gset, sigs)",
      "\t\treturn cls(load_genomeset(genomes_file)[1], load_signatures(signatures_file))"),
    V('load() passes the session instead of the genome set', 'B', _R, "\t\tsession, gset = load_genomeset(genomes_file)\n\t\tsigs = load_signatures(signatures_file)\n\t\treturn cls(gset, sigs)",
      "\t\treturn cls(load_genomeset(genomes_file)[0], load_signatures(signatures_file))", 'R6'),
    V('file taken from the other (not yet built) match set', 'B', _R, "genomes_file = genomes_matches.pop()", "genomes_file = signatures_matches.pop()", 'R5'),
    V('E: db.genomes bound to a local before classification', 'E', _Q, "\tclsresult = classify(db.genomes, dists, strict=params.classify_strict)\n",
      "\tgenomes = db.genomes\n\tclsresult = classify(genomes, dists, strict=params.classify_strict)\n"),
    V('local holds the genome set order instead of the matched order', 'B', _Q, "\tclsresult = classify(db.genomes, dists, strict=params.classify_strict)\n",
      "\tgenomes = list(db.genomeset.genomes)\n\tclsresult = classify(genomes, dists, strict=params.classify_strict)\n", 'R6'),
    V('E: index list bound to a local before the matrix call', 'E', _Q, "\tdmat = jaccarddist_matrix(\n", "\tsig_indices = db.sig_indices\n\tdmat = jaccarddist_matrix(\n",
      also=((_Q, "\t\tref_indices=db.sig_indices,\n", "\t\tref_indices=sig_indices,\n"),)),
    V('local index list dropped when the counts agree (seeded C04a, reduced)', 'B', _Q, "\tdmat = jaccarddist_matrix(\n",
      "\tsig_indices = db.sig_indices if len(db.sig_indices) < len(db.signatures) else None\n\tdmat = jaccarddist_matrix(\n", 'R6',
      also=((_Q, "\t\tref_indices=db.sig_indices,\n", "\t\tref_indices=sig_indices,\n"),)),
    # ---- second pass: lookups made by the subset function itself, NULL-id guard (R7), split constructor, delegated / lazy single-file search
    V('E: subset looks the ids up itself in one pass', 'E', _R, _SUBSET_CALL_OLD, _PROLOGUE + _ONEPASS),
    V('E: subset looks the ids up itself, id map from an extracted helper', 'E', _R, _SUBSET_CALL_OLD, "\td = _id_table(genomeset, id_attr)\n" + _ONEPASS, also=((_R, _SUBSET_DEF, _TABLE_HELPER + _SUBSET_DEF),)),
    V('own lookup: id attribute not validated', 'B', _R, _SUBSET_CALL_OLD, "\t_check_genomes_have_ids(genomeset, id_attr)\n\td = _map_ids_to_genomes(genomeset, id_attr)\n" + _ONEPASS, 'R4'),
    V('own lookup: NULL-id check dropped', 'B', _R, _SUBSET_CALL_OLD, "\tid_attr = _check_genome_id_attr(id_attr)\n\td = _map_ids_to_genomes(genomeset, id_attr)\n" + _ONEPASS, 'R7'),
    V('own lookup: strict subscript (unrelated signature raises KeyError)', 'B', _R, _SUBSET_CALL_OLD, _PROLOGUE + _ONEPASS.replace("g = d.get(id_)", "g = d[id_]"), 'R1'),
    V('own lookup: index appended before the skip', 'B', _R, _SUBSET_CALL_OLD, _PROLOGUE + _ONEPASS.replace("\t\tg = d.get(id_)\n", "\t\tidxs_out.append(i)\n\t\tg = d.get(id_)\n").replace("\t\tgenomes_out.append(g)\n\t\tidxs_out.append(i)\n", "\t\tgenomes_out.append(g)\n"), 'R1'),
    V('own lookup: the id itself is collected', 'B', _R, _SUBSET_CALL_OLD, _PROLOGUE + _ONEPASS.replace("genomes_out.append(g)", "genomes_out.append(id_)"), 'R1'),
    V('own lookup: helper builds the map for another attribute', 'B', _R, _SUBSET_CALL_OLD, "\td = _id_table(genomeset, 'key')\n" + _ONEPASS, 'R4', also=((_R, _SUBSET_DEF, _TABLE_HELPER + _SUBSET_DEF),)),
    V('E: lookup list inlined as an unfiltered comprehension', 'E', _R, "\tgenomes = genomes_by_id(genomeset, id_attr, ids, strict=False)\n", _PROLOGUE + "\tgenomes = [d.get(id_) for id_ in ids]\n"),
    V('inlined lookup list drops the unknown ids (positions shift)', 'B', _R, "\tgenomes = genomes_by_id(genomeset, id_attr, ids, strict=False)\n", _PROLOGUE + "\tgenomes = [d.get(id_) for id_ in ids if id_ in d]\n", 'R1'),
    V('appended genome list never filled', 'B', _R, "\t\t\tgenomes_out.append(g)\n", "", 'R1'),
    V('NULL-id check call deleted', 'B', _R, _NULLCALL, "\td = _map_ids_to_genomes(genomeset, id_attr)\n\tif strict:", 'R7'),
    V('NULL-id check: polarity inverted', 'B', _R, "\tif c > 0:\n\t\traise RuntimeError", "\tif not c > 0:\n\t\traise RuntimeError", 'R7'),
    V('NULL-id check: raises for zero too', 'B', _R, "\tif c > 0:\n\t\traise RuntimeError", "\tif c >= 0:\n\t\traise RuntimeError", 'R7'),
    V('NULL-id check: tolerates one genome without id', 'B', _R, "\tif c > 0:\n\t\traise RuntimeError", "\tif c > 1:\n\t\traise RuntimeError", 'R7'),
    V('NULL-id check: counts the genomes that HAVE an id', 'B', _R, ".filter(id_attr == None)", ".filter(id_attr != None)", 'R7'),
    V('NULL-id check: arguments swapped', 'B', _R, "\t_check_genomes_have_ids(genomeset, id_attr)\n\td = ", "\t_check_genomes_have_ids(id_attr, genomeset)\n\td = ", 'R7'),
    V('E: NULL-id count tested by truthiness', 'E', _R, "\tif c > 0:\n\t\traise RuntimeError", "\tif c:\n\t\traise RuntimeError"),
    V('E: NULL-id count tested with != 0', 'E', _R, "\tif c > 0:\n\t\traise RuntimeError", "\tif c != 0:\n\t\traise RuntimeError"),
    V('NULL-id count tested for negative only', 'B', _R, "\tif c > 0:\n\t\traise RuntimeError", "\tif c < 0:\n\t\traise RuntimeError", 'R7'),
    V('E: NULL-id check only when None is a key of the id map', 'E', _R, _NULLCALL, "\td = _map_ids_to_genomes(genomeset, id_attr)\n\tif None in d:\n\t\t_check_genomes_have_ids(genomeset, id_attr)\n\tif strict:"),
    V('NULL-id check only when None is NOT a key', 'B', _R, _NULLCALL, "\td = _map_ids_to_genomes(genomeset, id_attr)\n\tif None not in d:\n\t\t_check_genomes_have_ids(genomeset, id_attr)\n\tif strict:", 'R7'),
    V('NULL-id check only when None is among the requested ids', 'B', _R, _NULLCALL, "\td = _map_ids_to_genomes(genomeset, id_attr)\n\tif None in ids:\n\t\t_check_genomes_have_ids(genomeset, id_attr)\n\tif strict:", 'R7'),
    V('E: None key of the id map raises directly', 'E', _R, _NULLCALL, "\td = _map_ids_to_genomes(genomeset, id_attr)\n\tif None in d:\n\t\traise RuntimeError('genomes missing value for ID attribute')\n\tif strict:"),
    V('None key raises only in strict mode', 'B', _R, _NULLCALL, "\td = _map_ids_to_genomes(genomeset, id_attr)\n\tif None in d and strict:\n\t\traise RuntimeError('genomes missing value for ID attribute')\n\tif strict:", 'R7'),
    V('NULL-id check after the strict return', 'B', _R, _NULLCALL + "\n\t\treturn [d[id_] for id_ in ids]\n\telse:\n", "\td = _map_ids_to_genomes(genomeset, id_attr)\n\tif strict:\n\t\treturn [d[id_] for id_ in ids]\n\telse:\n\t\t_check_genomes_have_ids(genomeset, id_attr)\n", 'R7'),
    V('E: constructor split into a matching step (inverted guard) and a completeness step (early return)', 'E', _R, _INIT_TAIL_OLD, _INIT_SPLIT, also=((_R, _CLASS_DEF, _SPLIT_HELPERS + _CLASS_DEF),)),
    V('split constructor: matching step guard inverted the wrong way', 'B', _R, _INIT_TAIL_OLD, _INIT_SPLIT, 'R3', also=((_R, _CLASS_DEF, _SPLIT_HELPERS.replace("if attr is not None:", "if attr is None:") + _CLASS_DEF),)),
    V('split constructor: completeness step returns early for too few as well', 'B', _R, _INIT_TAIL_OLD, _INIT_SPLIT, 'R3', also=((_R, _CLASS_DEF, _SPLIT_HELPERS.replace("if len(matched) == total:", "if len(matched) <= total:") + _CLASS_DEF),)),
    V('split constructor: completeness step checks the index list of another call', 'B', _R, _INIT_TAIL_OLD, _INIT_SPLIT.replace("_require_complete(genomeset, self.genomes)", "_require_complete(genomeset, signatures.ids)"), 'R3',
      also=((_R, _CLASS_DEF, _SPLIT_HELPERS + _CLASS_DEF),)),
    V('E: store in the arm whose alternative raises', 'E', _R, "\t\tif id_attr is None:\n\t\t\traise TypeError('id_attr field of signatures metadata cannot be None')\n\n\t\tself.genomes, self.sig_indices = genomes_by_id_subset(genomeset, id_attr, signatures.ids)\n",
      "\t\tif id_attr is not None:\n\t\t\tself.genomes, self.sig_indices = genomes_by_id_subset(genomeset, id_attr, signatures.ids)\n\t\telse:\n\t\t\traise TypeError('id_attr field of signatures metadata cannot be None')\n"),
    V('store in one arm, the other arm falls through', 'B', _R, "\t\tif id_attr is None:\n\t\t\traise TypeError('id_attr field of signatures metadata cannot be None')\n\n\t\tself.genomes, self.sig_indices = genomes_by_id_subset(genomeset, id_attr, signatures.ids)\n",
      "\t\tif id_attr is not None:\n\t\t\tself.genomes, self.sig_indices = genomes_by_id_subset(genomeset, id_attr, signatures.ids)\n\t\telse:\n\t\t\tself.genomes, self.sig_indices = [], []\n", 'R3'),
    V('E: single-file search delegated to a module-level function (suffix groups as module constants)', 'E', _R, _LOCATE_OLD, _LOCATE_DELEGATED, also=((_R, _LOADSET_DEF, _ONLY_EAGER + _LOADSET_DEF),)),
    V('delegated search: only several files are refused', 'B', _R, _LOCATE_OLD, _LOCATE_DELEGATED, 'R5', also=((_R, _LOADSET_DEF, _ONLY_EAGER.replace("if len(candidates) != 1:", "if len(candidates) > 1:") + _LOADSET_DEF),)),
    V('delegated search: suffix constants passed crossed', 'B', _R, _LOCATE_OLD, _LOCATE_DELEGATED.replace("_GENOME_EXTS", "_TMP").replace("_SIGNATURE_EXTS", "_GENOME_EXTS").replace("_TMP", "_SIGNATURE_EXTS"), 'R5',
      also=((_R, _LOADSET_DEF, _ONLY_EAGER + _LOADSET_DEF),)),
    V('delegated search: helper lists the parent directory', 'B', _R, _LOCATE_OLD, _LOCATE_DELEGATED, 'R5', also=((_R, _LOADSET_DEF, _ONLY_EAGER.replace("directory.iterdir()", "directory.parent.iterdir()") + _LOADSET_DEF),)),
    V('delegated search: wrong error class', 'B', _R, _LOCATE_OLD, _LOCATE_DELEGATED, 'R5', also=((_R, _LOADSET_DEF, _ONLY_EAGER.replace("raise DatabaseLoadError(", "raise RuntimeError(").replace(", directory=directory)", ")") + _LOADSET_DEF),)),
    V('E: lazy search, at most two matches pulled with next(stream, None)', 'E', _R, _LOCATE_OLD, _LOCATE_DELEGATED, also=((_R, _LOADSET_DEF, _ONLY_LAZY + _LOADSET_DEF),)),
    V('lazy search: a second match is not looked for', 'B', _R, _LOCATE_OLD, _LOCATE_DELEGATED, 'R5',
      also=((_R, _LOADSET_DEF, _ONLY_LAZY.replace("\telif next(stream, None) is not None:\n\t\thow_many = 'Multiple'\n", "") + _LOADSET_DEF),)),
    V('lazy search: second match test inverted', 'B', _R, _LOCATE_OLD, _LOCATE_DELEGATED, 'R5', also=((_R, _LOADSET_DEF, _ONLY_LAZY.replace("elif next(stream, None) is not None:", "elif next(stream, None) is None:") + _LOADSET_DEF),)),
    V('lazy search: the second match is returned', 'B', _R, _LOCATE_OLD, _LOCATE_DELEGATED, 'R5', also=((_R, _LOADSET_DEF, _ONLY_LAZY.replace("\tfirst = next(stream, None)\n", "\tnext(stream, None)\n\tfirst = next(stream, None)\n") + _LOADSET_DEF),)),
    V('lazy search: suffix test inverted', 'B', _R, _LOCATE_OLD, _LOCATE_DELEGATED, 'R5', also=((_R, _LOADSET_DEF, _ONLY_LAZY.replace("if f.suffix in exts", "if f.suffix not in exts") + _LOADSET_DEF),)),
    V('match set selects the entries NOT in the suffix group', 'B', _R, "if f.suffix in ('.gdb', '.db')}", "if f.suffix not in ('.gdb', '.db')}", 'R5'),
    # ---- shapes produced by the second-stage normalisation (N9-N12), also written by hand
    V('E: one return, conditional expression on strict', 'E', _R, _BYID_OLD, "\treturn [d[id_] for id_ in ids] if strict else [d.get(id_) for id_ in ids]\n"),
    V('one return, conditional expression arms swapped', 'B', _R, _BYID_OLD, "\treturn [d.get(id_) for id_ in ids] if strict else [d[id_] for id_ in ids]\n", 'R1'),
    V('E: signature file taken inside the return', 'E', _R, "\t\tsignatures_file = signatures_matches.pop()\n\n\t\treturn genomes_file, signatures_file\n", "\t\treturn genomes_file, signatures_matches.pop()\n"),
    V('signature file taken inside the return, unchecked', 'B', _R, "\t\tcheck_single_match(signatures_matches, 'signature (.gs or .h5)')\n\t\tsignatures_file = signatures_matches.pop()\n\n\t\treturn genomes_file, signatures_file\n",
      "\t\treturn genomes_file, signatures_matches.pop()\n", 'R5'),
    V('file taken from a second, unchecked listing written as an unnamed comprehension', 'B', _R, "\t\tsignatures_file = signatures_matches.pop()\n", "\t\tsignatures_file = {f for f in path.iterdir() if f.suffix in ('.gs', '.h5')}.pop()\n", 'R5'),
    V('genome list returned as an empty literal', 'B', _R, "\treturn genomes_out, idxs_out\n", "\treturn [], idxs_out\n", 'R1'),
    V('first match of an inline generator, no second look', 'B', _R, "\t\tcheck_single_match(genomes_matches, 'genome database (.gdb or .db)')\n\t\tgenomes_file = genomes_matches.pop()\n",
      "\t\tgenomes_file = next((f for f in path.iterdir() if f.suffix in ('.gdb', '.db')), None)\n", 'R5'),
    V('E: lookup function selected by an if/else statement on strict', 'E', _R, _BYID_OLD, "\tif strict:\n\t\tlookup = d.__getitem__\n\telse:\n\t\tlookup = d.get\n\treturn [lookup(id_) for id_ in ids]\n"),
    V('lookup function selected by an if/else statement, arms swapped', 'B', _R, _BYID_OLD, "\tif strict:\n\t\tlookup = d.get\n\telse:\n\t\tlookup = d.__getitem__\n\treturn [lookup(id_) for id_ in ids]\n", 'R1'),
    V('E: id map reaches the lookup through a plain copy', 'E', _R, "\td = _map_ids_to_genomes(genomeset, id_attr)\n\tif strict:", "\ttable = _map_ids_to_genomes(genomeset, id_attr)\n\td = table\n\tif strict:"),
    V('plain copy of a map built for another genome set', 'B', _R, "\td = _map_ids_to_genomes(genomeset, id_attr)\n\tif strict:", "\ttable = _map_ids_to_genomes(genomeset.__class__(), id_attr)\n\td = table\n\tif strict:", 'R1'),
    V('E: listed once, helper filters with an append loop (second group is built after the first was checked)', 'E', _R, _LOCATE_OLD,
      _LOCATE_LISTED.replace("\t\t\tmatches = [f for f in files if f.suffix in extensions]\n", "\t\t\tmatches = []\n\t\t\tfor f in files:\n\t\t\t\tif f.suffix in extensions:\n\t\t\t\t\tmatches.append(f)\n")),
    V('listed once, append-loop helper accepts several', 'B', _R, _LOCATE_OLD,
      _LOCATE_LISTED.replace("\t\t\tmatches = [f for f in files if f.suffix in extensions]\n", "\t\t\tmatches = []\n\t\t\tfor f in files:\n\t\t\t\tif f.suffix in extensions:\n\t\t\t\t\tmatches.append(f)\n").replace("if len(matches) == 1:", "if len(matches) >= 1:"), 'R5'),
    # ---- third pass: code moved behind thin aliases, library-call spellings, table-driven loop
    V('E: whitelist check moved into a classmethod of Genome, old name kept as a def alias', 'E', _R, _CHECKATTR_OLD, "\treturn Genome.validated_id_attr(attr)\n", also=((_M, _GENOME_REPR, _MOVED_CHECK),)),
    V('moved whitelist check lost the membership test', 'B', _R, _CHECKATTR_OLD, "\treturn Genome.validated_id_attr(attr)\n", 'R4',
      also=((_M, _GENOME_REPR, _MOVED_CHECK.replace("if isinstance(attr, str) and attr in cls.ID_ATTRS:", "if isinstance(attr, str):")),)),
    V('moved whitelist check accepts any attribute object', 'B', _R, _CHECKATTR_OLD, "\treturn Genome.validated_id_attr(attr)\n", 'R4',
      also=((_M, _GENOME_REPR, _MOVED_CHECK.replace("\t\t\t\tif attr is allowed:\n\t\t\t\t\treturn attr\n", "\t\t\t\tpass\n\t\t\treturn attr\n")),)),
    V('E: boolean selector list and two itertools.compress calls', 'E', _R, _SUBSET_OLD,
      "\tmatched = [g is not None for g in genomes]\n\tgenomes_out = list(compress(genomes, matched))\n\tidxs_out = list(compress(range(len(genomes)), matched))\n", also=((_R,) + _COMPRESS_IMPORT,)),
    V('compress: selectors mark the unmatched ids', 'B', _R, _SUBSET_OLD,
      "\tmatched = [g is None for g in genomes]\n\tgenomes_out = list(compress(genomes, matched))\n\tidxs_out = list(compress(range(len(genomes)), matched))\n", 'R1', also=((_R,) + _COMPRESS_IMPORT,)),
    V('compress: index list compresses the genomes too', 'B', _R, _SUBSET_OLD,
      "\tmatched = [g is not None for g in genomes]\n\tgenomes_out = list(compress(genomes, matched))\n\tidxs_out = list(compress(genomes, matched))\n", 'R1', also=((_R,) + _COMPRESS_IMPORT,)),
    V('E: lookup list as list(map(<selected function>, ids))', 'E', _R, _BYID_OLD, "\treturn list(map(d.__getitem__ if strict else d.get, ids))\n"),
    V('list(map()) with the selected functions swapped', 'B', _R, _BYID_OLD, "\treturn list(map(d.get if strict else d.__getitem__, ids))\n", 'R1'),
    V('list(map()) over the sorted ids', 'B', _R, _BYID_OLD, "\treturn list(map(d.__getitem__ if strict else d.get, sorted(ids)))\n", 'R1'),
    V('E: id map built with dict(<generator of pairs>)', 'E', _R, "return {id_: g for g, id_ in q}", "return dict((id_, g) for g, id_ in q)"),
    V('dict(<generator of pairs>) with the pair swapped', 'B', _R, "return {id_: g for g, id_ in q}", "return dict((g, id_) for g, id_ in q)", 'R2'),
    V('E: table-driven locate_files (loop over a module constant, error from a factory classmethod, files collected in order)', 'E', _R, _LOCATE_OLD, _LOCATE_TABLE,
      also=((_R, _ERR_CLASS_DEF, _KINDS_CONST + _ERR_CLASS_DEF), (_R, _ERR_INIT_TAIL, _ERR_FACTORY))),
    V('table-driven: only several files are refused', 'B', _R, _LOCATE_OLD, _LOCATE_TABLE.replace("if len(candidates) != 1:", "if len(candidates) > 1:"), 'R5',
      also=((_R, _ERR_CLASS_DEF, _KINDS_CONST + _ERR_CLASS_DEF), (_R, _ERR_INIT_TAIL, _ERR_FACTORY))),
    V('table-driven: the table lists the signature kind first', 'B', _R, _LOCATE_OLD, _LOCATE_TABLE, 'R5',
      also=((_R, _ERR_CLASS_DEF, "_FILE_KINDS = (\n\t('signature (.gs or .h5)', ('.gs', '.h5')),\n\t('genome database (.gdb or .db)', ('.gdb', '.db')),\n)\n\n\n" + _ERR_CLASS_DEF), (_R, _ERR_INIT_TAIL, _ERR_FACTORY))),
    V('table-driven: files unpacked crossed', 'B', _R, _LOCATE_OLD, _LOCATE_TABLE.replace("genomes_file, signatures_file = found", "signatures_file, genomes_file = found"), 'R5',
      also=((_R, _ERR_CLASS_DEF, _KINDS_CONST + _ERR_CLASS_DEF), (_R, _ERR_INIT_TAIL, _ERR_FACTORY))),
    V('table-driven: the error factory builds another exception class', 'B', _R, _LOCATE_OLD, _LOCATE_TABLE, 'R5',
      also=((_R, _ERR_CLASS_DEF, _KINDS_CONST + _ERR_CLASS_DEF), (_R, _ERR_INIT_TAIL, _ERR_FACTORY.replace("return cls(f'", "return RuntimeError(f'").replace(", directory=directory)", ")")))),
    V('E: load_genomeset moved into a staticmethod, module function kept as alias, load() uses the method', 'E', _R, _LOADSET_OLD, _LOADSET_ALIAS,
      also=((_R, _LOCATE_DECO, _OPEN_STATIC + _LOCATE_DECO), (_R, "session, gset = load_genomeset(genomes_file)", "session, gset = cls.open_genomeset(genomes_file)"))),
    V('moved load_genomeset: load() hands the session to the constructor', 'B', _R, _LOADSET_OLD, _LOADSET_ALIAS, 'R6',
      also=((_R, _LOCATE_DECO, _OPEN_STATIC + _LOCATE_DECO), (_R, "session, gset = load_genomeset(genomes_file)", "gset, session = cls.open_genomeset(genomes_file)"))),
    V('moved load_genomeset: opens the signatures path', 'B', _R, _LOADSET_OLD, _LOADSET_ALIAS, 'R6',
      also=((_R, _LOCATE_DECO, _OPEN_STATIC + _LOCATE_DECO), (_R, "session, gset = load_genomeset(genomes_file)", "session, gset = cls.open_genomeset(signatures_file)"))),
    # ---- fourth pass: a bug hidden inside a welcome-looking extraction (seeded C04d)
    V('E: single-file helper, extensions pooled, at most one + non-empty', 'E', _R, _LOCATE_OLD, _FIND_CALLS, also=((_R, _LOADSET_DEF, _FIND_POOLED + _LOADSET_DEF),)),
    V('single-file helper checks ONE extension at a time and returns at the first hit (seeded C04d)', 'B', _R, _LOCATE_OLD, _FIND_CALLS, 'R5', also=((_R, _LOADSET_DEF, _FIND_PER_EXT + _LOADSET_DEF),)),
    V('pooled helper: the no-file case is not refused before taking', 'B', _R, _LOCATE_OLD, _FIND_CALLS, 'R5',
      also=((_R, _LOADSET_DEF, _FIND_POOLED.replace("\tif matches:\n\t\treturn matches[0]\n", "\treturn matches[0]\n") + _LOADSET_DEF),)),
    V('pooled helper: several files tolerated', 'B', _R, _LOCATE_OLD, _FIND_CALLS, 'R5',
      also=((_R, _LOADSET_DEF, _FIND_POOLED.replace("if len(matches) > 1:", "if len(matches) > 2:") + _LOADSET_DEF),)),
    # ---- fifth pass: completeness check moved into the subset function behind an option (seeded C04e)
    V('E: validation inside the id map, subset by membership + subscript, completeness behind require_all=True against the genome count', 'E', _R, _MAPQ_OLD, _moved_check('genomeset.genomes.count()')[1],
      also=_moved_check('genomeset.genomes.count()')[0]),
    V('moved completeness check compares with the size of the id map (seeded C04e)', 'B', _R, _MAPQ_OLD, _moved_check('len(d)')[1], 'R3', also=_moved_check('len(d)')[0]),
    V('moved completeness check compares with the number of signature ids', 'B', _R, _MAPQ_OLD, _moved_check('len(ids)')[1], 'R3', also=_moved_check('len(ids)')[0]),
    V('moved completeness check: the constructor does not ask for it', 'B', _R, _MAPQ_OLD, _moved_check('genomeset.genomes.count()')[1], 'R3',
      also=_moved_check('genomeset.genomes.count()', init="\t\tself.genomes, self.sig_indices = genomes_by_id_subset(genomeset, id_attr, signatures.ids)\n")[0]),
    V('moved completeness check: the option disables instead of enables', 'B', _R, _MAPQ_OLD, _moved_check('genomeset.genomes.count()')[1], 'R3',
      also=_moved_check('genomeset.genomes.count()', body=_SUBSET_REQUIRE_ALL.replace("if require_all and", "if not require_all and"))[0]),
    V('callers rely on the id map to validate the attribute, but it does not', 'B', _R, _MAPQ_OLD, "\t_check_genomes_have_ids(genomeset, id_attr)\n" + _MAPQ_OLD, 'R4',
      also=_moved_check('genomeset.genomes.count()')[0]),
    V('callers rely on the id map for the NULL-id check, but it does not do it', 'B', _R, _MAPQ_OLD, "\tid_attr = _check_genome_id_attr(id_attr)\n" + _MAPQ_OLD, 'R7',
      also=_moved_check('genomeset.genomes.count()')[0]),
    V('subscript lookup of every id (no membership filter on the genome list)', 'B', _R, _MAPQ_OLD, _moved_check('genomeset.genomes.count()')[1], 'R1',
      also=_moved_check('genomeset.genomes.count()', body=_SUBSET_REQUIRE_ALL.replace("genomes_out = [d[ids[i]] for i in idxs_out]", "genomes_out = [d[id_] for id_ in ids]"))[0]),
]
