"""C15 - the genomic distance behaves as a metric.

The axioms are theorems about the exact Jaccard distance plus monotone rounding; what the source must supply is
(F) that the kernel computes that formula - the C02 kernel obligations, re-evaluated here - and
(Y1) that it is bit-for-bit symmetric: the extracted facts are invariant under the role swap
     sigma = {coords1<->coords2, N<->M, i<->j, a<->b}.
Width-independence is the independent-fused-types rule (M6, re-evaluated).
"""
from ..affine import Aff, sym
from . import c02

SWAP = {'len1': sym('len2'), 'len2': sym('len1'), 'i0': sym('j0'), 'j0': sym('i0'), 'i': sym('j'), 'j': sym('i')}


def check(ctx):
    rep = ctx.rep
    rep.rule('M1', 'kernel premise (same rule as C02-M1): merge counts the union exactly')
    rep.rule('M2', 'kernel premise (C02-M2): tail')
    rep.rule('M3', 'kernel premise (C02-M3): zero guard')
    rep.rule('M4', 'kernel premise (C02-M4): single rounding of (2u-N-M)/u')
    rep.rule('M5', 'kernel premise (C02-M5): initial values / counter widths')
    rep.rule('M6', 'independent fused types per argument: width-independence')
    rep.rule('M7', 'wrappers pass both operands in order')
    rep.rule('Y1', 'role-swap invariance of every extracted fact: loop condition, ordering table, loads, tail, numerator')
    rep.assumptions += ['Range [0,1], identity, disjointness, triangle inequality (slack 2^-22) and strict decrease follow mathematically '
                        'from the exact formula + monotone rounding; they are not separately machine-checked (DESIGN.md 5/C15).']
    rep.trusted += ['IEEE-754 correctly rounded binary32 division is monotone']
    f = c02.kernel_facts(ctx)
    c02.check_types(ctx, f)
    c02.check_wrappers(ctx)
    rep.rule('M8', 'the Python entry points hand both operands (gated, uncrossed) to the kernel and return its value on every path - no shortcut that could break identity / symmetry')
    c02.check_dtype_gate(ctx)
    fi, loop = f['fi'], f['loop']
    ci, cj = f['ci'], f['cj']
    # loop condition
    cond = f['cond']
    swapped = set()
    for (op, l, r) in cond:
        l2 = {ci: cj, cj: ci}.get(l, l)
        r2 = {'len1': 'len2', 'len2': 'len1'}.get(r, r)
        swapped.add((op, l2, r2))
    rep.add('Y1', fi.site(loop), 'loop condition is invariant under the role swap', swapped == cond, expected=sorted(cond), found=sorted(swapped),
            stmt='sigma(loop condition)')
    table = f['table']
    flip = {'LT': 'GT', 'GT': 'LT', 'EQ': 'EQ'}
    st = {flip[o]: (dj, di, du) for o, (di, dj, du) in table.items()}
    rep.add('Y1', fi.site(loop), 'ordering table is invariant under the role swap (LT<->GT, di<->dj)', st == table, expected=table, found=st,
            stmt='sigma(merge table)')
    reads = f['reads']
    sr = {({f['p1']: f['p2'], f['p2']: f['p1']}[a], idx.subst(SWAP)) for a, idx in reads}
    rep.add('Y1', fi.site(loop), 'loads are invariant under the role swap', sr == reads, expected=sorted(map(str, reads)), found=sorted(map(str, sr)),
            stmt='sigma(loads)')
    tail = f['tail']
    rep.add('Y1', fi.site(loop), 'tail contribution is invariant under the role swap', tail.subst(SWAP) == tail, expected=tail, found=tail.subst(SWAP),
            stmt='sigma(tail)')
    E = f['E']
    rep.add('Y1', fi.site(loop), 'numerator is invariant under the role swap', E is not None and E.subst(SWAP) == E, expected=E,
            found=E.subst(SWAP) if E is not None else None, stmt='sigma(numerator)')
    rep.floor('Y1', 'symmetry obligations', sum(1 for o in rep.obs if o.rule.endswith('Y1')), 5)
    # "for all signatures ... in any container / width": the bulk entry points hand the kernel the signatures they were given
    # (C05 clauses re-evaluated: cell = kernel value of that pair; the container wrap keeps each signature's own dtype)
    from . import c05
    rep.rule('B1', 'C05-B1 re-evaluated: every cell of a bulk result is a kernel value / copy / zero')
    rep.rule('B3', 'C05-B3 re-evaluated: fast path operands'); rep.rule('B4', 'C05-B4 re-evaluated: slow path pairing')
    rep.rule('B5', 'C05-B5 re-evaluated: matrix chunk / column selection and container wrap'); rep.rule('B6', 'C05-B6 re-evaluated: pairwise selection, mirror, offsets')
    c05.check_stores(ctx)
    c05.check_array(ctx)
    c05.check_matrix(ctx)
    c05.check_pairwise(ctx)


from ..variants import V  # noqa: E402

_M = 'src/gambit/_cython/metric.pyx'
VARIANTS = [
    V('asymmetric tail', 'B', _M, "\tu += N - i\n\tu += M - j\n", "\tu += N - i\n", 'Y1'),
    V('asymmetric loop condition', 'B', _M, "while i < N and j < M:", "while i < N and j <= M:", 'Y1'),
    V('asymmetric merge (a < b)', 'B', _M, "\t\tif a <= b:\n\t\t\ti += 1", "\t\tif a < b:\n\t\t\ti += 1", 'Y1'),
    V('asymmetric numerator', 'B', _M, "return <SCORE_T>(2 * u - N - M) / u", "return <SCORE_T>(2 * u - 2 * N) / u", 'Y1'),
    V('second argument shares the first fused type', 'B', _M, "def jaccarddist(COORDS_T[:] coords1, COORDS_T_2[:] coords2):",
      "def jaccarddist(COORDS_T[:] coords1, COORDS_T[:] coords2):", 'M6'),
    V('wrapper swaps nothing but drops an operand', 'B', _M, "\treturn c_jaccarddist(coords1, coords2)\n", "\treturn c_jaccarddist(coords1, coords1)\n", 'M7'),
    V('disjoint-range shortcut with <= in the Python wrapper (seeded C15a)', 'B', 'src/gambit/metric.py', "\tcoords1 = _cast_sigs_array(coords1)\n\tcoords2 = _cast_sigs_array(coords2)\n\treturn _cmetric.jaccarddist(coords1, coords2)",
      "\tcoords1 = _cast_sigs_array(coords1)\n\tcoords2 = _cast_sigs_array(coords2)\n\tif len(coords1) and len(coords2) and (coords1[-1] <= coords2[0] or coords2[-1] <= coords1[0]):\n\t\treturn 1.\n\treturn _cmetric.jaccarddist(coords1, coords2)", 'M7'),
    V('E: symmetric rewrite', 'E', _M, "\t\tif a <= b:\n\t\t\ti += 1\n\n\t\tif b <= a:\n\t\t\tj += 1\n",
      "\t\tif b <= a:\n\t\t\tj += 1\n\n\t\tif a <= b:\n\t\t\ti += 1\n"),
    V('E: tail terms commuted', 'E', _M, "\tu += N - i\n\tu += M - j\n", "\tu += M - j\n\tu += N - i\n"),
]
