"""C07 - k-mer/index conversion is the base-4 bijection, consistent with revcomp.

Decides (from the .pyx text, re-extracted on every run):
  T1/T3  per-byte effect of one encoder iteration for ALL 256 byte values (finite domain, exhaustive)
  T2     read index, shift-then-add update form, loop shape, initial value
  T4     decoder digit extraction / table / write index / shift, for all 16 (d1,d0) low-digit pairs
  T5     complement table for all 256 bytes, write index mirrored
  T6     rc-encoder = encoder o complement on the eight letters
  T7     wrappers: len > 32 guard dominates the kernel call, error flag checked before the result is returned
  T8     C types: 64-bit accumulator / return type, CHAR = unsigned char, .pxd prototypes agree
  T9     public names in gambit.kmers / gambit.seq bind to these functions
"""
import ast

from ..affine import Aff, sym, NotAffine
from ..astutil import (u, guard_map, path_atoms, stmts_in, calls_in, callee, raised_name, dotted, walk_no_nested)
from ..mini import Mini, Return, Opaque
from ..report import Undecided

PYX = 'gambit._cython.kmers'


class DigitMini(Mini):
    """Mini with %4 / &3 / >>2 / //4 on affine values whose symbolic part is a multiple of the modulus."""

    def binop(self, op, l, r, node=None):
        t = type(op).__name__
        if isinstance(l, Aff) and not l.is_const() and isinstance(r, int):
            if (t == 'Mod' and r == 4) or (t == 'BitAnd' and r == 3):
                if all(v % 4 == 0 for v in l.terms.values()):
                    return int(l.const % 4)
                raise Undecided(f'digit extraction on {l}')
            if (t == 'RShift' and r == 2) or (t == 'FloorDiv' and r == 4):
                if all(v % 4 == 0 for v in l.terms.values()):
                    return Aff({k: v / 4 for k, v in l.terms.items()}, l.const // 4)
                raise Undecided(f'shift on {l}')
        return super().binop(op, l, r, node)


def _len_key(node):
    """kmer.shape[0] and len(kmer) are the same quantity."""
    if isinstance(node, ast.Subscript) and isinstance(node.value, ast.Attribute) and node.value.attr == 'shape' \
            and isinstance(node.slice, ast.Constant) and node.slice.value == 0:
        return f'len({u(node.value.value)})'
    return u(node)


def _prelude_env(fi, loop, lensym):
    """Affine env for straight-line definitions before the loop: names defined as len(buffer) -> K."""
    env = {}
    inits = {}
    for s in fi.node.body:
        if s is loop:
            break
        tgt = val = None
        if isinstance(s, ast.AnnAssign) and s.value is not None and isinstance(s.target, ast.Name):
            tgt, val = s.target.id, s.value
        elif isinstance(s, ast.Assign) and len(s.targets) == 1 and isinstance(s.targets[0], ast.Name):
            tgt, val = s.targets[0].id, s.value
        if tgt is None:
            continue
        inits[tgt] = val
        if _len_key(val) in lensym:
            env[tgt] = lensym[_len_key(val)]
    return env, inits


def _the_loop(rep, fi):
    loops = [s for s in fi.node.body if isinstance(s, (ast.For, ast.While))]
    rep.require(len(loops) == 1, f'{fi.qualname}: expected exactly one top-level loop, found {len(loops)}')
    loop = loops[0]
    rep.require(isinstance(loop, ast.For) and isinstance(loop.target, ast.Name) and isinstance(loop.iter, ast.Call)
                and u(loop.iter.func) == 'range' and len(loop.iter.args) == 1 and not loop.orelse,
                f'{fi.qualname}: loop is not `for i in range(n)`')
    return loop


def analyse_encoder(ctx, fi, nuc, rc):
    rep = ctx.rep
    rep.functions.add(fi.qualname)
    loop = _the_loop(rep, fi)
    params = fi.params()
    rep.require(len(params) == 2, f'{fi.qualname}: expected (kmer, exc) parameters')
    buf, excp = params
    K = sym('K')
    env0, inits = _prelude_env(fi, loop, {f'len({buf})': K})
    ivar = loop.target.id
    n_arg = Aff.try_of(loop.iter.args[0], env0)
    tag = 'T3' if rc else 'T1'
    rep.add('T2', fi.site(loop), f'loop runs once per base: range bound == len({buf})', n_arg == K,
            expected='K', found=n_arg, stmt=loop.iter)
    # accumulator: find the name returned after the loop
    rets = [s for s in fi.node.body if isinstance(s, ast.Return)]
    rep.require(len(rets) == 1 and isinstance(rets[0].value, ast.Name), f'{fi.qualname}: no single `return <acc>` after loop')
    acc = rets[0].value.id
    rep.require(acc in inits, f'{fi.qualname}: accumulator {acc} has no initialiser')
    rep.add('T2', fi.site(rets[0]), f'accumulator {acc} starts at 0', isinstance(inits[acc], ast.Constant) and inits[acc].value == 0,
            expected='0', found=u(inits[acc]), stmt=inits[acc])

    table = {}
    reads = set()
    bad_invalid = []
    for b in range(256):
        state = dict(flag=[], read=[])

        def on_load(mini, e, idx, state=state, b=b):
            if u(e.value) == buf:
                state['read'].append(idx if isinstance(idx, Aff) else Aff(const=idx))
                return b
            raise Undecided(f'{fi.qualname}: read of {u(e)}')

        def on_store(mini, target, idx, value, state=state):
            if u(target.value) == excp:
                state['flag'].append(value)
                return
            raise Undecided(f'{fi.qualname}: store to {u(target)}')

        env = {ivar: sym('i'), acc: sym('acc0')}
        for name, a in env0.items():
            env[name] = a
        mini = DigitMini(env, on_load, on_store)
        returned = False
        try:
            mini.run(loop.body)
        except Return:
            returned = True
        final = mini.env.get(acc)
        flagged = bool(state['flag']) and bool(state['flag'][-1])
        for r in state['read']:
            reads.add(r)
        table[b] = (final, flagged, returned, list(state['flag']))
    expect_read = sym('K').sub(sym('i')).plus(-1) if rc else sym('i')
    rep.add('T3' if rc else 'T2', fi.site(loop), 'read index of the base consumed in iteration i'
            + (' (reverse complement reads from the end)' if rc else ' (first base most significant)'),
            reads == {expect_read}, expected=expect_read, found=sorted(map(str, reads)), stmt=loop.body[0])
    digits = {}
    for pos, ch in enumerate(nuc):
        want = (3 - pos) if rc else pos
        for byte in (ch, ch | 0x20):
            final, flagged, returned, flags = table[byte]
            ok = (not flags) and (not returned) and final == sym('acc0').scale(4).plus(want)
            found = 'error path' if (flagged or returned) else f'acc := {final}'
            rep.add(tag, fi.site(loop), f'byte {chr(byte)!r}: acc := 4*acc + {want}', ok,
                    expected=f'4*acc0 + {want}', found=found, stmt=f'{fi.name}[{chr(byte)}]')
            if ok:
                digits[byte] = want
    valid = set(nuc) | {c | 0x20 for c in nuc}
    for b in range(256):
        if b in valid:
            continue
        final, flagged, returned, flags = table[b]
        if not flagged:
            bad_invalid.append(b)
    rep.add(tag, fi.site(loop), 'every one of the 248 non-nucleotide byte values sets the error flag', not bad_invalid,
            expected='error flag set for all', found=f'{len(bad_invalid)} accepted: {bad_invalid[:8]}',
            stmt=f'{fi.name}[else]')
    return digits


def analyse_decoder(ctx, fi, nuc):
    rep = ctx.rep
    rep.functions.add(fi.qualname)
    loop = _the_loop(rep, fi)
    params = fi.params()
    rep.require(len(params) == 2, f'{fi.qualname}: expected (index, out) parameters')
    idxp, outp = params
    K = sym('K')
    env0, inits = _prelude_env(fi, loop, {f'len({outp})': K})
    ivar = loop.target.id
    n_arg = Aff.try_of(loop.iter.args[0], env0)
    rep.add('T4', fi.site(loop), f'loop runs once per base: range bound == len({outp})', n_arg == K,
            expected='K', found=n_arg, stmt=loop.iter)
    for d1 in range(4):
        for d0 in range(4):
            stores = []

            def on_store(mini, target, idx, value, stores=stores):
                if u(target.value) == outp:
                    stores.append((idx if isinstance(idx, Aff) else Aff(const=idx), value))
                    return
                raise Undecided(f'{fi.qualname}: store to {u(target)}')

            env = {ivar: sym('i'), idxp: Aff({'r': 16}, 4 * d1 + d0)}
            env.update(env0)
            mini = DigitMini(env, None, on_store)
            try:
                mini.run(loop.body)
            except Return:
                raise Undecided(f'{fi.qualname}: return inside decoder loop')
            want_idx = K.sub(sym('i')).plus(-1)
            ok_store = len(stores) == 1 and stores[0][0] == want_idx and stores[0][1] == nuc[d0]
            found = [(str(a), chr(v) if isinstance(v, int) and 0 <= v < 256 else v) for a, v in stores]
            rep.add('T4', fi.site(loop), f'digit {d0} (next digit {d1}): writes {chr(nuc[d0])!r} at out[K - i - 1]',
                    ok_store, expected=f'[({want_idx}, {chr(nuc[d0])!r})]', found=found, stmt=f'{fi.name}[{d1}{d0}]')
            final = mini.env.get(idxp)
            rep.add('T4', fi.site(loop), 'index is shifted right by exactly one base-4 digit per iteration, after extraction',
                    final == Aff({'r': 4}, d1), expected=f'4*r + {d1}', found=final, stmt=f'{fi.name}[shift {d1}{d0}]')


def analyse_revcomp(ctx, fi):
    rep = ctx.rep
    rep.functions.add(fi.qualname)
    loop = _the_loop(rep, fi)
    params = fi.params()
    rep.require(len(params) == 2, f'{fi.qualname}: expected (seq, out) parameters')
    seqp, outp = params
    N = sym('N')
    env0, inits = _prelude_env(fi, loop, {f'len({seqp})': N})
    ivar = loop.target.id
    n_arg = Aff.try_of(loop.iter.args[0], env0)
    rep.add('T5', fi.site(loop), f'loop runs once per byte: range bound == len({seqp})', n_arg == N,
            expected='N', found=n_arg, stmt=loop.iter)
    comp = {}
    reads, writes = set(), set()
    for b in range(256):
        stores = []

        def on_load(mini, e, idx, b=b):
            if u(e.value) == seqp:
                reads.add(idx if isinstance(idx, Aff) else Aff(const=idx))
                return b
            raise Undecided(f'{fi.qualname}: read of {u(e)}')

        def on_store(mini, target, idx, value, stores=stores):
            if u(target.value) == outp:
                stores.append((idx if isinstance(idx, Aff) else Aff(const=idx), value))
                return
            raise Undecided(f'{fi.qualname}: store to {u(target)}')

        env = {ivar: sym('i')}
        env.update(env0)
        mini = DigitMini(env, on_load, on_store)
        try:
            mini.run(loop.body)
        except Return:
            raise Undecided(f'{fi.qualname}: return inside revcomp loop')
        rep.require(len(stores) == 1, f'{fi.qualname}: byte {b}: {len(stores)} stores per iteration')
        writes.add(stores[0][0])
        comp[b] = stores[0][1]
    rep.add('T5', fi.site(loop), 'reads seq[i]', reads == {sym('i')}, expected='i', found=sorted(map(str, reads)))
    want_w = N.sub(sym('i')).plus(-1)
    rep.add('T5', fi.site(loop), 'writes out[N - i - 1] (mirrored position)', writes == {want_w}, expected=want_w,
            found=sorted(map(str, writes)))
    expected = {b: b for b in range(256)}
    for a, b in ((b'A', b'T'), (b'C', b'G')):
        for case in (0, 0x20):
            expected[a[0] | case] = b[0] | case
            expected[b[0] | case] = a[0] | case
    for ch in b'ACGTacgt':
        rep.add('T5', fi.site(loop), f'complement of {chr(ch)!r}', comp[ch] == expected[ch], expected=repr(chr(expected[ch])),
                found=repr(chr(comp[ch])) if isinstance(comp[ch], int) and 0 <= comp[ch] < 256 else comp[ch],
                stmt=f'{fi.name}[{chr(ch)}]')
    others_bad = [b for b in range(256) if b not in b'ACGTacgt' and comp[b] != b]
    rep.add('T5', fi.site(loop), 'all 248 other byte values pass through unchanged', not others_bad, expected='identity',
            found=f'{len(others_bad)} changed: {others_bad[:8]}', stmt=f'{fi.name}[else]')
    invol_bad = [b for b in range(256) if not (isinstance(comp[b], int) and 0 <= comp[b] < 256 and comp[comp[b]] == b)]
    rep.add('T5', fi.site(loop), 'complement table is an involution on all 256 bytes', not invol_bad, expected='comp(comp(b)) == b',
            found=f'{len(invol_bad)} bytes fail: {invol_bad[:8]}', stmt=f'{fi.name}[involution]')
    return comp


def analyse_wrapper(ctx, fi, kernel_name, kind):
    """kind: 'enc' (guard + error flag) | 'buf' (bytearray buffer of the right length)."""
    rep = ctx.rep
    m = ctx.model
    rep.functions.add(fi.qualname)
    calls = [c for c in calls_in(fi.node) if callee(c) == kernel_name]
    rep.require(len(calls) == 1, f'{fi.qualname}: expected exactly one call of {kernel_name}, found {len(calls)}')
    call = calls[0]
    rep.call_sites += 1
    gm = guard_map(fi.node)
    pm_stmt = next(s for s in stmts_in(fi.node.body) if any(x is call for x in ast.walk(s)))
    p0 = fi.params()[0]
    if kind == 'enc':
        atoms = path_atoms(gm[pm_stmt], key=_len_key)
        L = f'len({p0})'
        ok = ('le', L, '32') in atoms or ('lt', L, '33') in atoms
        bounds = sorted(a for a in atoms if L in a)
        rep.add('T7', fi.site(call), 'k-mers longer than 32 are rejected before the kernel runs (and 32 is accepted)', ok,
                expected=f"len({p0}) <= 32 on the path to the kernel call", found=bounds, stmt=call)
        # the raise that establishes it is ValueError
        for s in fi.node.body:
            if isinstance(s, ast.If) and any(L in a for a in (path_atoms([(s.test, True)], key=_len_key) or ())):
                rs = [r for r in s.body if isinstance(r, ast.Raise)]
                rep.add('T7', fi.site(s), 'length guard raises ValueError', bool(rs) and raised_name(rs[0]) == 'ValueError',
                        expected='raise ValueError', found=[raised_name(r) for r in rs], stmt=s.test)
        # first argument is the buffer parameter, second the address of the flag
        rep.require(len(call.args) == 2, f'{fi.qualname}: kernel call arity')
        flag = call.args[1]
        rep.require(isinstance(flag, ast.Call) and u(flag.func) == '__addr__' and isinstance(flag.args[0], ast.Name),
                    f'{fi.qualname}: second kernel argument is not &flag')
        flagname = flag.args[0].id
        rep.add('T7', fi.site(call), 'kernel receives the k-mer buffer itself', u(call.args[0]) == p0, expected=p0,
                found=u(call.args[0]), stmt=call)
        # result variable returned only when flag is false, and the flag test raises ValueError
        tgt = pm_stmt.targets[0].id if isinstance(pm_stmt, ast.Assign) and isinstance(pm_stmt.targets[0], ast.Name) else None
        rets = [s for s in stmts_in(fi.node.body) if isinstance(s, ast.Return)]
        rep.require(tgt is not None and rets, f'{fi.qualname}: kernel result is not assigned / returned')
        for r in rets:
            at = path_atoms(gm[r])
            ok = isinstance(r.value, ast.Name) and r.value.id == tgt and ('false', flagname) in at
            rep.add('T7', fi.site(r), 'index is returned only when the error flag is clear', ok,
                    expected=f'return {tgt} under not {flagname}', found=f'return {u(r.value)} under {sorted(at)}', stmt=r)
        flag_raises = [s for s in stmts_in(fi.node.body) if isinstance(s, ast.Raise) and ('true', flagname) in path_atoms(gm[s])]
        rep.add('T7', fi.site(call), 'a set error flag raises ValueError', any(raised_name(r) == 'ValueError' for r in flag_raises),
                expected='raise ValueError under the flag', found=[raised_name(r) for r in flag_raises], stmt=f'if {flagname}')
        # flag initialised False
        init = None
        for s in stmts_in(fi.node.body):
            if isinstance(s, ast.AnnAssign) and isinstance(s.target, ast.Name) and s.target.id == flagname:
                init = s.value
            elif isinstance(s, ast.Assign) and any(isinstance(t, ast.Name) and t.id == flagname for t in s.targets):
                init = s.value
        rep.add('T7', fi.site(call), 'error flag starts False', isinstance(init, ast.Constant) and init.value is False,
                expected='False', found=u(init), stmt=f'{flagname} init')
    else:
        # buffer = bytearray(<length>) ; kernel(<input>, buffer) ; return bytes(buffer)
        rep.require(len(call.args) == 2 and isinstance(call.args[1], ast.Name), f'{fi.qualname}: kernel call shape')
        bufname = call.args[1].id
        bdef = None
        for s in fi.node.body:
            if isinstance(s, ast.Assign) and isinstance(s.targets[0], ast.Name) and s.targets[0].id == bufname:
                bdef = s.value
        rep.require(bdef is not None, f'{fi.qualname}: buffer {bufname} undefined')
        want = 'k' if kernel_name == 'c_index_to_kmer' else f'len({p0})'
        params = fi.params()
        if kernel_name == 'c_index_to_kmer':
            want = params[1]
        ok = isinstance(bdef, ast.Call) and u(bdef.func) == 'bytearray' and len(bdef.args) == 1 and _len_key(bdef.args[0]) == want
        rep.add('T7', fi.site(call), f'output buffer is a zeroed bytearray of length {want}', ok, expected=f'bytearray({want})',
                found=u(bdef), stmt=bdef)
        rep.add('T7', fi.site(call), 'kernel receives the caller argument unchanged', u(call.args[0]) == params[0], expected=params[0],
                found=u(call.args[0]), stmt=call)
        rets = [s for s in fi.node.body if isinstance(s, ast.Return)]
        ok = len(rets) == 1 and isinstance(rets[0].value, ast.Call) and u(rets[0].value.func) == 'bytes' \
            and u(rets[0].value.args[0]) == bufname
        rep.add('T7', fi.site(rets[0] if rets else call), 'wrapper returns bytes(buffer)', ok, expected=f'bytes({bufname})',
                found=u(rets[0].value) if rets else None, stmt=rets[0] if rets else None)


def check_types(ctx, pyx, pxd):
    rep = ctx.rep
    side, pside = pyx.side, pxd.side
    td = dict(pside.get('typedefs', {}))
    td.update(side.get('typedefs', {}))
    site = (pxd.relpath, 1, 'gambit._cython.kmers:pxd')
    rep.add('T8', site, 'CHAR is an unsigned 8-bit type', td.get('CHAR') == 'unsigned char', expected='unsigned char',
            found=td.get('CHAR'), stmt='ctypedef CHAR')
    for fn in ('c_kmer_to_index', 'c_kmer_to_index_rc'):
        info = side['funcs'].get(fn)
        rep.require(info is not None, f'{fn} not found in kmers.pyx')
        fsite = (pyx.relpath, info['line'], f'{PYX}.{fn}')
        rep.add('T8', fsite, 'encoder returns a 64-bit unsigned integer (32 digits x 2 bits)', info['ret'] == 'uint64_t',
                expected='uint64_t', found=info['ret'], stmt=f'{fn} return type')
        acc_t = side['types'].get(fn, {})
        fi = ctx.model.func(f'{PYX}.{fn}')
        rets = [s for s in fi.node.body if isinstance(s, ast.Return) and isinstance(s.value, ast.Name)]
        if rets:
            acc = rets[0].value.id
            rep.add('T8', fsite, f'accumulator {acc} is 64-bit unsigned', acc_t.get(acc) == 'uint64_t', expected='uint64_t',
                    found=acc_t.get(acc), stmt=f'{fn} accumulator type')
        rep.add('T8', fsite, 'byte variable is unsigned (mask and comparisons are on 0..255)',
                all(t in ('CHAR', 'unsigned char') for v, t in acc_t.items() if v.startswith('nuc')), expected='CHAR',
                found={v: t for v, t in acc_t.items() if v.startswith('nuc')}, stmt=f'{fn} byte type')
    for w in ('kmer_to_index', 'kmer_to_index_rc'):
        t = side['types'].get(w, {})
        fi = ctx.model.func(f'{PYX}.{w}')
        rep.add('T8', fi.site(), 'wrapper result variable is 64-bit unsigned', t.get('idx', t.get(next(iter(
            [s.targets[0].id for s in stmts_in(fi.node.body) if isinstance(s, ast.Assign) and isinstance(s.value, ast.Call)
             and (callee(s.value) or '').startswith('c_kmer_to_index')]), None))) == 'uint64_t',
            expected='uint64_t', found=t, stmt=f'{w} result type')
    dec = side['types'].get('c_index_to_kmer', {})
    dsite = ctx.model.func(f'{PYX}.c_index_to_kmer').site()
    rep.add('T8', dsite, 'decoder takes a 64-bit unsigned index', dec.get('index') == 'uint64_t', expected='uint64_t',
            found=dec.get('index'), stmt='c_index_to_kmer index type')
    # .pxd prototypes agree with .pyx headers
    for fn, pinfo in pside.get('funcs', {}).items():
        info = side['funcs'].get(fn)
        rep.require(info is not None, f'.pxd declares {fn} which is missing from the .pyx')
        ptypes = list(pside.get('types', {}).get(fn, {}).values())
        ytypes = list(side.get('types', {}).get(fn, {}).items())
        fi = ctx.model.func(f'{PYX}.{fn}')
        yparam = [side['types'][fn].get(p) for p in fi.params()]
        ok = pinfo['ret'] == info['ret'] and pinfo['nogil'] == info['nogil'] and ptypes == yparam
        rep.add('T8', (pxd.relpath, pinfo['line'], f'{PYX}.{fn}'), '.pxd prototype matches the .pyx header', ok,
                expected=(info['ret'], yparam, info['nogil']), found=(pinfo['ret'], ptypes, pinfo['nogil']), stmt=f'{fn} prototype')


def _apply_decorator(ctx, fi, deco, value, param):
    """value = what the undecorated function returns, as an expression of its parameter `param`.  Returns (value', param') of the
    function the decorated name is bound to."""
    from .c01 import enum_paths, return_values, subst
    rep, m = ctx.rep, ctx.model
    tgt = m.resolve(fi.module, deco) if isinstance(deco, (ast.Name, ast.Attribute)) else None
    rep.require(tgt is not None and m.has_func(tgt), f'{fi.qualname}: decorator `{u(deco)}` is not a function of the package whose body can be evaluated')
    d = m.func(tgt)
    rep.functions.add(d.qualname)
    body = [x for x in d.node.body if not (isinstance(x, ast.Expr) and isinstance(x.value, ast.Constant))]
    dps = d.params()
    shape = len(dps) == 1 and len(body) == 2 and isinstance(body[0], ast.FunctionDef) and isinstance(body[1], ast.Return) \
        and isinstance(body[1].value, ast.Name) and body[1].value.id == body[0].name and not d.node.decorator_list
    rep.require(shape, f'{fi.qualname}: decorator {d.qualname} is not of the form `def w(x): return f(...)` / `return w`')
    w = body[0]
    for wd in w.decorator_list:       # functools.wraps(f) copies metadata only
        okw = isinstance(wd, ast.Call) and m.resolve(d.module, wd.func) in ('functools.wraps', 'wraps') and [u(a) for a in wd.args] == [dps[0]] and not wd.keywords
        rep.require(okw, f'{fi.qualname}: the wrapper inside {d.qualname} is itself decorated with `{u(wd)}`')
    wa = w.args
    rep.require(len(wa.args) == 1 and not (wa.posonlyargs or wa.kwonlyargs or wa.vararg or wa.kwarg or wa.defaults), f'{d.qualname}: wrapper does not take exactly one argument')
    wp = wa.args[0].arg

    class Shim:
        node = w
    wpaths, _ = enum_paths(Shim, f'{d.qualname}.<wrapper>')
    rep.require(not any(p.effects for p in wpaths), f'{d.qualname}: the wrapper executes calls for their effect')
    wvals = return_values([p for p in wpaths if p.kind != 'raise'], f'{d.qualname}.<wrapper>')
    rep.require(len(wvals) == 1, f'{d.qualname}: the wrapper has several return values')
    wv = wvals[0][0]
    okf = isinstance(wv, ast.Call) and isinstance(wv.func, ast.Name) and wv.func.id == dps[0] and len(wv.args) == 1 and not wv.keywords \
        and not any(isinstance(n, ast.Name) and n.id == dps[0] for n in ast.walk(wv.args[0]))
    rep.require(okf, f'{d.qualname}: the wrapper does not return f(<one argument>): {u(wv)[:60]}')
    # names of the argument expression are the decorator module's globals: they must mean the same where the function lives
    if d.module is not fi.module:
        for n in ast.walk(wv.args[0]):
            rep.require(not (isinstance(n, ast.Name) and n.id != wp and m.resolve(d.module, n) != m.resolve(fi.module, n)),
                        f'{d.qualname}: `{getattr(n, "id", "")}` means something else in {fi.module.name}')
    return subst(value, {param: wv.args[0]}), wp


def check_bindings(ctx):
    rep, m = ctx.rep, ctx.model
    kmers = m.module('gambit.kmers')
    seq = m.module('gambit.seq')
    site = (kmers.relpath, 1, 'gambit.kmers')
    rep.add('T9', site, 'gambit.kmers.index_to_kmer is the Cython decoder',
            m.canonical(kmers.imports.get('index_to_kmer')) == f'{PYX}.index_to_kmer', expected=f'{PYX}.index_to_kmer',
            found=kmers.imports.get('index_to_kmer'), stmt='import index_to_kmer')
    rep.add('T9', (seq.relpath, 1, 'gambit.seq'), 'gambit.seq.revcomp is the Cython reverse complement',
            m.canonical(seq.imports.get('revcomp')) == f'{PYX}.revcomp', expected=f'{PYX}.revcomp',
            found=seq.imports.get('revcomp'), stmt='import revcomp')
    for w in ('kmer_to_index', 'kmer_to_index_rc'):
        fi = m.func(f'gambit.kmers.{w}')
        rep.functions.add(fi.qualname)
        # the value the wrapper returns, on every feasible path, with locals substituted (a shared helper expanded in place leaves
        # `if True/False:` dispatch and a local for the converted argument: still one call of one Cython function)
        from .c01 import enum_paths, return_values
        paths, _ = enum_paths(fi, fi.qualname)
        rep.require(not any(p.effects for p in paths), f'{fi.qualname}: calls executed for their effect are outside the evaluated vocabulary')
        vals = return_values([p for p in paths if p.kind != 'raise'], fi.qualname)
        rep.require(len(vals) == 1 and isinstance(vals[0][0], ast.Call), f'{fi.qualname}: not a single-call wrapper')
        call, site_stmt = vals[0][0], vals[0][3]
        param = fi.params()[0]
        # decorators: the name is bound to what the decorator returns.  A decorator of the package of the form
        #     def deco(f): [@wraps(f)] def w(x): return f(<expr of x>); return w
        # makes the bound function  x -> body_of_f[param := <expr of x>]; anything else is outside the vocabulary.
        for deco in reversed(fi.node.decorator_list):
            call, param = _apply_decorator(ctx, fi, deco, call, param)
        target = m.resolve_call(fi, call)
        rep.add('T9', fi.site(site_stmt), f'{w} forwards to the matching Cython function (not crossed)', target == f'{PYX}.{w}',
                expected=f'{PYX}.{w}', found=target, stmt=call)
        arg = call.args[0] if len(call.args) == 1 and not call.keywords else None
        ok = isinstance(arg, ast.Call) and m.resolve_call(fi, arg) == 'gambit.seq.seq_to_bytes' and len(arg.args) == 1 and not arg.keywords \
            and u(arg.args[0]) == param
        rep.add('T9', fi.site(site_stmt), 'argument goes through seq_to_bytes unchanged', ok, expected=f'seq_to_bytes({param})',
                found=u(arg) if arg is not None else u(call), stmt=call)

def check(ctx):
    rep, m = ctx.rep, ctx.model
    rep.rule('T1', 'forward encoder: one loop iteration evaluated for all 256 byte values; acc := 4*acc + digit, digit = position in NUCLEOTIDES, else error flag')
    rep.rule('T2', 'encoder loop shape: range(len(kmer)), accumulator starts at 0, reads kmer[i]')
    rep.rule('T3', 'rc encoder: digit = 3 - position, reads kmer[K-i-1]')
    rep.rule('T4', 'decoder: digit = index mod 4 -> NUCLEOTIDES[digit] written at out[K-i-1], index shifted by one digit afterwards')
    rep.rule('T5', 'complement: evaluated for all 256 bytes; A<->T, C<->G case-preserving, identity elsewhere, involution, mirrored write')
    rep.rule('T6', 'rc-encoder table == encoder table o complement table on the eight letters')
    rep.rule('T7', 'wrappers: len > 32 raises ValueError before the kernel call; error flag raises ValueError; buffers sized right')
    rep.rule('T8', 'C types: uint64_t accumulator/return, CHAR unsigned char, .pxd prototypes == .pyx headers')
    rep.rule('T9', 'public names bind to the analysed functions')
    rep.trusted += ['Cython integer semantics for <<, +=, &=, %, >> on uint64_t / unsigned char', 'CPython bytearray(n) zero-filled']
    rep.assumptions += ['The installed extension module is built from the analysed .pyx (stale build output is outside the analysis).']
    pyx = m.module(PYX)
    pxd = m.module(PYX + ':pxd')
    seqmod = m.module('gambit.seq')
    rep.require('NUCLEOTIDES' in seqmod.assigns, 'gambit.seq.NUCLEOTIDES not found')
    nuc = m.const_value(seqmod, seqmod.assigns['NUCLEOTIDES'])
    rep.add('T1', (seqmod.relpath, seqmod.assigns['NUCLEOTIDES'].lineno, 'gambit.seq.NUCLEOTIDES'),
            "alphabet order is b'ACGT' (A<C<G<T; compatibility with published databases)", nuc == b'ACGT', expected="b'ACGT'",
            found=repr(nuc), stmt='NUCLEOTIDES')
    rep.require(isinstance(nuc, bytes) and len(nuc) == 4, 'NUCLEOTIDES is not a 4-byte constant')
    enc = analyse_encoder(ctx, m.func(f'{PYX}.c_kmer_to_index'), nuc, rc=False)
    encrc = analyse_encoder(ctx, m.func(f'{PYX}.c_kmer_to_index_rc'), nuc, rc=True)
    analyse_decoder(ctx, m.func(f'{PYX}.c_index_to_kmer'), nuc)
    comp = analyse_revcomp(ctx, m.func(f'{PYX}.c_revcomp'))
    fi_rc = m.func(f'{PYX}.c_kmer_to_index_rc')
    for ch in b'ACGTacgt':
        c = comp.get(ch)
        ok = ch in encrc and c in enc and encrc[ch] == enc[c]
        rep.add('T6', fi_rc.site(), f'rc digit of {chr(ch)!r} == forward digit of its complement', ok,
                expected=enc.get(c), found=encrc.get(ch), stmt=f'cross[{chr(ch)}]')
    analyse_wrapper(ctx, m.func(f'{PYX}.kmer_to_index'), 'c_kmer_to_index', 'enc')
    analyse_wrapper(ctx, m.func(f'{PYX}.kmer_to_index_rc'), 'c_kmer_to_index_rc', 'enc')
    analyse_wrapper(ctx, m.func(f'{PYX}.index_to_kmer'), 'c_index_to_kmer', 'buf')
    analyse_wrapper(ctx, m.func(f'{PYX}.revcomp'), 'c_revcomp', 'buf')
    check_types(ctx, pyx, pxd)
    check_bindings(ctx)
    from . import c01
    rep.rule('K10', 'seq_to_bytes (through which the public converters pass their argument) is the identity on the byte content: nothing stripped, folded or re-encoded (C01-K10)')
    c01.check_seq_to_bytes(ctx)
    rep.floor('T1', 'obligations', len(rep.obs), 60)


# ---------------------------------------------------------------------------------------------------- variants
from ..variants import V  # noqa: E402

_K = 'src/gambit/_cython/kmers.pyx'
_KIH = "def _kmer_index(kmer, reverse):\n\tkmer_bytes = seq_to_bytes(kmer)\n\tif reverse:\n\t\treturn ckmers.kmer_to_index_rc(kmer_bytes)\n\treturn ckmers.kmer_to_index(kmer_bytes)\n\n\n"
_KP = 'src/gambit/kmers.py'
_DECO = "from functools import wraps\n\n\ndef _as_bytes(func):\n\t@wraps(func)\n\tdef wrapper(kmer):\n\t\treturn func(seq_to_bytes(kmer))\n\n\treturn wrapper\n\n\n"
VARIANTS = [
    V('encoder digits C/G swapped', 'B', _K, "\t\telif nuc == 'C':\n\t\t\tidx += 1\n\t\telif nuc == 'G':\n\t\t\tidx += 2",
      "\t\telif nuc == 'C':\n\t\t\tidx += 2\n\t\telif nuc == 'G':\n\t\t\tidx += 1", 'T1'),
    V('rc encoder reads kmer[i]', 'B', _K, 'nuc = kmer[k - i - 1]', 'nuc = kmer[i]', 'T3'),
    V('shift after the add', 'B', _K, "\t\tnuc = kmer[i]\n\n\t\tidx <<= 2\n", "\t\tnuc = kmer[i]\n\n", 'T1',
      also=[(_K, "\t\telse:\n\t\t\texc[0] = True\n\t\t\treturn 0\n\n\treturn idx\n\n\ndef kmer_to_index_rc",
             "\t\telse:\n\t\t\texc[0] = True\n\t\t\treturn 0\n\t\tidx <<= 2\n\n\treturn idx\n\n\ndef kmer_to_index_rc")]),
    V('case mask deleted (forward)', 'B', _K, "\t\tnuc = kmer[i]\n\n\t\tidx <<= 2\n\n\t\tnuc &= 0b11011111  # To upper case\n",
      "\t\tnuc = kmer[i]\n\n\t\tidx <<= 2\n\n", 'T1'),
    V('case mask clears wrong bit', 'B', _K, "\t\tnuc = kmer[k - i - 1]\n\n\t\tidx <<= 2\n\n\t\tnuc &= 0b11011111",
      "\t\tnuc = kmer[k - i - 1]\n\n\t\tidx <<= 2\n\n\t\tnuc &= 0b11101111", 'T3'),
    V("complement 'G' -> 'G'", 'B', _K, "\t\telif nuc == 'G':\n\t\t\tnuc2 =  'C'", "\t\telif nuc == 'G':\n\t\t\tnuc2 =  'G'", 'T5'),
    V('complement lower-case t -> A (case lost)', 'B', _K, "nuc2 =  'a'", "nuc2 =  'A'", 'T5'),
    V('guard > 33', 'B', _K, "\tif kmer.shape[0] > 32:\n\t\traise ValueError('k must be <= 32')\n\n\tidx = c_kmer_to_index(kmer, &exc)",
      "\tif kmer.shape[0] > 33:\n\t\traise ValueError('k must be <= 32')\n\n\tidx = c_kmer_to_index(kmer, &exc)", 'T7'),
    V('guard >= 32 (rejects valid 32-mers)', 'B', _K,
      "\tif kmer.shape[0] > 32:\n\t\traise ValueError('k must be <= 32')\n\n\tidx = c_kmer_to_index_rc(kmer, &exc)",
      "\tif kmer.shape[0] >= 32:\n\t\traise ValueError('k must be <= 32')\n\n\tidx = c_kmer_to_index_rc(kmer, &exc)", 'T7'),
    V('error flag ignored by wrapper', 'B', _K, "\tidx = c_kmer_to_index(kmer, &exc)\n\n\tif exc:\n\t\traise ValueError('Invalid character in k-mer')\n",
      "\tidx = c_kmer_to_index(kmer, &exc)\n", 'T7'),
    V('encoder else-branch no longer flags', 'B', _K, "\t\t\tidx += 3\n\t\telse:\n\t\t\texc[0] = True\n\t\t\treturn 0",
      "\t\t\tidx += 3\n\t\telse:\n\t\t\tidx += 0", 'T1'),
    V('uint32 accumulator', 'B', _K, "cdef uint64_t c_kmer_to_index(const CHAR[:] kmer, bint *exc) nogil:\n\tcdef:\n\t\tuint64_t idx = 0",
      "cdef uint64_t c_kmer_to_index(const CHAR[:] kmer, bint *exc) nogil:\n\tcdef:\n\t\tuint32_t idx = 0", 'T8'),
    V('decoder writes out[i]', 'B', _K, 'out[k - i - 1] = nuc', 'out[i] = nuc', 'T4'),
    V('decoder shift before extraction', 'B', _K, "\t\tnuc_index = index % 4\n", "\t\tindex >>= 2\n\t\tnuc_index = index % 4\n", 'T4'),
    V('decoder table C/G swapped', 'B', _K, "\t\telif nuc_index == 1:\n\t\t\tnuc = 'C'\n\t\telif nuc_index == 2:\n\t\t\tnuc = 'G'",
      "\t\telif nuc_index == 1:\n\t\t\tnuc = 'G'\n\t\telif nuc_index == 2:\n\t\t\tnuc = 'C'", 'T4'),
    V('revcomp writes out[i] (no reversal)', 'B', _K, 'out[n - i - 1] = nuc2', 'out[i] = nuc2', 'T5'),
    V('python wrappers crossed', 'B', 'src/gambit/kmers.py', 'return ckmers.kmer_to_index_rc(seq_to_bytes(kmer))',
      'return ckmers.kmer_to_index(seq_to_bytes(kmer))', 'T9'),
    V('str k-mers stripped before encoding (seeded C07a)', 'B', 'src/gambit/seq.py', "return seq.encode('ascii')", "return seq.strip().encode('ascii')", 'K10'),
    V('alphabet order changed', 'B', 'src/gambit/seq.py', "NUCLEOTIDES = b'ACGT'", "NUCLEOTIDES = b'ACTG'", 'T1'),
    # behaviour-preserving rewrites
    V('E: index & 3 for index % 4', 'E', _K, 'nuc_index = index % 4', 'nuc_index = index & 3'),
    V('E: idx = (idx << 2) + d via *4', 'E', _K, "\t\tnuc = kmer[i]\n\n\t\tidx <<= 2\n", "\t\tnuc = kmer[i]\n\n\t\tidx = idx * 4\n"),
    V('E: chain reordered', 'E', _K, "\t\tif nuc == 'A':\n\t\t\tidx += 0\n\t\telif nuc == 'C':\n\t\t\tidx += 1\n",
      "\t\tif nuc == 'C':\n\t\t\tidx += 1\n\t\telif nuc == 'A':\n\t\t\tidx += 0\n"),
    V('E: index //= 4 for >>= 2', 'E', _K, 'index >>= 2', 'index //= 4'),
    V('E: len(kmer) in the guard', 'E', _K, "\tif kmer.shape[0] > 32:\n\t\traise ValueError('k must be <= 32')\n\n\tidx = c_kmer_to_index(kmer, &exc)",
      "\tif len(kmer) > 32:\n\t\traise ValueError('k must be <= 32')\n\n\tidx = c_kmer_to_index(kmer, &exc)"),
    V('E: else branch falls through after flagging', 'E', _K, "\t\t\tidx += 3\n\t\telse:\n\t\t\texc[0] = True\n\t\t\treturn 0",
      "\t\t\tidx += 3\n\t\telse:\n\t\t\texc[0] = True"),
    V('E: mask merged into the load', 'E', _K, "\t\tnuc = kmer[i]\n\n\t\tidx <<= 2\n\n\t\tnuc &= 0b11011111  # To upper case\n",
      "\t\tnuc = kmer[i] & 0xDF\n\n\t\tidx <<= 2\n\n"),
    # T9 by the value each wrapper returns (helper shared by both wrappers, expanded in place)
    V('E: both Python wrappers through one helper with a reverse flag', 'E', 'src/gambit/kmers.py', "\treturn ckmers.kmer_to_index(seq_to_bytes(kmer))\n", "\treturn _kmer_index(kmer, False)\n",
      also=[('src/gambit/kmers.py', "\treturn ckmers.kmer_to_index_rc(seq_to_bytes(kmer))\n", "\treturn _kmer_index(kmer, True)\n"),
            ('src/gambit/kmers.py', "def kmer_to_index(kmer: 'DNASeq') -> int:", _KIH + "def kmer_to_index(kmer: 'DNASeq') -> int:")]),
    V('shared helper: wrappers pass the flags the wrong way round', 'B', 'src/gambit/kmers.py', "\treturn ckmers.kmer_to_index(seq_to_bytes(kmer))\n", "\treturn _kmer_index(kmer, True)\n", 'T9',
      also=[('src/gambit/kmers.py', "\treturn ckmers.kmer_to_index_rc(seq_to_bytes(kmer))\n", "\treturn _kmer_index(kmer, False)\n"),
            ('src/gambit/kmers.py', "def kmer_to_index(kmer: 'DNASeq') -> int:", _KIH + "def kmer_to_index(kmer: 'DNASeq') -> int:")]),
    V('shared helper strips the k-mer before encoding', 'B', 'src/gambit/kmers.py', "\treturn ckmers.kmer_to_index(seq_to_bytes(kmer))\n", "\treturn _kmer_index(kmer, False)\n", 'T9',
      also=[('src/gambit/kmers.py', "\treturn ckmers.kmer_to_index_rc(seq_to_bytes(kmer))\n", "\treturn _kmer_index(kmer, True)\n"),
            ('src/gambit/kmers.py', "def kmer_to_index(kmer: 'DNASeq') -> int:", _KIH.replace("seq_to_bytes(kmer)\n", "seq_to_bytes(kmer).strip()\n") + "def kmer_to_index(kmer: 'DNASeq') -> int:")]),
    # T9 through a decorator that does the conversion
    V('E: conversion to bytes done by a decorator of both wrappers', 'E', _KP, "def kmer_to_index(kmer: 'DNASeq') -> int:", _DECO + "@_as_bytes\ndef kmer_to_index(kmer: 'DNASeq') -> int:",
      also=[(_KP, "def kmer_to_index_rc(kmer: 'DNASeq') -> int:", "@_as_bytes\ndef kmer_to_index_rc(kmer: 'DNASeq') -> int:"),
            (_KP, "\treturn ckmers.kmer_to_index(seq_to_bytes(kmer))\n", "\treturn ckmers.kmer_to_index(kmer)\n"), (_KP, "\treturn ckmers.kmer_to_index_rc(seq_to_bytes(kmer))\n", "\treturn ckmers.kmer_to_index_rc(kmer)\n")]),
    V('decorator passes the argument through without converting it', 'B', _KP, "def kmer_to_index(kmer: 'DNASeq') -> int:", _DECO.replace("func(seq_to_bytes(kmer))", "func(kmer)") + "@_as_bytes\ndef kmer_to_index(kmer: 'DNASeq') -> int:", 'T9',
      also=[(_KP, "def kmer_to_index_rc(kmer: 'DNASeq') -> int:", "@_as_bytes\ndef kmer_to_index_rc(kmer: 'DNASeq') -> int:"),
            (_KP, "\treturn ckmers.kmer_to_index(seq_to_bytes(kmer))\n", "\treturn ckmers.kmer_to_index(kmer)\n"), (_KP, "\treturn ckmers.kmer_to_index_rc(seq_to_bytes(kmer))\n", "\treturn ckmers.kmer_to_index_rc(kmer)\n")]),
    V('decorated wrappers call the crossed kernels', 'B', _KP, "def kmer_to_index(kmer: 'DNASeq') -> int:", _DECO + "@_as_bytes\ndef kmer_to_index(kmer: 'DNASeq') -> int:", 'T9',
      also=[(_KP, "def kmer_to_index_rc(kmer: 'DNASeq') -> int:", "@_as_bytes\ndef kmer_to_index_rc(kmer: 'DNASeq') -> int:"),
            (_KP, "\treturn ckmers.kmer_to_index(seq_to_bytes(kmer))\n", "\treturn ckmers.kmer_to_index_rc(kmer)\n"), (_KP, "\treturn ckmers.kmer_to_index_rc(seq_to_bytes(kmer))\n", "\treturn ckmers.kmer_to_index(kmer)\n")]),
    V('only one of the two wrappers is decorated', 'B', _KP, "def kmer_to_index(kmer: 'DNASeq') -> int:", _DECO + "@_as_bytes\ndef kmer_to_index(kmer: 'DNASeq') -> int:", 'T9',
      also=[(_KP, "\treturn ckmers.kmer_to_index(seq_to_bytes(kmer))\n", "\treturn ckmers.kmer_to_index(kmer)\n"), (_KP, "\treturn ckmers.kmer_to_index_rc(seq_to_bytes(kmer))\n", "\treturn ckmers.kmer_to_index_rc(kmer)\n")]),
]
