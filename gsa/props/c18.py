"""C18 - using a reference database never modifies it.

W1 ReadOnlySession.flush calls nothing that flushes; commit raises on every path
W2 read-only session class is the default everywhere (file_sessionmaker defaults, every call site, CLI sessionmaker); no other session construction
W3 signature file opened with h5py's default (read) mode; no caller forwards a mode; setup.cfg pins h5py 3 (default 'r')
W4 write sinks vs. database-path taint: every write sink in the package is classified; none takes a path derived from the database location
W5 HDF5 mutators occur only in the writer functions, reachable only from create()/dump
W6 no ORM mutation / session write call anywhere in the package; read-side modules store nothing on objects they are given
"""
import ast
import os
import re

from .. import effects
from ..astutil import (u, atoms, guard_map, path_atoms, stmts_in, calls_in, callee, callee_attr, reaching_def, def_value,
                       PARAM, AMBIGUOUS, get_arg, get_kw, is_none, is_const, has_starstar, names_in, walk_ordered, assigned_targets)
from ..cfg import CFG
from ..mini import Mini, Opaque, Return as MiniReturn
from ..report import Undecided, Report

TAINT_NAMES = {'db_path', '_genomes_path', '_signatures_path', 'genomes_file', 'signatures_file', 'db_file', 'genomes_matches', 'signatures_matches'}
WRITE_MODE = re.compile(r'[wax+]')
SESSION_WRITE_METHODS = {'add', 'add_all', 'delete', 'merge', 'commit', 'flush', 'bulk_save_objects', 'bulk_insert_mappings', 'bulk_update_mappings', 'execute', 'expunge_all'}
HDF5_MUTATORS = {'create_dataset', 'create_group', 'require_dataset', 'require_group', 'resize'}

# Classified write sinks (function -> reason). Each opens a caller-chosen OUTPUT path; confirmed by reading.
SINKS_OK = {
    'gambit.results.BaseJSONResultsExporter.export': 'click --output / stdout',
    'gambit.results.CSVResultsExporter.export': 'click --output / stdout',
    'gambit.cluster.dump_dmat_csv': 'dist -o output file',
    'gambit.util.io.write_lines': 'generic helper, no package caller passes a database path',
    'gambit.sigs.hdf5.dump_signatures_hdf5': "signatures create -o output file (mode 'w' creates a new file)",
    'gambit.util.io.maybe_open': 'generic pass-through: mode decided by the caller (callers classified individually)',
    'gambit.util.io.open_compressed': 'generic pass-through: mode decided by the caller (callers checked to pass read modes)',
    'gambit.sigs.hdf5.load_signatures_hdf5': 'read path: a mode could only arrive through **kw; W3 shows no caller forwards one',
    'gambit.seq.SequenceFile.open': 'generic pass-through for sequence files: mode decided by the caller (callers checked to pass read modes)',
}


def mode_of(call, pos):
    a = get_arg(call, pos, 'mode')
    if a is None:
        return None, 'default'
    if a is Ellipsis:
        return None, 'unknown'
    if isinstance(a, ast.Constant) and isinstance(a.value, str):
        return a.value, 'literal'
    return None, u(a)


def tainted(expr):
    names = set()
    for n in ast.walk(expr):
        if isinstance(n, ast.Name):
            names.add(n.id)
        elif isinstance(n, ast.Attribute):
            names.add(n.attr)
    return sorted(names & TAINT_NAMES)


def find_write_sinks(m, functions):
    """[(fi, call, kind, path_expr, mode_text)] for every call / store that can write to the file system."""
    out = []
    for fi in functions:
        for c in calls_in(fi.node):
            f = u(c.func)
            tgt = m.resolve_call(fi, c) or f
            if f in ('open', 'io.open', 'gzip.open', 'bz2.open', 'lzma.open') or tgt in ('gambit.util.io.maybe_open', 'gambit.util.io.open_compressed'):
                mode, how = mode_of(c, 1)
                if how == 'default':
                    continue
                if how == 'literal' and not WRITE_MODE.search(mode):
                    continue
                out.append((fi, c, 'open', c.args[0] if c.args else None, mode if how == 'literal' else how))
            elif tgt in ('h5py.File', 'h5.File') or f in ('h5.File', 'h5py.File'):
                mode, how = mode_of(c, 1)
                if how == 'default' and not has_starstar(c):
                    continue
                if how == 'literal' and mode == 'r':
                    continue
                out.append((fi, c, 'h5py.File', c.args[0] if c.args else None, mode if how == 'literal' else (how if how != 'default' else '**kw')))
            elif callee_attr(c) in ('write_text', 'write_bytes', 'unlink', 'rmdir', 'mkdir', 'touch', 'rename', 'replace') and isinstance(c.func, ast.Attribute) and not f.startswith(('self.pbar', 'click.')):
                if callee_attr(c) == 'replace' and not any(k in f for k in ('path', 'Path', 'file')):
                    continue
                out.append((fi, c, f'Path.{callee_attr(c)}', c.func.value, ''))
            elif f.startswith(('os.remove', 'os.rename', 'os.unlink', 'os.replace', 'os.truncate', 'shutil.')):
                out.append((fi, c, f, c.args[0] if c.args else None, ''))
    return out


class _Sym:
    """A named uninterpreted value (module-level name, parameter stand-in). Truth value only when declared."""

    def __init__(self, name, truthy=None):
        self.name = name
        self.truthy = truthy

    def __repr__(self):
        return f'<{self.name}>'

    def __eq__(self, o):
        return isinstance(o, _Sym) and o.name == self.name

    def __hash__(self):
        return hash(self.name)


def _show(v):
    return v.name if isinstance(v, _Sym) else repr(v)


class _ClassEval(Mini):
    """Mini + identity tests against None / named symbols (`cls is None`); formatted strings are named symbols (equal text = equal
    value for equal arguments); module-level containers are real dicts shared between the calls of one history."""

    def ev(self, e):
        if isinstance(e, ast.JoinedStr):
            return _Sym(u(e))
        return super().ev(e)

    def truth(self, v):
        if isinstance(v, (dict, list, tuple)):
            return bool(v)
        return self._truth(v)

    def _truth(self, v):
        if isinstance(v, _Sym):
            if v.truthy is None:
                raise Undecided(f'truth value of {v.name} is not known')
            return v.truthy
        return super().truth(v)

    def compare(self, op, l, r, node):
        t = type(op).__name__
        if t in ('Is', 'IsNot'):
            if isinstance(l, Opaque) or isinstance(r, Opaque):
                raise Undecided(f'identity test on an unknown value in {u(node)}')
            same = (l is r) or (isinstance(l, _Sym) and isinstance(r, _Sym) and l.name == r.name) or (not isinstance(l, _Sym) and not isinstance(r, _Sym) and l is None and r is None)
            return same if t == 'Is' else not same
        if isinstance(l, _Sym) or isinstance(r, _Sym):
            raise Undecided(f'comparison of a symbolic value in {u(node)}')
        return super().compare(op, l, r, node)


def _module_state_names(fs):
    """Module-level names bound to a mutable container (a cache / registry a function could consult)."""
    out = set()
    for name, v in fs.module.assigns.items():
        if isinstance(v, (ast.Dict, ast.List, ast.Set)) or (isinstance(v, ast.Call) and u(v.func) in ('dict', 'list', 'set', 'OrderedDict', 'collections.OrderedDict', 'defaultdict', 'WeakValueDictionary', 'weakref.WeakValueDictionary')):
            out.add(name)
    return out


def _run_sessionmaker(m, fs, params, state=None):
    """Execute file_sessionmaker's body with the given parameter values. -> ([(call node, class_ value, token)], returned value).
    Every call yields an opaque token; `sessionmaker(...)` calls are recorded with the VALUE of their class_ argument."""
    made = []

    def on_call(mi, call):
        tok = Opaque(u(call.func))
        if (m.resolve_call(fs, call) or u(call.func)) in ('sqlalchemy.orm.sessionmaker', 'sqlalchemy.orm.session.sessionmaker'):
            a = get_arg(call, 1, 'class_')
            if a is Ellipsis:
                raise Undecided(f'star-args in {u(call)}')
            made.append((call, _Sym('<library default Session>') if a is None else mi.ev(a), tok))
        return tok
    env = {p: Opaque(p) for p in fs.params()}
    a = fs.node.args
    if a.vararg is not None:
        env[a.vararg.arg] = ()
    if a.kwarg is not None:
        env[a.kwarg.arg] = {}        # the call sites of the package pass no extra session options (checked below)
    env.update(params)
    local = {t.id for s in stmts_in(fs.node.body) for tt in assigned_targets(s) for t in ast.walk(tt) if isinstance(t, ast.Name) and isinstance(t.ctx, ast.Store)}
    state = {} if state is None else state
    shared = _module_state_names(fs)
    for n in ast.walk(fs.node):
        if isinstance(n, ast.Name) and n.id not in env and n.id not in local:
            env[n.id] = state.setdefault(n.id, {}) if n.id in shared else _Sym(m.resolve(fs.module, n) or n.id)

    def on_store(mi, target, idx, value):
        base = mi.ev(target.value)
        if not isinstance(base, dict):
            raise Undecided(f'store into {u(target)}')
        base[idx] = value
    mi = _ClassEval(env, on_call=on_call, on_subscript_store=on_store)
    ret = None
    try:
        mi.run(fs.node.body)
    except MiniReturn as r:
        ret = r.value
    return made, ret


def check_session(ctx):
    rep, m = ctx.rep, ctx.model
    ro = m.cls('gambit.db.sqla.ReadOnlySession')
    rep.add('W1', ro.site(), 'the read-only session is a subclass of the SQLAlchemy Session', ro.bases == ['sqlalchemy.orm.Session'], expected=['sqlalchemy.orm.Session'], found=ro.bases, stmt='session base')
    fl = ro.methods.get('flush')
    cm = ro.methods.get('commit')
    rep.require(fl is not None and cm is not None, 'ReadOnlySession: flush/commit overrides missing')
    rep.functions.update({fl.qualname, cm.qualname})
    calls = [u(c.func) for c in calls_in(fl.node)]
    rep.add('W1', fl.site(), 'flush is a no-op: it calls nothing (in particular no base-class flush)', not calls, expected='no calls', found=calls, stmt='flush body')
    cfg = CFG(cm.node)
    reach = cfg.reachable()
    raises = [n for n in cfg.nodes if n.kind == 'raise' and n.id in reach]
    rep.add('W1', cm.site(), 'commit raises on every path (never returns normally)', cfg.exit.id not in reach and bool(raises), expected='raise on all paths', found='normal exit reachable' if cfg.exit.id in reach else 'ok',
            stmt='commit raises')
    other = [c for c in calls_in(cm.node) if callee_attr(c) in ('commit', 'flush')]
    rep.add('W1', cm.site(), 'commit never delegates to the base class', not other, expected='none', found=[u(c) for c in other], stmt='commit delegation')
    extra = sorted(set(ro.methods) & {'add', 'delete', 'merge', 'execute', 'begin', '_flush'})
    # W2
    fs = m.func('gambit.db.sqla.file_sessionmaker')
    rep.functions.add(fs.qualname)
    d = fs.param_default('readonly')
    rep.add('W2', fs.site(), 'file_sessionmaker is read-only by default', d is not None and is_const(d, True), expected='readonly=True', found=u(d), stmt='readonly default')
    dc = fs.param_default('cls')
    # The class the sessions are made with is DECIDED BY EVALUATION of the function body over the finite domain
    # cls in {None, <explicit class>} x readonly in {True, False} (shape-independent: conditional expression, if/elif chain,
    # guard clauses, a new local or the rebound parameter are all the same table).
    explicit = _Sym('<explicit cls>', truthy=True)
    table, sm_site, why = {}, None, None
    for cv in (None, explicit):
        for rv in (True, False):
            try:
                made, ret = _run_sessionmaker(m, fs, {'cls': cv, 'readonly': rv})
            except Undecided as e:
                raise Undecided(f'file_sessionmaker: session class not evaluable for cls={"None" if cv is None else "explicit"}, readonly={rv}: {e}')
            sm_site = sm_site or (made[0][0] if made else None)
            table[('None' if cv is None else 'explicit', rv)] = ([_show(v) for _, v, _t in made], ret is not None and len(made) == 1 and ret is made[0][2])
    ro_name = 'gambit.db.sqla.ReadOnlySession'
    okc = dc is not None and is_none(dc) and table[('None', True)][0] == [ro_name] and len(table[('None', False)][0]) == 1 and table[('None', False)][0] != [ro_name]
    rep.add('W2', fs.site(sm_site), 'with no explicit class the read-only session class is chosen exactly when readonly', okc, expected='cls=None: class_ = ReadOnlySession if readonly else Session',
            found={f'cls={k[0]},readonly={k[1]}': v[0] for k, v in table.items() if k[0] == 'None'}, stmt='class choice')
    oks = all(v[0] == ['<explicit cls>'] for k, v in table.items() if k[0] == 'explicit') and all(v[1] for v in table.values())
    rep.add('W2', fs.site(sm_site), 'the sessionmaker is built with that class (an explicit class is passed through) and is what the function returns', oks, expected='one sessionmaker(engine, class_=<chosen class>, **kw), returned',
            found={f'cls={k[0]},readonly={k[1]}': v for k, v in table.items()}, stmt='sessionmaker class')
    # the class does not depend on what was asked before (a cache keyed without the class / mode would hand a writable maker to a default caller)
    hist = {}
    for first in ((explicit, True), (explicit, False), (None, False)):
        st = {}
        made1, _ = _run_sessionmaker(m, fs, {'cls': first[0], 'readonly': first[1]}, state=st)
        made2, ret2 = _run_sessionmaker(m, fs, {'cls': None, 'readonly': True}, state=st)
        cls_of = [v for _, v, t in made1 + made2 if t is ret2]
        hist[f"after cls={'None' if first[0] is None else 'explicit'},readonly={first[1]}"] = [_show(v) for v in cls_of] or ['<not a sessionmaker built here>']
    rep.add('W2', fs.site(sm_site), 'the default (read-only) sessionmaker does not depend on earlier calls for the same file', all(v == [ro_name] for v in hist.values()), expected=f'{ro_name} whatever was requested before',
            found=hist, stmt='history independence')
    # every construction of sessions in the package
    n_sites = 0
    for fi, call in m.iter_calls(kinds=('py',)):
        tgt = m.resolve_call(fi, call) or u(call.func)
        if tgt == 'gambit.db.sqla.file_sessionmaker':
            n_sites += 1
            rep.call_sites += 1
            ok = get_kw(call, 'readonly') is None and get_kw(call, 'cls') is None and len(call.args) == 1 and not has_starstar(call)
            rep.add('W2', fi.site(call), f'{fi.name}: the database file is opened through the default (read-only) sessionmaker', ok, expected='file_sessionmaker(path)', found=u(call), stmt=call, construct=fi.qualname)
        elif tgt in ('sqlalchemy.orm.sessionmaker',) and fi.qualname != fs.qualname:
            n_sites += 1
            rep.call_sites += 1
            cl = get_kw(call, 'class_')
            ok = cl is not None and m.resolve(fi.module, cl) == 'gambit.db.sqla.ReadOnlySession'
            rep.add('W2', fi.site(call), f'{fi.name}: sessions are created with the read-only class', ok, expected='sessionmaker(engine, class_=ReadOnlySession)', found=u(call), stmt=call, construct=fi.qualname)
        elif tgt in ('sqlalchemy.orm.Session', 'sqlalchemy.orm.scoped_session', 'sqlalchemy.orm.session.Session'):
            n_sites += 1
            rep.add('W2', fi.site(call), f'{fi.name}: no plain read-write Session is constructed', False, expected='ReadOnlySession', found=u(call), stmt=call, construct=fi.qualname)
    rep.floor('W2', 'session construction sites', n_sites, 2)


def check_h5(ctx):
    rep, m = ctx.rep, ctx.model
    fl = m.func('gambit.sigs.hdf5.load_signatures_hdf5')
    rep.functions.add(fl.qualname)
    n = 0
    for fi, call in m.iter_calls(kinds=('py',)):
        f = u(call.func)
        if f not in ('h5.File', 'h5py.File'):
            continue
        n += 1
        rep.call_sites += 1
        mode, how = mode_of(call, 1)
        if fi.qualname == fl.qualname:
            rep.add('W3', fi.site(call), 'the signature file is opened with the library default / read mode', how == 'default' or (how == 'literal' and mode == 'r'), expected="h5.File(path, **kw) (default 'r')", found=u(call),
                    stmt=call, construct=fi.qualname)
        elif fi.qualname == 'gambit.sigs.hdf5.dump_signatures_hdf5':
            rep.add('W3', fi.site(call), "the only writing open is the writer's, on its own output path, creating a new file", how == 'literal' and mode == 'w' and u(call.args[0]) == fi.params()[0], expected="h5.File(path, 'w')",
                    found=u(call), stmt=call, construct=fi.qualname)
        else:
            rep.add('W3', fi.site(call), 'no other place opens HDF5 files', False, expected='only load_signatures_hdf5 / dump_signatures_hdf5', found=u(call), stmt=call, construct=fi.qualname)
    rep.floor('W3', 'h5py.File sites', n, 2)
    # callers forward no mode through **kw
    n = 0
    for fi, call in m.iter_calls(kinds=('py',)):
        tgt = m.resolve_call(fi, call) or ''
        if tgt in ('gambit.sigs.base.load_signatures', 'gambit.sigs.hdf5.load_signatures_hdf5'):
            n += 1
            rep.call_sites += 1
            kws = [k.arg for k in call.keywords]
            passthrough = fi.qualname == 'gambit.sigs.base.load_signatures' and kws == [None]
            rep.add('W3', fi.site(call), f'{fi.name}: the loader is called with a path only (no mode or driver forwarded)', (not call.keywords and len(call.args) == 1) or passthrough, expected='load_signatures(path)', found=u(call),
                    stmt=call, construct=fi.qualname)
    rep.floor('W3', 'load_signatures call sites', n, 6)
    cfgp = os.path.join(m.repo, 'setup.cfg')
    if not os.path.exists(cfgp):
        raise Undecided('setup.cfg not found (h5py pin)')
    txt = open(cfgp, encoding='utf-8').read()
    pin = re.search(r'^\s*h5py\s*([~=<>!]=?\s*[\d.]+)', txt, flags=re.M)
    okp = pin is not None and re.match(r'(~=|>=|==)\s*3', pin.group(1).replace(' ', '')) is not None
    rep.add('W3', ('setup.cfg', txt[:pin.start()].count('\n') + 1 if pin else 1, 'setup.cfg:install_requires'), "h5py is pinned to major version 3, whose default file mode is 'r'", okp, expected='h5py~=3.0', found=pin.group(0).strip() if pin else None,
            stmt='h5py pin')


def check_sinks(ctx):
    rep, m = ctx.rep, ctx.model
    funcs = [f for f in m.functions.values() if f.module.kind == 'py']
    sinks = find_write_sinks(m, funcs)
    seen_funcs = set()
    for fi, call, kind, path, mode in sinks:
        rep.call_sites += 1
        owner = fi.qualname
        t = tainted(path) if path is not None else []
        rep.add('W4', fi.site(call), f'{kind} (mode {mode!r}) in {fi.name}: the path does not derive from the database location', not t, expected='no database-path taint', found=t or u(path), stmt=call, construct=owner)
        base = owner
        if base not in SINKS_OK:
            raise Undecided(f'unclassified write sink {kind} in {owner} ({fi.file}:{call.lineno}): classify it in c18.SINKS_OK or fix it')
        seen_funcs.add(base)
    rep.floor('W4', 'write sinks classified', len(sinks), 5)
    rep.info['write_sinks'] = sorted(seen_funcs)
    # pass-through helpers: callers' modes
    n = 0
    for fi, call in m.iter_calls(kinds=('py',)):
        tgt = m.resolve_call(fi, call) or ''
        if tgt in ('gambit.util.io.open_compressed', 'gambit.seq.SequenceFile.open') or (callee_attr(call) == 'open' and isinstance(call.func, ast.Attribute) and u(call.func.value) in ('self', 'seqfile', 'file')):
            if fi.qualname in ('gambit.seq.SequenceFile.open',):
                continue
            mode, how = mode_of(call, 1 if tgt == 'gambit.util.io.open_compressed' else 0)
            n += 1
            rep.add('W4', fi.site(call), f'{fi.name}: sequence files are opened for reading', how == 'default' or (how == 'literal' and mode.startswith('r')), expected="'rt' / 'rb' / default", found=u(call), stmt=call, construct=fi.qualname)
    rep.floor('W4', 'sequence-file open sites', n, 1)
    # maybe_open callers with a write mode are all classified above (they appear as sinks). Positive control:
    ctl = m.snippet_func("def control(self):\n    with open(self._signatures_path, 'a') as f:\n        f.write('x')\n")
    cs = find_write_sinks(m, [ctl])
    okc = len(cs) == 1 and tainted(cs[0][3]) == ['_signatures_path']
    rep.require(okc, 'W4 positive control failed: a write to self._signatures_path is not recognised as a tainted sink')
    rep.info['w4_positive_control'] = okc


def check_h5_mutators(ctx):
    rep, m = ctx.rep, ctx.model
    allowed = {'gambit.sigs.hdf5.HDF5Signatures._init_attrs', 'gambit.sigs.hdf5.write_metadata', 'gambit.sigs.hdf5.HDF5Signatures._init_datasets'}
    found = {}
    for fi in m.functions.values():
        if fi.module.kind != 'py':
            continue
        for c in calls_in(fi.node):
            if callee_attr(c) in HDF5_MUTATORS and isinstance(c.func, ast.Attribute) and u(c.func.value) not in ('shutil', 'os', 'self', 'gjson.converter', 'converter'):
                found.setdefault(fi.qualname, []).append(u(c)[:50])
        for s in stmts_in(fi.node.body):
            tg = s.targets if isinstance(s, ast.Assign) else [s.target] if isinstance(s, ast.AugAssign) else s.targets if isinstance(s, ast.Delete) else []
            for t in tg:
                if isinstance(t, ast.Subscript) and isinstance(t.value, ast.Attribute) and t.value.attr == 'attrs':
                    found.setdefault(fi.qualname, []).append(u(t))
                if isinstance(t, ast.Subscript) and u(t.value) in ('values', 'bounds', 'self.values', 'self.bounds', 'group', 'self.group', 'h5file') and fi.module.name == 'gambit.sigs.hdf5':
                    found.setdefault(fi.qualname, []).append(u(t))
    rep.floor('W5', 'functions containing HDF5 mutators', len(found), 3)
    # a helper that is not part of the reference tree (extracted writer step) may hold mutators when it is reached only from the
    # writer functions (directly or through other such helpers), or from nowhere any more (every call was expanded in place)
    from ..inline import known_symbols
    known = known_symbols()

    def confined(q, seen=()):
        if q in allowed:
            return True
        if q in known or q in seen or q not in m.functions:
            return False
        callers = set()
        for g, call in m.iter_calls(kinds=('py',)):
            if g.qualname == q:
                continue
            if m.resolve_call(g, call) == q:
                callers.add(g.qualname)
            elif isinstance(call.func, ast.Attribute) and call.func.attr == m.functions[q].name and m.functions[q].cls is not None and g.cls is not None \
                    and g.cls.qualname == m.functions[q].cls.qualname and isinstance(call.func.value, ast.Name) and call.func.value.id in ('self', 'cls', g.cls.node.name):
                callers.add(g.qualname)
        return all(confined(c, seen + (q,)) for c in callers)
    base_allowed = set(allowed)
    extra_ok = {q for q in found if q not in allowed and confined(q)}
    allowed = set(allowed) | extra_ok
    for q, items in sorted(found.items()):
        fi = m.functions[q]
        rep.functions.add(q)
        rep.add('W5', fi.site(), f'{fi.name}: HDF5 mutators (create_dataset / attrs[...] = / dataset stores) occur only in the writer functions', q in allowed, expected=sorted(a.rsplit('.', 1)[1] for a in allowed), found=items[:3], stmt=f'mutators in {q}',
                construct=q)
    # callers of the writer functions
    callers = {a: set() for a in base_allowed}
    for fi, call in m.iter_calls(kinds=('py',)):
        tgt = m.resolve_call(fi, call)
        if tgt in callers:
            callers[tgt].add(fi.qualname)
    want = {'gambit.sigs.hdf5.HDF5Signatures._init_attrs': {'gambit.sigs.hdf5.HDF5Signatures.create'}, 'gambit.sigs.hdf5.HDF5Signatures._init_datasets': {'gambit.sigs.hdf5.HDF5Signatures.create'},
            'gambit.sigs.hdf5.write_metadata': {'gambit.sigs.hdf5.HDF5Signatures._init_attrs'}}
    for a in sorted(base_allowed):
        rep.add('W5', m.functions[a].site(), f'{a.rsplit(".", 1)[1]} is reachable only from the create() path', callers[a] == want[a], expected=sorted(want[a]), found=sorted(callers[a]), stmt=f'callers of {a}', construct=a)
    cr = set()
    for fi, call in m.iter_calls(kinds=('py',)):
        if m.resolve_call(fi, call) == 'gambit.sigs.hdf5.HDF5Signatures.create':
            cr.add(fi.qualname)
    rep.add('W5', m.func('gambit.sigs.hdf5.HDF5Signatures.create').site(), 'create() is called only by the file writer', cr == {'gambit.sigs.hdf5.dump_signatures_hdf5'}, expected=['dump_signatures_hdf5'], found=sorted(cr), stmt='callers of create')
    dp = set()
    for fi, call in m.iter_calls(kinds=('py',)):
        if m.resolve_call(fi, call) in ('gambit.sigs.hdf5.dump_signatures_hdf5', 'gambit.sigs.base.dump_signatures'):
            dp.add(fi.qualname)
            if fi.qualname not in ('gambit.sigs.base.dump_signatures',):
                t = tainted(call.args[0]) if call.args else []
                rep.add('W5', fi.site(call), f'{fi.name}: the signature writer is given an output path, not a database path', not t, expected='output option', found=t or u(call.args[0]), stmt=call, construct=fi.qualname)
    rep.add('W5', m.func('gambit.sigs.base.dump_signatures').site(), 'the writer is invoked only by `signatures create`', dp == {'gambit.sigs.base.dump_signatures', 'gambit.cli.signatures.create'}, expected=['dump_signatures', 'cli create'],
            found=sorted(dp), stmt='callers of dump')


def check_orm(ctx):
    rep, m = ctx.rep, ctx.model
    from ..inline import known_symbols
    known = known_symbols()
    bad = []
    n = 0
    for fi, call in m.iter_calls(kinds=('py',)):
        if isinstance(call.func, ast.Attribute) and call.func.attr in SESSION_WRITE_METHODS:
            recv = u(call.func.value)
            if re.search(r'session|Session\(|self\.engine|engine|connection|conn\b', recv) and 'progress' not in recv:
                bad.append((fi, call))
    for fi, call in bad:
        rep.add('W6', fi.site(call), f'{fi.name}: no session / engine write call', False, expected='none', found=u(call)[:70], stmt=call, construct=fi.qualname)
    rep.add('W6', ('src/gambit', 1, 'gambit'), 'no call to add/add_all/delete/merge/commit/flush/bulk_*/execute on a session or engine anywhere in the package', not bad, expected='none', found=[u(c)[:50] for _, c in bad], stmt='session write sweep')
    # read-side modules store nothing on objects they are given
    for fi in sorted(m.functions.values(), key=lambda f: f.qualname):
        if fi.module.name not in ('gambit.db.refdb', 'gambit.db.models', 'gambit.classify', 'gambit.query'):
            continue
        if fi.name in ('__init__',):
            continue
        n += 1
        ws = [d for node, d in effects.nonlocal_writes(fi, model=m, strict=True) if not d.startswith('mutating call')]
        if fi.cls is not None and fi.cls.qualname not in known and not any((b or '').endswith('.Base') for b in fi.cls.bases):
            # a helper class introduced by a refactoring (not a model, not part of the reference tree): its methods keep their own state on self
            selfname = fi.params()[0] if fi.params() else 'self'
            ws = [d for d in ws if not (d.startswith(f'store to {selfname}.') or d.startswith(f'store to {selfname}['))]
        # ReferenceDatabase attributes are its own state; model objects must not be written
        rep.add('W6', fi.site(), f'{fi.name}: stores no attribute / item on an object it was given (model instances stay clean, nothing to flush)', not ws, expected='no parameter stores', found=ws[:3], stmt=f'stores {fi.qualname}', construct=fi.qualname)
    rep.floor('W6', 'read-side functions scanned', n, 30)
    # positive control
    ctl = m.snippet_func('def control(session, gset):\n    session.add(gset)\n    gset.name = "x"\n')
    hits = [c for c in calls_in(ctl.node) if isinstance(c.func, ast.Attribute) and c.func.attr in SESSION_WRITE_METHODS and re.search(r'session', u(c.func.value))]
    ws = effects.nonlocal_writes(ctl)
    rep.require(len(hits) == 1 and any('gset.name' in d for _, d in ws), 'W6 positive control failed')


def check(ctx):
    rep = ctx.rep
    rep.rule('W1', 'ReadOnlySession: flush calls nothing; commit raises on every CFG path')
    rep.rule('W2', 'read-only session class is the default and is used at every session construction site')
    rep.rule('W3', "h5py.File on the read path has no mode; loaders are called with a path only; h5py pinned to 3.x (default 'r')")
    rep.rule('W4', 'every write sink in the package is classified and none takes a database-path-tainted argument (positive control embedded)')
    rep.rule('W5', 'HDF5 mutators confined to the writer functions, reachable only from create()/dump, called only by `signatures create`')
    rep.rule('W6', 'no session/engine write call; read-side functions store nothing on their arguments (positive control embedded)')
    rep.trusted += ['SQLite does not modify a database file on read-only use of a read-write handle', "h5py mode 'r' never writes", 'SQLAlchemy only writes on flush/commit/execute']
    check_session(ctx)
    check_h5(ctx)
    check_sinks(ctx)
    check_h5_mutators(ctx)
    check_orm(ctx)


from ..variants import V  # noqa: E402

_S = 'src/gambit/db/sqla.py'
_H = 'src/gambit/sigs/hdf5.py'
_C = 'src/gambit/cli/common.py'
_R = 'src/gambit/db/refdb.py'
_FS_OLD = "\tif cls is None:\n\t\tcls = ReadOnlySession if readonly else Session\n\tengine = create_engine(f'sqlite:///{os.fspath(path)}')\n\treturn sessionmaker(engine, class_=cls, **kw)"
VARIANTS = [
    V('sessionmaker cache keyed without the session class (seeded C18c)', 'B', 'src/gambit/db/sqla.py', "\tengine = create_engine(f'sqlite:///{os.fspath(path)}')\n\treturn sessionmaker(engine, class_=cls, **kw)\n",
      "\turl = f'sqlite:///{os.fspath(path)}'\n\tif kw:\n\t\treturn sessionmaker(create_engine(url), class_=cls, **kw)\n\tkey = (url, readonly)\n\tif key not in _SM:\n\t\t_SM[key] = sessionmaker(create_engine(url), class_=cls)\n\treturn _SM[key]\n", 'W2',
      also=(('src/gambit/db/sqla.py', "def file_sessionmaker(", "_SM = {}\n\n\ndef file_sessionmaker("),)),
    V('E: sessionmaker cache keyed with mode and class', 'E', 'src/gambit/db/sqla.py', "\tengine = create_engine(f'sqlite:///{os.fspath(path)}')\n\treturn sessionmaker(engine, class_=cls, **kw)\n",
      "\turl = f'sqlite:///{os.fspath(path)}'\n\tif kw:\n\t\treturn sessionmaker(create_engine(url), class_=cls, **kw)\n\tkey = (url, readonly, cls)\n\tif key not in _SM:\n\t\t_SM[key] = sessionmaker(create_engine(url), class_=cls)\n\treturn _SM[key]\n",
      also=(('src/gambit/db/sqla.py', "def file_sessionmaker(", "_SM = {}\n\n\ndef file_sessionmaker("),)),
    V('flush delegates to the base class', 'B', _S, "\t\t# Make flush a no-op\n\t\tpass", "\t\tsuper().flush(*args, **kwargs)", 'W1'),
    V('commit raises only when dirty', 'B', _S, "\t\traise TypeError('Session is read-only')", "\t\tif self.dirty:\n\t\t\traise TypeError('Session is read-only')", 'W1'),
    V('readonly default False', 'B', _S, "readonly: bool = True", "readonly: bool = False", 'W2'),
    V('loader call site asks for a writable session', 'B', _R, "session = file_sessionmaker(db_file)()", "session = file_sessionmaker(db_file, readonly=False)()", 'W2'),
    V("signature file opened 'r+'", 'B', _H, "h5file = h5.File(path, **kw)", "h5file = h5.File(path, 'r+', **kw)", 'W'),
    V("signature file opened 'a'", 'B', _H, "h5file = h5.File(path, **kw)", "h5file = h5.File(path, mode='a', **kw)", 'W'),
    V('CLI writes a last-used stamp into the signature file', 'B', _C, "\t\t\tself._signatures = load_signatures(self._signatures_path)\n",
      "\t\t\tself._signatures = load_signatures(self._signatures_path)\n\t\t\tself._signatures.group.attrs['last_used'] = 'now'\n", 'W5'),
    V('loader adds an object to the session', 'B', _R, "\tgset = only_genomeset(session)\n\treturn session, gset", "\tgset = only_genomeset(session)\n\tsession.add(gset)\n\treturn session, gset", 'W6'),
    V('CLI sessionmaker uses the default Session', 'B', _C, "self._Session = sessionmaker(self.engine, class_=ReadOnlySession)", "self._Session = sessionmaker(self.engine)", 'W2'),
    V('CLI forwards a mode to the signature loader', 'B', _C, "self._signatures = load_signatures(self._signatures_path)", "self._signatures = load_signatures(self._signatures_path, mode='a')", 'W3'),
    V('lock file written next to the database', 'B', _C, "\t\t\tself._has_genomes = self._has_signatures = True\n", "\t\t\tself._has_genomes = self._has_signatures = True\n\t\t\topen(str(self._signatures_path) + '.lock', 'w').close()\n", 'W4'),
    V('classifier caches a field on the taxon', 'B', 'src/gambit/classify.py', "\t\tif t.distance_threshold is not None and d <= t.distance_threshold:\n\t\t\treturn t", "\t\tif t.distance_threshold is not None and d <= t.distance_threshold:\n\t\t\tt.extra = dict(matched=True)\n\t\t\treturn t", 'W6'),
    V('E: flush with a docstring only', 'E', _S, "\t\t# Make flush a no-op\n\t\tpass", "\t\t\"\"\"No-op.\"\"\""),
    V("E: explicit mode 'r'", 'E', _H, "h5file = h5.File(path, **kw)", "h5file = h5.File(path, 'r', **kw)"),
    # class choice decided by evaluation: new shapes + their broken twins
    V('E: class chosen by an if/elif chain into a new local', 'E', _S, _FS_OLD,
      "\tengine = create_engine(f'sqlite:///{os.fspath(path)}')\n\tif cls is not None:\n\t\tsession_cls = cls\n\telif readonly:\n\t\tsession_cls = ReadOnlySession\n\telse:\n\t\tsession_cls = Session\n\treturn sessionmaker(engine, class_=session_cls, **kw)"),
    V('E: class chosen by guard clauses with early returns', 'E', _S, _FS_OLD,
      "\tengine = create_engine(f'sqlite:///{os.fspath(path)}')\n\tif cls is not None:\n\t\treturn sessionmaker(engine, class_=cls, **kw)\n\tif not readonly:\n\t\treturn sessionmaker(engine, class_=Session, **kw)\n\treturn sessionmaker(engine, class_=ReadOnlySession, **kw)"),
    V('if/elif chain with the arms swapped', 'B', _S, _FS_OLD,
      "\tengine = create_engine(f'sqlite:///{os.fspath(path)}')\n\tif cls is not None:\n\t\tsession_cls = cls\n\telif readonly:\n\t\tsession_cls = Session\n\telse:\n\t\tsession_cls = ReadOnlySession\n\treturn sessionmaker(engine, class_=session_cls, **kw)", 'W2'),
    V('chain computes a new local but the stale parameter is passed', 'B', _S, _FS_OLD,
      "\tengine = create_engine(f'sqlite:///{os.fspath(path)}')\n\tif cls is not None:\n\t\tsession_cls = cls\n\telif readonly:\n\t\tsession_cls = ReadOnlySession\n\telse:\n\t\tsession_cls = Session\n\treturn sessionmaker(engine, class_=cls, **kw)", 'W2'),
    V('guard clauses: read-only branch falls through to the plain Session', 'B', _S, _FS_OLD,
      "\tengine = create_engine(f'sqlite:///{os.fspath(path)}')\n\tif cls is not None:\n\t\treturn sessionmaker(engine, class_=cls, **kw)\n\tif readonly is None:\n\t\treturn sessionmaker(engine, class_=ReadOnlySession, **kw)\n\treturn sessionmaker(engine, class_=Session, **kw)", 'W2'),
    V('conditional expression with the arms swapped', 'B', _S, "\t\tcls = ReadOnlySession if readonly else Session", "\t\tcls = Session if readonly else ReadOnlySession", 'W2'),
]
