"""C16 - the distance-matrix command labels and fills every cell correctly.

G1 ids travel with their source (same branch, same object / same get_sequence_files call); square: ref_ids = query_ids
G2 orientation: matrix(query_sigs, ref_sigs) <-> dump_dmat_csv(output, dmat, query_ids, ref_ids); square uses pairwise (non-flat)
G3 computed signatures are aligned with the files of the same side and use the reconciled kspec
G4 writer: header from col_ids; rows zip_strict(row_ids, dmat); each value format(d, fmt) with fmt default '0.4f'; csv.writer
"""
import ast

from .. import align
from ..astutil import (u, atoms, guard_map, path_atoms, stmts_in, calls_in, callee, callee_attr, reaching_def, def_value,
                       PARAM, AMBIGUOUS, get_arg, get_kw, is_none, is_const, raised_name, block_path)
from ..report import Undecided

D = 'gambit.cli.dist.dist_cmd'


def check(ctx):
    rep, m = ctx.rep, ctx.model
    rep.rule('G1', 'each *_ids is assigned in the same branch as, and derived from, its source; square sets ref_ids = query_ids')
    rep.rule('G2', 'row labels go with the first matrix operand, column labels with the second; square = non-flat pairwise of the queries')
    rep.rule('G3', 'signatures computed per side from that side\'s files with the reconciled kspec')
    rep.rule('G4', 'dump_dmat_csv: header, strictly zipped rows, fixed 4-decimal format, csv.writer')
    rep.trusted += ["format(float32, '0.4f') rounds to four decimals", 'csv.writer quoting', 'C05 (cells), C13 (file order), C14 (parameter reconciliation)']
    fi = m.func(D)
    rep.functions.add(fi.qualname)
    fn = fi.node
    gm = guard_map(fn)
    # ---- sinks
    dumps = [c for c in calls_in(fn) if m.resolve_call(fi, c) == 'gambit.cluster.dump_dmat_csv']
    rep.require(len(dumps) == 1, 'dist_cmd: expected one dump_dmat_csv call')
    dc = dumps[0]
    dst = next(s for s in fn.body if any(x is dc for x in ast.walk(s)))
    out_a, dmat_a, rows_a, cols_a = (get_arg(dc, i, n) for i, n in enumerate(['file', 'dmat', 'row_ids', 'col_ids']))
    mats = [c for c in calls_in(fn) if m.resolve_call(fi, c) == 'gambit.metric.jaccarddist_matrix']
    pairs = [c for c in calls_in(fn) if m.resolve_call(fi, c) == 'gambit.metric.jaccarddist_pairwise']
    rep.require(len(mats) == 1 and len(pairs) == 1, 'dist_cmd: expected one matrix and one pairwise call')
    mc, pc = mats[0], pairs[0]
    mst = next(s for s in stmts_in(fn.body) if isinstance(s, ast.Assign) and s.value is mc)
    pst = next(s for s in stmts_in(fn.body) if isinstance(s, ast.Assign) and s.value is pc)
    q_sigs, r_sigs = u(mc.args[0]), u(mc.args[1])
    rep.add('G2', fi.site(dc), 'the written matrix is the one just computed (either mode)', u(mst.targets[0]) == u(pst.targets[0]) == u(dmat_a), expected=f'{u(dmat_a)} from both branches', found=(u(mst.targets[0]), u(pst.targets[0])), stmt='matrix variable')
    atm, atp = path_atoms(gm[mst]), path_atoms(gm[pst])
    rep.add('G2', fi.site(pst), 'square mode computes all pairs of the queries, as a full (non-flat) matrix', ('true', 'square') in atp and u(pc.args[0]) == q_sigs and get_kw(pc, 'flat') is None and len(pc.args) == 1,
            expected=f'jaccarddist_pairwise({q_sigs}) under square', found=(u(pc)[:60], sorted(atp)), stmt='square mode')
    rep.add('G2', fi.site(mst), 'otherwise rows are the queries and columns the references', ('false', 'square') in atm and q_sigs.startswith('query') and r_sigs.startswith('ref') and get_kw(mc, 'ref_indices') is None,
            expected='jaccarddist_matrix(query_sigs, ref_sigs) under not square', found=(u(mc)[:60], sorted(atm)), stmt='matrix mode')
    q_ids, r_ids = u(rows_a), u(cols_a)
    rep.add('G2', fi.site(dc), 'row labels are the query ids and column labels the reference ids (same orientation as the matrix operands)', q_ids.startswith('query') and r_ids.startswith('ref') and u(out_a) == 'output',
            expected='dump_dmat_csv(output, dmat, query_ids, ref_ids)', found=u(dc), stmt='label orientation')
    # ---- G1: per side, ids and sigs/files defined together in each branch
    def files_var(ids):
        for s_ in stmts_in(fn.body):
            if isinstance(s_, ast.Assign) and isinstance(s_.targets[0], ast.Tuple) and len(s_.targets[0].elts) == 2 and u(s_.targets[0].elts[0]) == ids:
                return u(s_.targets[0].elts[1])
        return f'{ids}:files?'
    sides = {'query': (q_ids, q_sigs, files_var(q_ids)), 'ref': (r_ids, r_sigs, files_var(r_ids))}
    ksd = [s_ for s_ in fn.body if isinstance(s_, ast.Assign) and isinstance(s_.value, ast.Call) and (m.resolve_call(fi, s_.value) or '').endswith('kspec_from_params')]
    KS = u(ksd[0].targets[0]) if len(ksd) == 1 else 'kspec'
    nbranches = 0
    for side, (ids, sigs, files) in sides.items():
        id_defs = [s for s in stmts_in(fn.body) if isinstance(s, ast.Assign) and any(ids in [u(e) for e in (t.elts if isinstance(t, ast.Tuple) else [t])] for t in s.targets)]
        for s in id_defs:
            nbranches += 1
            blk = block_path(fn, s)[-1][0]
            tgt = s.targets[0]
            if isinstance(tgt, ast.Tuple):
                # ids, files = get_sequence_files(a, b, c)
                okc = isinstance(s.value, ast.Call) and m.resolve_call(fi, s.value) == 'gambit.cli.common.get_sequence_files' and [u(e) for e in tgt.elts] == [ids, files]
                args = [u(a) for a in s.value.args] if isinstance(s.value, ast.Call) else []
                want = ['q', 'ql', 'qdir'] if side == 'query' else ['r', 'rl', 'rdir']
                sig_none = any(isinstance(x, ast.Assign) and any(u(t) == sigs for t in x.targets) and is_none(x.value) for x in blk)
                rep.add('G1', fi.site(s), f'{side} side from files: ids and files are the aligned pair of one get_sequence_files call on this side\'s options; no pre-computed signatures', okc and args == want and sig_none,
                        expected=f'{ids}, {files} = get_sequence_files({", ".join(want)}); {sigs} = None', found=(u(s), sig_none), stmt=f'{side} files branch')
            elif u(s.value) == f'{sigs}.ids':
                # ids from the loaded object assigned in the same block
                sdef = [x for x in blk if isinstance(x, ast.Assign) and u(x.targets[0]) == sigs and x.lineno < s.lineno]
                oks = len(sdef) == 1
                rep.add('G1', fi.site(s), f'{side} side from signatures: ids are the stored ids of the very object assigned in this branch', oks, expected=f'{sigs} = <source>; {ids} = {sigs}.ids', found=[u(x) for x in sdef],
                        stmt=f'{side} sigs branch @{u(sdef[0].value)[:30] if sdef else "?"}')
            elif side == 'ref' and u(s.value) == q_ids:
                at = path_atoms(gm[s])
                rep.add('G1', fi.site(s), 'square mode labels the columns with the query ids', ('true', 'square') in at, expected='ref_ids = query_ids under square', found=sorted(at), stmt='square ids')
            else:
                rep.add('G1', fi.site(s), f'{side} ids come from this side\'s own source', False, expected=f'{sigs}.ids | get_sequence_files | query_ids (square)', found=u(s), stmt=f'{side} ids other')
    rep.floor('G1', 'id-assignment branches', nbranches, 5)
    loads = {}
    for s in stmts_in(fn.body):
        if isinstance(s, ast.Assign) and isinstance(s.value, ast.Call) and (m.resolve_call(fi, s.value) or '').endswith('load_signatures'):
            loads[u(s.targets[0])] = [u(a) for a in s.value.args]
    if q_sigs not in loads or r_sigs not in loads:
        # loading may be wrapped in a helper: accept any call whose first argument is the side's own click option
        for s in stmts_in(fn.body):
            if isinstance(s, ast.Assign) and isinstance(s.value, ast.Call) and u(s.targets[0]) in (q_sigs, r_sigs) and s.value.args and u(s.value.args[0]) in ('qs', 'rs'):
                loads.setdefault(u(s.targets[0]), [u(s.value.args[0])])
    rep.require(q_sigs in loads and r_sigs in loads, 'dist_cmd: cannot find where the signature-file options are loaded')
    rep.add('G1', fi.site(), 'each side loads its own signature file option', loads.get(q_sigs) == ['qs'] and loads.get(r_sigs) == ['rs'], expected={q_sigs: ['qs'], r_sigs: ['rs']}, found=loads, stmt='signature file options')
    ctx_aliases = {'ctx.obj'} | {u(x.targets[0]) for x in stmts_in(fn.body) if isinstance(x, ast.Assign) and u(x.value) == 'ctx.obj'}
    dbs = [s for s in stmts_in(fn.body) if isinstance(s, ast.Assign) and u(s.targets[0]) == r_sigs and u(s.value) in {f'{a}.signatures' for a in ctx_aliases}]
    rep.add('G1', fi.site(dbs[0] if dbs else None), "--use-db takes the database's signatures as references", len(dbs) == 1 and ('true', 'use_db') in path_atoms(gm[dbs[0]]), expected='ref_sigs = ctx.obj.signatures under use_db',
            found=[u(x) for x in dbs], stmt='use_db source')
    # ---- G3: computed signatures
    calcs = [s for s in stmts_in(fn.body) if isinstance(s, ast.Assign) and isinstance(s.value, ast.Call) and (m.resolve_call(fi, s.value) or '').endswith('calc_file_signatures')]
    rep.floor('G3', 'calc_file_signatures sites in dist_cmd', len(calcs), 2)
    for s in calcs:
        side = 'query' if u(s.targets[0]) == q_sigs else 'ref' if u(s.targets[0]) == r_sigs else None
        rep.require(side is not None, f'dist_cmd: computed signatures assigned to {u(s.targets[0])}')
        ids, sigs, files = sides[side]
        root = align.source(m, fi, s.value.args[1], s)[0]
        if root.startswith('?'):
            # the files variable is None in the pre-computed branches (G1) and bound by get_sequence_files in the files
            # branch; under `<sigs> is None` only that definition is live: use the unique non-None definition
            nm = root[1:]
            nn = [x for x in stmts_in(fn.body) if isinstance(x, ast.Assign) and any(nm in [u(e) for e in (t.elts if isinstance(t, (ast.Tuple, ast.List)) else [t])] for t in x.targets)
                  and not is_none(x.value)]
            if len(nn) == 1 and isinstance(nn[0].value, ast.Call) and m.resolve_call(fi, nn[0].value) == 'gambit.cli.common.get_sequence_files':
                root = f'gambit.cli.common.get_sequence_files({", ".join(u(a) for a in nn[0].value.args)})@{nn[0].lineno}'
        at = path_atoms(gm[s])
        rep.add('G3', fi.site(s), f'{side} signatures are computed from this side\'s files (in file order), only when not pre-computed, with the reconciled parameters',
                root.startswith('gambit.cli.common.get_sequence_files(') and ('is', 'None', sigs) in at and u(s.value.args[0]) == KS, expected=f'{sigs} = calc_file_signatures(kspec, <{files}>) under {sigs} is None',
                found=(root, sorted(at), u(s.value.args[0])), stmt=f'{side} computed')
        idd = [x for x in stmts_in(fn.body) if isinstance(x, ast.Assign) and isinstance(x.targets[0], ast.Tuple) and ids in [u(e) for e in x.targets[0].elts]]
        same = idd and root == f'gambit.cli.common.get_sequence_files({", ".join(u(a) for a in idd[0].value.args)})@{idd[0].lineno}'
        rep.add('G3', fi.site(s), f'{side} labels and {side} signatures descend from the same get_sequence_files call', bool(same), expected='same call', found=root, stmt=f'{side} label/signature alignment')
    # no reassignments of ids after sources fixed
    late = [s for s in stmts_in(fn.body) if isinstance(s, ast.Assign) and any(u(t) in (q_ids, r_ids) for t in s.targets) and s.lineno > min(c.lineno for c in calcs)]
    rep.add('G1', fi.site(late[0] if late else None), 'labels are not rebound after the sources are chosen', not late, expected='none', found=[u(s) for s in late], stmt='late id rebinding')

    # ---- G4 writer
    fw = m.func('gambit.cluster.dump_dmat_csv')
    rep.functions.add(fw.qualname)
    p = fw.params()
    d = fw.param_default('fmt')
    rep.add('G4', fw.site(), 'values are written with a fixed four-decimal format by default', d is not None and is_const(d, '0.4f'), expected="'0.4f'", found=u(d), stmt='default format')
    rep.add('G4', fi.site(dc), 'the command uses that default format', get_kw(dc, 'fmt') is None and len(dc.args) <= 5, expected='fmt not overridden', found=u(dc), stmt='format not overridden')
    rep.account_returns('G4', fw, [], 'row (the writer must not leave before every row is written)')
    wr = [s for s in stmts_in(fw.node.body) if isinstance(s, ast.Assign) and isinstance(s.value, ast.Call) and u(s.value.func) == 'csv.writer']
    rows = [c for c in calls_in(fw.node) if callee_attr(c) == 'writerow']
    rep.add('G4', fw.site(wr[0] if wr else None), 'cells go through csv.writer (labels with commas/quotes stay parseable)', len(wr) == 1 and all(u(c.func.value) == u(wr[0].targets[0]) for c in rows) and len(rows) == 2, expected='csv.writer(...).writerow x2',
            found=[u(c)[:50] for c in rows], stmt='csv writer')
    hdr = next((c for c in rows if not any(isinstance(o, ast.For) for (_, _, o) in block_path(fw.node, next(s for s in stmts_in(fw.node.body) if isinstance(s, ast.Expr) and s.value is c)))), None)
    okh = hdr is not None and isinstance(hdr.args[0], ast.List) and len(hdr.args[0].elts) == 2 and isinstance(hdr.args[0].elts[1], ast.Starred) and u(hdr.args[0].elts[1].value) == f'map(str, {p[3]})'
    rep.add('G4', fw.site(hdr), 'header = corner cell followed by the column ids in order', okh, expected=f"[corner or '', *map(str, {p[3]})]", found=u(hdr.args[0]) if hdr is not None else None, stmt='header')
    loops = [s for s in stmts_in(fw.node.body) if isinstance(s, ast.For)]
    okl = len(loops) == 1 and isinstance(loops[0].iter, ast.Call) and u(loops[0].iter.func) == 'zip_strict' and [u(a) for a in loops[0].iter.args] == [p[2], p[1]]
    rep.add('G4', fw.site(loops[0] if loops else None), 'row ids are STRICTLY zipped with the matrix rows (count mismatch is an error)', okl, expected=f'for row_id, values in zip_strict({p[2]}, {p[1]})', found=[u(l.iter) for l in loops], stmt='row zip')
    if okl:
        rid, vals = (u(e) for e in loops[0].target.elts)
        body_row = next((c for c in rows if c is not hdr), None)
        vs = next((s for s in loops[0].body if isinstance(s, ast.Assign)), None)
        okv = vs is not None and isinstance(vs.value, (ast.GeneratorExp, ast.ListComp)) and u(vs.value.generators[0].iter) == vals and not vs.value.generators[0].ifs \
            and u(vs.value.elt) == f'format({u(vs.value.generators[0].target)}, {p[5]})'
        okr = body_row is not None and isinstance(body_row.args[0], ast.List) and u(body_row.args[0].elts[0]) == f'str({rid})' and isinstance(body_row.args[0].elts[1], ast.Starred) \
            and vs is not None and u(body_row.args[0].elts[1].value) == u(vs.targets[0])
        rep.add('G4', fw.site(loops[0]), 'each row = its id followed by every value of its matrix row formatted with fmt, in column order', okv and okr, expected=f'[str({rid}), *(format(d, {p[5]}) for d in {vals})]',
                found=(u(vs.value) if vs is not None else None, u(body_row.args[0]) if body_row is not None else None), stmt='row cells')
    # "every value being the true signature distance": cell provenance of the bulk functions the command calls (C05-B1), re-evaluated
    from . import c05
    rep.rule('B1', 'C05-B1 re-evaluated: every matrix cell is the unmodified kernel value, a copy of a cell, or the zero diagonal')
    c05.check_stores(ctx)
    # "every value being the true signature distance ... for every way of supplying either side": both operands of every
    # comparison in dist_cmd must have known-equal k-mer parameters on every option path (C14-P1/P2 on dist_cmd, re-evaluated)
    from . import c14
    rep.rule('P1', 'C14-P1 re-evaluated on dist_cmd: sink operands have known-equal k-mer parameters on every abstract path')
    rep.rule('P2', 'C14-P2 re-evaluated on dist_cmd'); rep.rule('P4', 'C14-P4 re-evaluated on dist_cmd')
    c14.check_commands(ctx, only={D})
    wo = [s for s in stmts_in(fw.node.body) if isinstance(s, ast.With)]
    okw = len(wo) == 1 and isinstance(wo[0].items[0].context_expr, ast.Call) and u(wo[0].items[0].context_expr.func) == 'maybe_open' and [u(a) for a in wo[0].items[0].context_expr.args[:2]] == [p[0], "'w'"] \
        and u(get_kw(wo[0].items[0].context_expr, 'newline')) == "''"
    rep.add('G4', fw.site(wo[0] if wo else None), "the file is opened for writing with newline='' (csv module requirement)", okw, expected="maybe_open(file, 'w', newline='')", found=[u(w.items[0].context_expr) for w in wo], stmt='open mode')


from ..variants import V  # noqa: E402

_D = 'src/gambit/cli/dist.py'
_C = 'src/gambit/cluster.py'
VARIANTS = [
    V('label arguments swapped', 'B', _D, "dump_dmat_csv(output, dmat, query_ids, ref_ids)", "dump_dmat_csv(output, dmat, ref_ids, query_ids)", 'G2'),
    V('matrix operands swapped', 'B', _D, "dmat = jaccarddist_matrix(query_sigs, ref_sigs, progress=dist_pconf)", "dmat = jaccarddist_matrix(ref_sigs, query_sigs, progress=dist_pconf)", 'G2'),
    V('square ids from another list', 'B', _D, "\t\tref_ids = query_ids\n", "\t\tref_ids = sorted(query_ids)\n", 'G1'),
    V('default format 3 decimals', 'B', _C, "fmt: str = '0.4f',", "fmt: str = '0.3f',", 'G4'),
    V('zip for zip_strict in the writer', 'B', _C, "for row_id, values in zip_strict(row_ids, dmat):", "for row_id, values in zip(row_ids, dmat):", 'G4'),
    V('flat pairwise output', 'B', _D, "dmat = jaccarddist_pairwise(query_sigs, progress=dist_pconf)", "dmat = jaccarddist_pairwise(query_sigs, flat=True, progress=dist_pconf)", 'G2'),
    V('query ids from the reference signature file', 'B', _D, "\t\tquery_ids = query_sigs.ids\n", "\t\tquery_ids = ref_sigs.ids if rs is not None else query_sigs.ids\n", 'G1'),
    V('reference signatures computed from the query files', 'B', _D, "ref_sigfiles = SequenceFile.from_paths(ref_files, 'fasta', 'auto')", "ref_sigfiles = SequenceFile.from_paths(query_files, 'fasta', 'auto')", 'G3'),
    V('reference side reads the query list options', 'B', _D, "ref_ids, ref_files = common.get_sequence_files(r, rl, rdir)", "ref_ids, ref_files = common.get_sequence_files(r, ql, qdir)", 'G1'),
    V('header from the row ids', 'B', _C, "writer.writerow([corner or '', *map(str, col_ids)])", "writer.writerow([corner or '', *map(str, row_ids)])", 'G4'),
    V('values written reversed', 'B', _C, "values_str = (format(d, fmt) for d in values)", "values_str = (format(d, fmt) for d in values[::-1])", 'G4'),
    V('manual join instead of csv.writer', 'B', _C, "writer.writerow([str(row_id), *values_str])", "fobj.write(','.join([str(row_id), *values_str]) + '\\n')", 'G4'),
    V('empty query short-cut writes 1 into the cells (seeded C16a)', 'B', 'src/gambit/metric.py', "\telse:\n\t\tfor i, ref in enumerate(refs):\n\t\t\tref = _cast_sigs_array(ref)",
      "\telif len(query) == 0:\n\t\tout[:] = 1\n\n\telse:\n\t\tfor i, ref in enumerate(refs):\n\t\t\tref = _cast_sigs_array(ref)", 'B1'),
    V('default parameters chosen by the option, not by the loaded signatures (seeded C16b)', 'B', _D, "\t\telif ref_sigs is not None:\n\t\t\tkspec = ref_sigs.kmerspec", "\t\telif rs is not None:\n\t\t\tkspec = ref_sigs.kmerspec", 'P1'),
    V('E: keyword arguments to the writer', 'E', _D, "dump_dmat_csv(output, dmat, query_ids, ref_ids)", "dump_dmat_csv(output, dmat, row_ids=query_ids, col_ids=ref_ids)"),
]
