"""C16 - the distance-matrix command labels and fills every cell correctly.

G1 ids travel with their source (same branch, same object / same get_sequence_files call); square: ref_ids = query_ids
G2 orientation: matrix(query_sigs, ref_sigs) <-> dump_dmat_csv(output, dmat, query_ids, ref_ids); square uses pairwise (non-flat)
G3 computed signatures are aligned with the files of the same side and use the reconciled kspec
G4 writer: header from col_ids; rows zip_strict(row_ids, dmat); each value format(d, fmt) with fmt default '0.4f'; csv.writer
"""
import ast
import copy

from .. import align
from ..astutil import (u, atoms, guard_map, path_atoms, stmts_in, calls_in, callee, callee_attr, reaching_def, def_value,
                       PARAM, AMBIGUOUS, get_arg, get_kw, is_none, is_const, raised_name, block_path, assigns_to, binds, binds_deep)
from ..report import Undecided

D = 'gambit.cli.dist.dist_cmd'


_NEG = {'is': 'isnot', 'isnot': 'is', 'true': 'false', 'false': 'true', 'eq': 'ne', 'ne': 'eq', 'in': 'notin', 'notin': 'in'}


def _negated(a):
    if a[0] in _NEG:
        return (_NEG[a[0]],) + tuple(a[1:])
    if a[0] in ('lt', 'le'):
        return ('le' if a[0] == 'lt' else 'lt', a[2], a[1])
    return None


def _alternatives(t, pol):
    """The alternatives of a guard that is a disjunction under this polarity: [atom set | None (not a conjunction of atoms)]."""
    if isinstance(t, ast.UnaryOp) and isinstance(t.op, ast.Not):
        return _alternatives(t.operand, not pol)
    if isinstance(t, ast.BoolOp) and isinstance(t.op, ast.Or if pol else ast.And):
        return [atoms(v, pol) for v in t.values]
    return None


def implied_atoms(guards):
    """path_atoms plus elimination: of a disjunction known to hold, the only alternative the other facts do not refute holds
    (`if a is not None or b:` ... `if a is None:` => b)."""
    facts = set(path_atoms(guards))
    pending = [alts for alts in (_alternatives(t, p) for t, p in guards if atoms(t, p) is None) if alts]
    changed = True
    while changed:
        changed = False
        for alts in pending:
            live = [a for a in alts if a is None or not any(_negated(x) in facts for x in a)]
            if len(live) == 1 and live[0] is not None and not live[0] <= facts:
                facts |= live[0]
                changed = True
    return facts


def comes_after(fn, s, x):
    """Can statement x execute after statement s on one path?  False for an earlier statement and for the other arm of the same `if`."""
    ps, px = block_path(fn, s), block_path(fn, x)
    if ps is None or px is None or x is s:
        return False
    for d, ((bs, i_s, owner), (bx, i_x, _)) in enumerate(zip(ps, px)):
        if bs is not bx:
            # same compound statement, different blocks: the two arms of an `if` exclude each other; anything else (try/handler,
            # loop/else) is taken as sequential
            return not isinstance(owner, ast.If)
        if isinstance(owner, (ast.For, ast.While)):
            return True
        if i_s != i_x:
            return i_x > i_s
    return False


def none_guarded_rebinding(fn, s, x, name):
    """x lies inside an `if name is None:` arm (or the else arm of `if name is not None:`, elif chains included) whose test is evaluated after s
    (any position when s is None) and `name` is not rebound between the test and x: at x, `name` is None."""
    path = block_path(fn, x)
    for (block, idx, owner) in path:
        if isinstance(owner, ast.If) and (s is None or comes_after(fn, s, owner)):
            at = atoms(owner.test, block is owner.body)
            if at and ('is', 'None', name) in at and not any(binds(y, name) or binds_deep(y, name) for y in block[:idx]):
                return True
    return False



def emissions(m, fw):
    """([emission], [reason the extraction is incomplete]).  An emission = dict(row=<expression, locals replaced by their definitions>,
    loops=[(target, iterable)] around it (for statements and comprehension clauses alike), stmt, csv=<written through a csv.writer>,
    writer=<text of the writer construction>).  Order = order of writing."""
    notes = []

    def resolve(e, scope, at, depth=0):
        class R(ast.NodeTransformer):
            def visit_Name(self, n):
                if isinstance(n.ctx, ast.Load) and depth < 6:
                    d = reaching_def(scope, n.id, at)
                    v = def_value(d) if d not in (None, PARAM, AMBIGUOUS) else None
                    if v is not None:
                        return resolve(v, scope, d, depth + 1)
                return n
        return R().visit(copy.deepcopy(e))

    def writer_of(e, scope, at):
        """text of the csv.writer(...) construction a writer expression denotes, else None"""
        w = resolve(e, scope, at)
        return u(w) if isinstance(w, ast.Call) and m.resolve(fw.module, w.func) in ('csv.writer',) or isinstance(w, ast.Call) and u(w.func) == 'csv.writer' else None

    def generator_def(name, scope):
        for n in ast.walk(scope):
            if isinstance(n, ast.FunctionDef) and n is not scope and n.name == name:
                return n
        return None

    def rows_of(g, scope, at, loops, wtext, out, depth=0):
        """the rows an iterable handed to writerows produces"""
        if depth > 4:
            notes.append(f'rows handed to writerows are nested too deeply: {u(g)[:50]}')
        elif isinstance(g, (ast.List, ast.Tuple)) and not any(isinstance(x, ast.Starred) for x in g.elts):
            for x in g.elts:
                out.append(dict(row=resolve(x, scope, at), loops=list(loops), stmt=at, csv=wtext is not None, writer=wtext))
        elif isinstance(g, (ast.GeneratorExp, ast.ListComp)) and not any(c.ifs for c in g.generators):
            out.append(dict(row=resolve(g.elt, scope, at), loops=list(loops) + [(c.target, resolve(c.iter, scope, at)) for c in g.generators], stmt=at, csv=wtext is not None, writer=wtext))
        elif isinstance(g, ast.Call) and isinstance(g.func, ast.Name) and not g.args and not g.keywords and generator_def(g.func.id, scope) is not None:
            gd = generator_def(g.func.id, scope)
            rebound = {a.arg for a in gd.args.args} | {n.id for n in ast.walk(gd) if isinstance(n, ast.Name) and isinstance(n.ctx, ast.Store)}
            if rebound & set(fw.params()):
                notes.append(f'generator {gd.name} rebinds a parameter of the writer')
            walk(gd.body, gd, loops, out, yields=wtext)
        elif isinstance(g, ast.Name):
            d = reaching_def(scope, g.id, at)
            v = def_value(d) if d not in (None, PARAM, AMBIGUOUS) else None
            if v is None:
                notes.append(f'rows handed to writerows come from {g.id}, which has no single definition')
            else:
                rows_of(v, scope, d, loops, wtext, out, depth + 1)
        else:
            notes.append(f'rows handed to writerows are outside the vocabulary: {u(g)[:60]}')

    def walk(stmts, scope, loops, out, yields=None):
        for s in stmts:
            if isinstance(s, ast.Expr) and isinstance(s.value, ast.Call) and isinstance(s.value.func, ast.Attribute) and s.value.func.attr in ('writerow', 'writerows') and len(s.value.args) == 1:
                wtext = writer_of(s.value.func.value, scope, s)
                if s.value.func.attr == 'writerow':
                    out.append(dict(row=resolve(s.value.args[0], scope, s), loops=list(loops), stmt=s, csv=wtext is not None, writer=wtext))
                else:
                    rows_of(s.value.args[0], scope, s, loops, wtext, out)
            elif isinstance(s, ast.Expr) and isinstance(s.value, ast.Yield) and yields is not False and scope is not fw.node:
                if s.value.value is None:
                    notes.append('bare yield in the row generator')
                else:
                    out.append(dict(row=resolve(s.value.value, scope, s), loops=list(loops), stmt=s, csv=yields is not None, writer=yields))
            elif isinstance(s, ast.For) and not s.orelse:
                walk(s.body, scope, loops + [(s.target, resolve(s.iter, scope, s))], out, yields)
            elif isinstance(s, ast.With):
                walk(s.body, scope, loops, out, yields)
            elif isinstance(s, (ast.If, ast.While, ast.Try, ast.For)):
                inner = []
                for b in [getattr(s, f, []) for f in ('body', 'orelse', 'finalbody')] + [h.body for h in getattr(s, 'handlers', [])]:
                    walk(b, scope, loops, inner, yields)
                if inner or any(isinstance(n, (ast.Yield, ast.YieldFrom)) for n in ast.walk(s)):
                    notes.append(f'rows are written under a {type(s).__name__.lower()} statement: {u(s).splitlines()[0][:60]}')
            elif any(isinstance(n, (ast.Yield, ast.YieldFrom)) for n in ast.walk(s)) and not isinstance(s, ast.FunctionDef):
                notes.append(f'yield outside the vocabulary: {u(s)[:60]}')
    out = []
    walk(fw.node.body, fw.node, [], out)
    return out, notes



def alignment_by_paths(ctx, fi, dc, why):
    """G1-G3 decided by abstract interpretation (the C14 interpreter: all option paths, helpers / classmethod constructors followed, records
    field by field): every value carries the sequence it is index-aligned with - the stored order of a loaded or database signature object,
    or the file order of one get_sequence_files call (ids, files, the SequenceFile objects and the signatures computed from them).  At the
    writer, on every path: row labels aligned with the first matrix operand, column labels with the second, and each side fed by its own options."""
    rep, m = ctx.rep, ctx.model
    from .c14 import Interp
    it = Interp(ctx, fi).run()
    rep.require(bool(it.dumps), f'{why}; and no dump_dmat_csv evaluation is reached on the abstract paths')
    rep.info['alignment_decided_by'] = f'abstract paths ({len(it.dumps)} writer evaluations); locals-based rules: {why}'
    Q_OBJ, R_OBJ, DB = ('obj', 'load:qs'), ('obj', 'load:rs'), ('obj', 'DB')
    Q_FILES, R_FILES = ('files', 'q, ql, qdir'), ('files', 'r, rl, rdir')
    bad = dict(orient=[], own=[], side=[], mode=[], files=[], out=[])

    def truth(st, name):
        v = st.env.get(name)
        return True if v is not None and v.kind == 'true' else False if v is not None and v.kind == 'false' else None
    rep.trusted.append('check_params_group(ctx, names, exclusive=True, ...) exits unless at most one of the named options is given (paths with two of them are infeasible)')
    skipped = 0
    for (call, (fv, mv, rv, cv), st) in it.dumps:
        where = ' ; '.join(str(t) for t in st.trail[-8:])
        given = lambda n_: st.env.get(n_) is not None and st.env[n_].kind in ('true', 'other')        # refined to True / not None on this path
        if any(v.kind == 'group' and sum(1 for n_ in v.ent if given(n_)) > 1 for k, v in st.env.items() if isinstance(k, tuple) and k[0] == 'group'):
            skipped += 1
            continue
        rep.require(mv.kind == 'mat', f'{why}; on path [{where}] the matrix written is not the plain result of jaccarddist_matrix / jaccarddist_pairwise')
        mode, pq, pr = mv.ent
        # a sequence whose positions are those of its own side but whose values partly come from elsewhere: positions (labels) are judged on
        # the positions, the values by the deviation recorded where they were taken (G3 below)
        mixed = [x for x in (pq, pr) if x is not None and x[0] == 'mixed']
        pq, pr = (x[1] if x is not None and x[0] == 'mixed' else x for x in (pq, pr))
        for x in mixed:
            bad['files'].append(f'signatures at the positions of {x[1]} partly hold the values of {x[2]} on path [{where}]')
        rep.require(pq is not None and pr is not None, f'{why}; on path [{where}] the order of a matrix operand is unknown (its provenance was lost)')
        for role, lv, own, other in (('row', rv, pq, pr), ('column', cv, pr, pq)):
            if lv.kind == 'files':
                bad['own'].append(f'{role} labels are the file objects of {lv.prov}, not the ids, on path [{where}]')
                continue
            rep.require(lv.kind == 'ids' and lv.prov is not None, f'{why}; on path [{where}] the {role} labels are of unknown provenance ({lv})')
            if lv.prov != own:
                bad['orient' if lv.prov == other else 'own'].append(f'{role} labels follow {lv.prov}, the matrix {role}s follow {own} on path [{where}]')
        if pq not in (Q_OBJ, Q_FILES):
            bad['files' if pq[0] == 'files' else 'side'].append(f'queries come from {pq} on path [{where}]')
        sq, udb = truth(st, 'square'), truth(st, 'use_db')
        if mode == 'pairwise':
            if sq is not True:
                bad['mode'].append(f'all-pairs matrix of the queries written although --square is {"absent" if sq is False else "not consulted"} on path [{where}]')
        else:
            if sq is not False:
                bad['mode'].append(f'query x reference matrix written although --square is {"given" if sq else "not consulted"} on path [{where}]')
            if not (pr in (R_OBJ, R_FILES) or (pr == DB and udb is True)):
                bad['files' if pr[0] == 'files' else 'side'].append(f'references come from {pr} (--use-db {"given" if udb else "absent" if udb is False else "not consulted"}) on path [{where}]')
        if fv.prov != ('param', 'output'):
            bad['out'].append(f'written to {fv} on path [{where}]')
    n = len(it.dumps) - skipped
    rep.require(n > 0, f'{why}; and every abstract path to the writer is infeasible')
    rep.add('G2', fi.site(dc), f'row labels are aligned with the first matrix operand and column labels with the second on every abstract path ({n} paths): not swapped', not bad['orient'],
            expected='labels of each axis aligned with the operand of that axis', found=bad['orient'][:2] or 'ok', stmt='label orientation (paths)')
    rep.add('G1', fi.site(dc), f'the labels of each axis are index-aligned with the source of that axis (stored ids of the same object / ids of the same get_sequence_files call) on every abstract path ({n} paths)',
            not bad['own'], expected='ids travel with their source', found=bad['own'][:2] or 'ok', stmt='label alignment (paths)')
    rep.add('G1', fi.site(dc), 'each side is fed by its own options: queries from --qs or the query files, references from --rs, the database under --use-db, or the reference files', not bad['side'],
            expected='qs | q, ql, qdir  /  rs | use_db | r, rl, rdir', found=bad['side'][:2] or 'ok', stmt='side sources (paths)')
    rep.add('G2', fi.site(dc), 'square mode writes the all-pairs matrix of the queries, otherwise queries x references', not bad['mode'] and not bad['out'], expected='pairwise under square, matrix otherwise, written to the output option',
            found=(bad['mode'] + bad['out'])[:2] or 'ok', stmt='mode (paths)')
    seen = set()
    for (node, text, st_) in it.deviations:
        if id(node) not in seen:
            seen.add(id(node))
            rep.add('G3', fi.site(node), 'every signature that is not pre-computed is calc_file_signatures of the file at its own position on its own side', False,
                    expected='computed from this side\'s file at that position', found=text, stmt=f'value source @{u(node)[:40]}')
    rep.add('G3', fi.site(dc), 'signatures computed from files are computed from the files of their own side, in file order', not bad['files'], expected='query files for the rows, reference files for the columns',
            found=bad['files'][:2] or 'ok', stmt='computed side (paths)')
    fn = fi.node
    pcs = [c for c in calls_in(fn) if m.resolve_call(fi, c) == 'gambit.metric.jaccarddist_pairwise']
    mcs = [c for c in calls_in(fn) if m.resolve_call(fi, c) == 'gambit.metric.jaccarddist_matrix']
    rep.add('G2', fi.site(pcs[0] if pcs else dc), 'the all-pairs matrix is full (non-flat) and the reference matrix unrestricted', all(_is_const(m.effective_arg(fi, c, 'flat'), False) and _is_const(m.effective_arg(fi, c, 'indices'), None) for c in pcs) and all(_is_const(m.effective_arg(fi, c, 'ref_indices'), None) for c in mcs),
            expected='flat False and indices None (as written or by the default of the signature) / no ref_indices=', found=[(u(c)[:60], _txt(m.effective_arg(fi, c, 'flat'))) for c in pcs] + [u(c)[:60] for c in mcs], stmt='matrix options (paths)')

def _is_const(e, value):
    return isinstance(e, ast.Constant) and e.value is value


def _txt(e):
    return ast.unparse(e) if isinstance(e, ast.AST) else repr(e)


def check(ctx):
    rep, m = ctx.rep, ctx.model
    rep.rule('G1', 'each *_ids is assigned in the same branch as, and derived from, its source; square sets ref_ids = query_ids')
    rep.rule('G2', 'row labels go with the first matrix operand, column labels with the second; square = non-flat pairwise of the queries')
    rep.rule('G3', 'signatures computed per side from that side\'s files with the reconciled kspec')
    rep.rule('G4', 'dump_dmat_csv: header, strictly zipped rows, fixed 4-decimal format, csv.writer')
    rep.trusted += ["format(float32, '0.4f') rounds to four decimals", 'csv.writer quoting', 'C05 (cells), C13 (file order), C14 (parameter reconciliation)']
    rep.rule('G5', 'labels derive from the file names as typed: no click.Path option rewrites the path (resolve_path would turn a symlinked genome into its target)')
    from ..clirules import check_path_types
    check_path_types(rep, m, 'G5')
    # the distance kernel merges SORTED duplicate-free arrays: signatures computed from genome files meet that precondition (C01-K7 re-evaluated)
    from . import c01
    rep.rule('K7', 'C01-K7 re-evaluated: every accumulator returns a sorted, duplicate-free signature of the right dtype (the kernel precondition)')
    c01.analyse_accumulators(ctx)
    # "the true signature distance" of genome FILES: the signatures themselves must be the property-C01 ones - the search, slice,
    # strand, skip and case-folding premises of C01 are re-evaluated under this property (a change in find_kmers changes every cell)
    rep.rule('K1', 'C01-K1 (search loops) re-evaluated'); rep.rule('K2', 'C01-K2 slices'); rep.rule('K2.0', 'KmerSpec attribute harvest'); rep.rule('K3', 'C01-K3 composition')
    rep.rule('K4', 'C01-K4 strand dispatch'); rep.rule('K5', 'C01-K5 skip discipline'); rep.rule('K6', 'C01-K6 case folding'); rep.rule('K9', 'C01-K9 one shared accumulator'); rep.rule('K10', 'C01-K10 input types')
    rep.rule('T9', 'C07-T9 bindings')
    c01.harvest_kmerspec(ctx)
    c01.analyse_slices(ctx, c01.analyse_search_loops(ctx))
    c01.analyse_accumulate(ctx)
    fi = m.func(D)
    rep.functions.add(fi.qualname)
    fn = fi.node
    gm = guard_map(fn)
    # ---- sinks
    dumps = [c for c in calls_in(fn) if m.resolve_call(fi, c) == 'gambit.cluster.dump_dmat_csv']
    rep.require(len(dumps) == 1, 'dist_cmd: expected one dump_dmat_csv call')
    dc = dumps[0]
    rep.account_exits('G2', fi, [s_ for s_ in stmts_in(fn.body) if not isinstance(s_, (ast.If, ast.For, ast.While, ast.With, ast.Try)) and any(x_ is dc for x_ in ast.walk(s_))], 'the matrix is written',
                      excused=[('true', 'dump_params')])          # the hidden --dump-params debugging mode prints the parsed parameters instead of computing anything
    out_a, dmat_a, rows_a, cols_a = (get_arg(dc, i, n) for i, n in enumerate(['file', 'dmat', 'row_ids', 'col_ids']))
    rep.require(all(isinstance(a, ast.AST) for a in (out_a, dmat_a, rows_a, cols_a)), 'dist_cmd: dump_dmat_csv is not called with explicit file / matrix / row ids / column ids')

    def structural():
        """G1-G3 stated over the parallel locals of dist_cmd (<side>_ids / _files / _sigs): definitions, guards and copies."""
        mats = [c for c in calls_in(fn) if m.resolve_call(fi, c) == 'gambit.metric.jaccarddist_matrix']
        pairs = [c for c in calls_in(fn) if m.resolve_call(fi, c) == 'gambit.metric.jaccarddist_pairwise']
        rep.require(len(mats) == 1 and len(pairs) == 1, 'dist_cmd: expected one matrix and one pairwise call')
        mc, pc = mats[0], pairs[0]

        def origins(e, at, guards, depth=0):
            """[(expression, statement, guards)]: every value that can reach `e` evaluated at statement `at`, through plain copies (all definitions
            when there are several, each under its own path condition) and through the arms of conditional expressions (each under its test)."""
            if isinstance(e, ast.IfExp):
                return origins(e.body, at, guards + ((e.test, True),), depth) + origins(e.orelse, at, guards + ((e.test, False),), depth)
            if isinstance(e, ast.Name) and depth < 6:
                d_ = reaching_def(fn, e.id, at)
                if d_ is AMBIGUOUS:
                    out = []
                    for x in assigns_to(fn, e.id):
                        v_ = def_value(x)
                        out += origins(v_, x, tuple(gm[x]), depth + 1) if v_ is not None else [(e, x, tuple(gm[x]))]
                    return out
                v_ = def_value(d_) if d_ not in (None, PARAM) else None
                if v_ is not None:
                    return origins(v_, d_, tuple(gm[d_]), depth + 1)
            return [(e, at, guards)]
        dst = next((s_ for s_ in stmts_in(fn.body) if any(x is dc for x in ast.walk(s_)) and not isinstance(s_, (ast.If, ast.For, ast.While, ast.With, ast.Try))), None)
        rep.require(dst is not None, 'dist_cmd: cannot locate the statement of the dump_dmat_csv call')
        written = origins(dmat_a, dst, tuple(gm[dst]))
        rep.require(len(mc.args) >= 2 and len(pc.args) >= 1, 'dist_cmd: matrix / pairwise operands are not positional')
        q_sigs, r_sigs = u(mc.args[0]), u(mc.args[1])
        rep.add('G2', fi.site(dc), 'the written matrix is the one just computed (either mode)', len(written) == 2 and {id(w[0]) for w in written} == {id(mc), id(pc)}, expected='the result of jaccarddist_matrix / jaccarddist_pairwise, unchanged',
                found=[u(w[0])[:60] for w in written], stmt='matrix variable')
        mw = next((w for w in written if w[0] is mc), None)
        pw_ = next((w for w in written if w[0] is pc), None)
        rep.require(mw is not None and pw_ is not None, f'dist_cmd: the matrix written is not the plain result of the matrix / pairwise call ({[u(w[0])[:50] for w in written]})')
        mst, pst = mw[1], pw_[1]
        atm, atp = path_atoms(mw[2]), path_atoms(pw_[2])
        rep.add('G2', fi.site(pst), 'square mode computes all pairs of the queries, as a full (non-flat) matrix', ('true', 'square') in atp and u(pc.args[0]) == q_sigs and _is_const(m.effective_arg(fi, pc, 'flat'), False) and _is_const(m.effective_arg(fi, pc, 'indices'), None),
                expected=f'jaccarddist_pairwise({q_sigs}) under square', found=(u(pc)[:60], 'flat=' + _txt(m.effective_arg(fi, pc, 'flat')), sorted(atp)), stmt='square mode')
        # which signature-file option each matrix operand is loaded from (directly, through a copy, or through a loading helper whose
        # first argument is the option)
        def load_options(name, depth=0):
            out = set()
            for d_ in assigns_to(fn, name):
                v_ = def_value(d_)
                if isinstance(v_, ast.Name) and depth < 4:
                    out |= load_options(v_.id, depth + 1)
                elif isinstance(v_, ast.Call) and v_.args and ((m.resolve_call(fi, v_) or '').endswith('load_signatures') or (depth == 0 and u(v_.args[0]) in ('qs', 'rs'))):
                    out.add(u(v_.args[0]))
            return out
        loads = {v_: sorted(load_options(v_)) for v_ in (q_sigs, r_sigs)}
        rep.require(loads[q_sigs] and loads[r_sigs], 'dist_cmd: cannot find where the signature-file options are loaded')
        rep.add('G2', fi.site(mst), 'otherwise rows are the queries and columns the references', ('false', 'square') in atm and loads[q_sigs] == ['qs'] and loads[r_sigs] == ['rs'] and _is_const(m.effective_arg(fi, mc, 'ref_indices'), None),
                expected='jaccarddist_matrix(<signatures of --qs / query files>, <signatures of --rs / --use-db / reference files>) under not square', found=(u(mc)[:60], sorted(atm), loads), stmt='matrix mode')
        q_ids, r_ids = u(rows_a), u(cols_a)

        def label_sides(var):
            """Which side(s) the definitions of a label variable are read from: the stored ids of a matrix operand, or the file ids of a
            get_sequence_files call on one side's options."""
            out = set()
            for d_ in assigns_to(fn, var):
                v_ = d_.value if isinstance(d_, ast.Assign) else None
                if isinstance(v_, ast.Attribute) and v_.attr == 'ids' and u(v_.value) in (q_sigs, r_sigs):
                    out.add('query' if u(v_.value) == q_sigs else 'ref')
                elif isinstance(v_, ast.Call) and m.resolve_call(fi, v_) == 'gambit.cli.common.get_sequence_files':
                    a_ = [u(x) for x in v_.args]
                    out.add('query' if a_ == ['q', 'ql', 'qdir'] else 'ref' if a_ == ['r', 'rl', 'rdir'] else f'files({", ".join(a_)})')
            return out
        rows_from, cols_from = label_sides(q_ids), label_sides(r_ids)
        rep.add('G2', fi.site(dc), 'row labels are the query ids and column labels the reference ids (same orientation as the matrix operands)',
                q_ids != r_ids and 'query' in rows_from and 'ref' not in rows_from and 'ref' in cols_from and 'query' not in cols_from and u(out_a) == 'output',
                expected='dump_dmat_csv(output, dmat, <ids of the first operand>, <ids of the second operand>)', found=(u(dc), dict(rows=sorted(rows_from), cols=sorted(cols_from))), stmt='label orientation')
        # ---- G1: per side, ids and sigs/files defined together in each branch
        def files_var(ids):
            for s_ in stmts_in(fn.body):
                if isinstance(s_, ast.Assign) and isinstance(s_.targets[0], ast.Tuple) and len(s_.targets[0].elts) == 2 and u(s_.targets[0].elts[0]) == ids:
                    return u(s_.targets[0].elts[1])
            return f'{ids}:files?'
        sides = {'query': (q_ids, q_sigs, files_var(q_ids)), 'ref': (r_ids, r_sigs, files_var(r_ids))}

        def kspec_kinds(e, depth=0):
            """Where a k-mer parameter expression comes from, over every definition of the names involved: the explicit options
            (kspec_from_params), a pre-computed source of this command (<sigs>.kmerspec), the default, or something else."""
            if isinstance(e, ast.IfExp):
                return kspec_kinds(e.body, depth) | kspec_kinds(e.orelse, depth)
            if isinstance(e, ast.Call) and (m.resolve_call(fi, e) or '').endswith('kspec_from_params'):
                return {'options'}
            if m.resolve(fi.module, e) == 'gambit.kmers.DEFAULT_KMERSPEC':
                return {'default'}
            if isinstance(e, ast.Attribute) and e.attr == 'kmerspec' and u(e.value) in (q_sigs, r_sigs):
                return {'source'}
            if isinstance(e, ast.Name) and depth < 6:
                defs = assigns_to(fn, e.id)
                out = set()
                for d_ in defs:
                    v_ = def_value(d_)
                    out |= kspec_kinds(v_, depth + 1) if v_ is not None else {f'other: {u(d_)[:60]}'}
                return out or {f'other: {e.id} (never assigned)'}
            return {f'other: {u(e)[:60]}'}
        nbranches = 0
        for side, (ids, sigs, files) in sides.items():
            id_defs = [s for s in stmts_in(fn.body) if isinstance(s, ast.Assign) and any(ids in [u(e) for e in (t.elts if isinstance(t, ast.Tuple) else [t])] for t in s.targets)]
            for s in id_defs:
                nbranches += 1
                blk = block_path(fn, s)[-1][0]
                tgt = s.targets[0]
                if isinstance(tgt, ast.Tuple):
                    # ids, files = get_sequence_files(a, b, c)
                    okc = isinstance(s.value, ast.Call) and m.resolve_call(fi, s.value) == 'gambit.cli.common.get_sequence_files' and [u(e) for e in tgt.elts] == [ids, files]
                    args = [u(a) for a in s.value.args] if isinstance(s.value, ast.Call) else []
                    want = ['q', 'ql', 'qdir'] if side == 'query' else ['r', 'rl', 'rdir']
                    sig_none = any(isinstance(x, ast.Assign) and any(u(t) == sigs for t in x.targets) and is_none(x.value) for x in blk) or none_guarded_rebinding(fn, None, s, sigs)
                    rep.add('G1', fi.site(s), f'{side} side from files: ids and files are the aligned pair of one get_sequence_files call on this side\'s options; no pre-computed signatures', okc and args == want and sig_none,
                            expected=f'{ids}, {files} = get_sequence_files({", ".join(want)}); {sigs} = None', found=(u(s), sig_none), stmt=f'{side} files branch')
                elif u(s.value) == f'{sigs}.ids':
                    # the labels are read off the object `sigs` names at this point: they stay index-aligned with the matrix operand iff `sigs`
                    # is bound here and still names that object at the sink (a later rebinding under `sigs is None` cannot execute: .ids was read)
                    before = reaching_def(fn, sigs, s)
                    rebound = [x for x in assigns_to(fn, sigs) if comes_after(fn, s, x) and not none_guarded_rebinding(fn, s, x, sigs)]
                    srcs = [x for x in assigns_to(fn, sigs) if comes_after(fn, x, s) and def_value(x) is not None and not is_none(def_value(x))]
                    rep.add('G1', fi.site(s), f'{side} side from signatures: ids are the stored ids of the very object that is this side\'s matrix operand', before not in (None, PARAM) and not rebound,
                            expected=f'{sigs} = <source>; {ids} = {sigs}.ids; {sigs} not rebound afterwards', found=dict(bound_before=u(before) if isinstance(before, ast.AST) else before, rebound_after=[u(x) for x in rebound]),
                            stmt=f'{side} sigs branch @{" | ".join(sorted(u(x.value)[:30] for x in srcs)) or "?"}')
                elif side == 'ref' and u(s.value) == q_ids:
                    at = path_atoms(gm[s])
                    rep.add('G1', fi.site(s), 'square mode labels the columns with the query ids', ('true', 'square') in at, expected='ref_ids = query_ids under square', found=sorted(at), stmt='square ids')
                else:
                    rep.add('G1', fi.site(s), f'{side} ids come from this side\'s own source', False, expected=f'{sigs}.ids | get_sequence_files | query_ids (square)', found=u(s), stmt=f'{side} ids other')
        rep.floor('G1', 'id-assignment branches', nbranches, 5)
        rep.add('G1', fi.site(), 'each side loads its own signature file option', loads.get(q_sigs) == ['qs'] and loads.get(r_sigs) == ['rs'], expected={q_sigs: ['qs'], r_sigs: ['rs']}, found=loads, stmt='signature file options')
        ctx_aliases = {'ctx.obj'} | {u(x.targets[0]) for x in stmts_in(fn.body) if isinstance(x, ast.Assign) and u(x.value) == 'ctx.obj'}

        def is_db_signatures(v_):
            """<ctx.obj or an alias>.signatures, or a method of the CLI context object every return of which is `self.signatures`."""
            if u(v_) in {f'{a}.signatures' for a in ctx_aliases}:
                return True
            if isinstance(v_, ast.Call) and isinstance(v_.func, ast.Attribute) and u(v_.func.value) in ctx_aliases and not v_.args and not v_.keywords:
                mi = m.find_method('gambit.cli.common.CLIContext', v_.func.attr)
                if mi is not None and not any(isinstance(d_, ast.Name) and d_.id == 'property' for d_ in mi.decorators) and mi.params():
                    rets = [x for x in stmts_in(mi.node.body) if isinstance(x, ast.Return)]
                    return bool(rets) and all(u(x.value) == f'{mi.params()[0]}.signatures' for x in rets)
            return False
        dbs = [s for s in stmts_in(fn.body) if isinstance(s, ast.Assign) and u(s.targets[0]) == r_sigs and is_db_signatures(s.value)]
        # the guard may be reached by elimination (`if rs is not None or use_db:` ... `if rs is None:`); the tested options are never rebound
        db_at = implied_atoms(gm[dbs[0]]) if len(dbs) == 1 else set()
        stale = [n for t, _ in (gm[dbs[0]] if len(dbs) == 1 else ()) for n in sorted({x.id for x in ast.walk(t) if isinstance(x, ast.Name)}) if n != r_sigs and assigns_to(fn, n)]
        rep.add('G1', fi.site(dbs[0] if dbs else None), "--use-db takes the database's signatures as references", len(dbs) == 1 and ('true', 'use_db') in db_at and not stale, expected='ref_sigs = ctx.obj.signatures under use_db',
                found=([u(x) for x in dbs], sorted(db_at), stale), stmt='use_db source')
        # ---- G3: computed signatures
        def helper_summary(hq):
            """(kspec parameter, files parameter) of a package helper that returns calc_file_signatures(<its kspec parameter>, <files aligned
            with its files parameter>) on every path - a "calculate signatures from files" stanza moved into a function; else None."""
            hf = m.functions.get(hq)
            if hf is None or hf.cls is not None or not hq.startswith('gambit.cli.'):
                return None
            cc = [c for c in calls_in(hf.node) if (m.resolve_call(hf, c) or '').endswith('calc_file_signatures')]
            rets = [x for x in stmts_in(hf.node.body) if isinstance(x, ast.Return)]
            if len(cc) != 1 or not rets or len(cc[0].args) < 2 or any(isinstance(a, ast.Starred) for a in cc[0].args[:2]):
                return None
            for r_ in rets:
                v_ = r_.value
                if isinstance(v_, ast.Name):
                    d_ = reaching_def(hf.node, v_.id, r_)
                    v_ = def_value(d_) if d_ not in (None, PARAM, AMBIGUOUS) else None
                if v_ is not cc[0]:
                    return None
            cst = next(x for x in stmts_in(hf.node.body) if any(y is cc[0] for y in ast.walk(x)) and not isinstance(x, (ast.If, ast.For, ast.While, ast.With, ast.Try)))
            ka = cc[0].args[0]
            if not (isinstance(ka, ast.Name) and reaching_def(hf.node, ka.id, cst) is PARAM and not assigns_to(hf.node, ka.id)):
                return None
            froot = align.source(m, hf, cc[0].args[1], cst)[0]
            if froot not in hf.params() or assigns_to(hf.node, froot):
                return None
            return ka.id, froot

        def calc_site(s_):
            """(parameter expression, files expression) when this assignment computes signatures from files: a calc_file_signatures call, or a
            call of a helper summarised as one."""
            if not (isinstance(s_, ast.Assign) and isinstance(s_.value, ast.Call)):
                return None
            c_ = s_.value
            q_ = m.resolve_call(fi, c_) or ''
            if q_.endswith('calc_file_signatures'):
                return get_arg(c_, 0, 'kmerspec'), get_arg(c_, 1, 'files')
            hs = helper_summary(q_)
            if hs is None or any(isinstance(a, ast.Starred) for a in c_.args) or any(k.arg is None for k in c_.keywords):
                return None
            names = m.functions[q_].params()
            return tuple(get_arg(c_, names.index(n_), n_) for n_ in hs)
        calcs = [s for s in stmts_in(fn.body) if calc_site(s) is not None]
        rep.floor('G3', 'calc_file_signatures sites in dist_cmd', len(calcs), 2)
        kargs = set()
        for s in calcs:
            karg, farg = calc_site(s)
            rep.require(isinstance(karg, ast.AST) and isinstance(farg, ast.AST), f'dist_cmd: cannot tell the parameter / files arguments of {u(s.value)[:60]}')
            side = 'query' if u(s.targets[0]) == q_sigs else 'ref' if u(s.targets[0]) == r_sigs else None
            rep.require(side is not None, f'dist_cmd: computed signatures assigned to {u(s.targets[0])}')
            ids, sigs, files = sides[side]
            root = align.source(m, fi, farg, s)[0]
            if root.startswith('?'):
                # the files variable is None in the pre-computed branches (G1) and bound by get_sequence_files in the files
                # branch; under `<sigs> is None` only that definition is live: use the unique non-None definition
                nm = root[1:]
                nn = [x for x in stmts_in(fn.body) if isinstance(x, ast.Assign) and any(nm in [u(e) for e in (t.elts if isinstance(t, (ast.Tuple, ast.List)) else [t])] for t in x.targets)
                      and not is_none(x.value)]
                if len(nn) == 1 and isinstance(nn[0].value, ast.Call) and m.resolve_call(fi, nn[0].value) == 'gambit.cli.common.get_sequence_files':
                    root = f'gambit.cli.common.get_sequence_files({", ".join(u(a) for a in nn[0].value.args)})@{nn[0].lineno}'
            at = path_atoms(gm[s])
            # "the reconciled parameters": one variable for both sides, every definition of which is the explicit options, the parameters of a
            # pre-computed source or the default (that the choice among them is the right one on every option path is P1/P2 below)
            kinds = kspec_kinds(karg)
            unknown = sorted(k_ for k_ in kinds if k_.startswith('other'))
            rep.require(not unknown or 'options' not in kinds, f'dist_cmd: k-mer parameters of the computed {side} signatures have a definition outside the vocabulary ({unknown[0] if unknown else ""})')
            kargs.add(u(karg))
            rep.add('G3', fi.site(s), f'{side} signatures are computed from this side\'s files (in file order), only when not pre-computed, with the reconciled parameters',
                    root.startswith('gambit.cli.common.get_sequence_files(') and ('is', 'None', sigs) in at and 'options' in kinds and not unknown and len(kargs) == 1,
                    expected=f'{sigs} = calc_file_signatures(kspec, <{files}>) under {sigs} is None', found=(root, sorted(at), u(karg), sorted(kinds)), stmt=f'{side} computed')
            idd = [x for x in stmts_in(fn.body) if isinstance(x, ast.Assign) and isinstance(x.targets[0], ast.Tuple) and ids in [u(e) for e in x.targets[0].elts]]
            same = idd and root == f'gambit.cli.common.get_sequence_files({", ".join(u(a) for a in idd[0].value.args)})@{idd[0].lineno}'
            rep.add('G3', fi.site(s), f'{side} labels and {side} signatures descend from the same get_sequence_files call', bool(same), expected='same call', found=root, stmt=f'{side} label/signature alignment')
        # no reassignments of ids after sources fixed
        late = [s for s in stmts_in(fn.body) if isinstance(s, ast.Assign) and any(u(t) in (q_ids, r_ids) for t in s.targets) and s.lineno > min(c.lineno for c in calcs)]
        rep.add('G1', fi.site(late[0] if late else None), 'labels are not rebound after the sources are chosen', not late, expected='none', found=[u(s) for s in late], stmt='late id rebinding')

    mark = len(rep.obs)
    try:
        structural()
    except Undecided as why:
        # the rules over the parallel locals did not find their anchors (records instead of locals, values read by attribute ...).  Unless they
        # already located a deviation, the same obligations are decided on the abstract paths of the command: what the labels and the matrix
        # operands are index-aligned with at the moment they reach the writer, for every option combination
        if any(not o.ok for o in rep.obs[mark:]):
            raise
        del rep.obs[mark:]
        alignment_by_paths(ctx, fi, dc, str(why))

    # ---- G4 writer
    fw = m.func('gambit.cluster.dump_dmat_csv')
    rep.functions.add(fw.qualname)
    p = fw.params()
    d = fw.param_default('fmt')
    rep.add('G4', fw.site(), 'values are written with a fixed four-decimal format by default', d is not None and is_const(d, '0.4f'), expected="'0.4f'", found=u(d), stmt='default format')
    rep.add('G4', fi.site(dc), 'the command uses that default format', get_kw(dc, 'fmt') is None and len(dc.args) <= 5, expected='fmt not overridden', found=u(dc), stmt='format not overridden')
    rep.account_returns('G4', fw, [], 'row (the writer must not leave before every row is written)')
    # the rows the function emits, in emission order, however they reach the csv writer: writerow(X) statements, writerows(<generator function
    # yielding X / comprehension / list literal / list filled by append>); each with the loops around it and its locals replaced by their definitions
    ems, notes = emissions(m, fw)
    rep.require(not notes, f'dump_dmat_csv: {notes[0] if notes else ""}')
    via_csv = [e for e in ems if e['csv']]
    rep.add('G4', fw.site(ems[0]['stmt'] if ems else None), 'cells go through csv.writer (labels with commas/quotes stay parseable)', len(ems) == 2 and len(via_csv) == 2 and len({e['writer'] for e in ems}) == 1,
            expected='header and rows, both written by one csv.writer', found=[(u(e['row'])[:50], 'csv' if e['csv'] else 'not csv') for e in ems], stmt='csv writer')
    hdr = next((e for e in ems if not e['loops']), None)

    def strs_of(e_, seq):
        """e_ is str() of every element of seq, in order: map(str, seq) or a comprehension str(t) for t in seq."""
        if isinstance(e_, ast.Call) and u(e_.func) == 'map' and [u(a) for a in e_.args] == ['str', seq]:
            return True
        return isinstance(e_, (ast.GeneratorExp, ast.ListComp)) and len(e_.generators) == 1 and not e_.generators[0].ifs and u(e_.generators[0].iter) == seq \
            and u(e_.elt) == f'str({u(e_.generators[0].target)})'
    hrow = hdr['row'] if hdr is not None else None
    okh = isinstance(hrow, ast.List) and len(hrow.elts) == 2 and isinstance(hrow.elts[1], ast.Starred) and strs_of(hrow.elts[1].value, p[3]) and ems.index(hdr) == 0
    rep.add('G4', fw.site(hdr['stmt'] if hdr else None), 'header = corner cell followed by the column ids in order', okh, expected=f"[corner or '', *map(str, {p[3]})]", found=u(hrow), stmt='header')
    body = [e for e in ems if e['loops']]
    loops = [l for e in body for l in e['loops']]
    okl = len(body) == 1 and len(loops) == 1 and isinstance(loops[0][1], ast.Call) and u(loops[0][1].func) == 'zip_strict' and [u(a) for a in loops[0][1].args] == [p[2], p[1]] and not loops[0][1].keywords \
        and isinstance(loops[0][0], ast.Tuple) and len(loops[0][0].elts) == 2
    rep.add('G4', fw.site(body[0]['stmt'] if body else None), 'row ids are STRICTLY zipped with the matrix rows (count mismatch is an error)', okl, expected=f'for row_id, values in zip_strict({p[2]}, {p[1]})', found=[u(l[1]) for l in loops], stmt='row zip')
    if okl:
        rid, vals = (u(e) for e in loops[0][0].elts)
        brow = body[0]['row']
        cells = brow.elts[1].value if isinstance(brow, ast.List) and len(brow.elts) == 2 and isinstance(brow.elts[1], ast.Starred) else None
        okv = isinstance(cells, (ast.GeneratorExp, ast.ListComp)) and len(cells.generators) == 1 and u(cells.generators[0].iter) == vals and not cells.generators[0].ifs \
            and u(cells.elt) == f'format({u(cells.generators[0].target)}, {p[5]})'
        okr = cells is not None and u(brow.elts[0]) == f'str({rid})'
        rep.add('G4', fw.site(body[0]['stmt']), 'each row = its id followed by every value of its matrix row formatted with fmt, in column order', okv and okr, expected=f'[str({rid}), *(format(d, {p[5]}) for d in {vals})]',
                found=u(brow), stmt='row cells')
    # "every value being the true signature distance": cell provenance of the bulk functions the command calls (C05-B1), re-evaluated
    from . import c05
    rep.rule('B1', 'C05-B1 re-evaluated: every matrix cell is the unmodified kernel value, a copy of a cell, or the zero diagonal')
    c05.check_stores(ctx)
    # "every value being the true signature distance ... for every way of supplying either side": both operands of every
    # comparison in dist_cmd must have known-equal k-mer parameters on every option path (C14-P1/P2 on dist_cmd, re-evaluated)
    from . import c14
    rep.rule('P1', 'C14-P1 re-evaluated on dist_cmd: sink operands have known-equal k-mer parameters on every abstract path')
    rep.rule('P2', 'C14-P2 re-evaluated on dist_cmd'); rep.rule('P4', 'C14-P4 re-evaluated on dist_cmd')
    c14.check_commands(ctx, only={D})
    wo = [s for s in stmts_in(fw.node.body) if isinstance(s, ast.With)]
    okw = len(wo) == 1 and isinstance(wo[0].items[0].context_expr, ast.Call) and u(wo[0].items[0].context_expr.func) == 'maybe_open' and [u(a) for a in wo[0].items[0].context_expr.args[:2]] == [p[0], "'w'"] \
        and u(get_kw(wo[0].items[0].context_expr, 'newline')) == "''"
    rep.add('G4', fw.site(wo[0] if wo else None), "the file is opened for writing with newline='' (csv module requirement)", okw, expected="maybe_open(file, 'w', newline='')", found=[u(w.items[0].context_expr) for w in wo], stmt='open mode')


from ..variants import V  # noqa: E402

_D = 'src/gambit/cli/dist.py'
_C = 'src/gambit/cluster.py'
_RSDB = "\tif rs is not None:\n\t\tref_sigs = load_signatures(rs)\n\t\tref_ids = ref_sigs.ids\n\t\tref_files = None\n\telif use_db:\n\t\tctxobj = ctx.obj  # type: common.CLIContext\n\t\tctxobj.require_signatures()\n\t\tref_sigs = ctxobj.signatures\n\t\tref_ids = ref_sigs.ids\n\t\tref_files = None\n"
_MERGED = "\tif rs is not None or use_db:\n\t\tif rs is not None:\n\t\t\tref_sigs = load_signatures(rs)\n\t\telse:\n\t\t\tctxobj = ctx.obj\n\t\t\tctxobj.require_signatures()\n\t\t\tref_sigs = ctxobj.signatures\n\t\tref_ids = ref_sigs.ids\n\t\tref_files = None\n"
_CALC = "ref_sigfiles = SequenceFile.from_paths(ref_files, 'fasta', 'auto')\nTABSref_pconf = progress_config('click', desc='Calculating reference genome signatures') if len(ref_files) > 1 else None\nTABSref_sigs = calc_file_signatures(kspec, ref_sigfiles, progress=ref_pconf)\n"
_MODE = "\tif square:\n\t\tdmat = jaccarddist_pairwise(query_sigs, progress=dist_pconf)\n\n\telse:\n\t\tif ref_sigs is None:\n\t\t\t" + _CALC.replace('TABS', '\t\t\t') + "\n\t\tdmat = jaccarddist_matrix(query_sigs, ref_sigs, progress=dist_pconf)\n"
_HOIST = "\tif ref_sigs is None and not square:\n\t\t" + _CALC.replace('TABS', '\t\t') + "\n"
_WRITER = ("\twith maybe_open(file, 'w', newline='') as fobj:\n\t\twriter = csv.writer(fobj)\n\t\twriter.writerow([corner or '', *map(str, col_ids)])\n\t\tfor row_id, values in zip_strict(row_ids, dmat):\n"
           "\t\t\tvalues_str = (format(d, fmt) for d in values)\n\t\t\twriter.writerow([str(row_id), *values_str])\n")
_GENW = ("\tdef rows():\n\t\tyield [corner or '', *map(str, col_ids)]\n\t\tfor row_id, values in zip_strict(row_ids, dmat):\n\t\t\tyield [str(row_id), *(format(d, fmt) for d in values)]\n\n"
         "\twith maybe_open(file, 'w', newline='') as fobj:\n\t\tcsv.writer(fobj).writerows(rows())\n")
_QCALC = ("\t\tquery_sigfiles = SequenceFile.from_paths(query_files, 'fasta', 'auto')\n\t\tquery_pconf = progress_config(prog, desc='Calculating query genome signatures') if len(query_files) > 1 else None\n"
          "\t\tquery_sigs = calc_file_signatures(kspec, query_sigfiles, progress=query_pconf, max_workers=cores)\n")
_CALCH = ("def _calc_sigs(kspec, files, prog, desc, **kw):\n\tsigfiles = SequenceFile.from_paths(files, 'fasta', 'auto')\n\tpconf = progress_config(prog, desc=desc) if len(files) > 1 else None\n"
          "\treturn calc_file_signatures(kspec, sigfiles, progress=pconf, **kw)\n\n\n")
_REFSEL = _RSDB + "\telif square:\n\t\tref_ids = query_ids\n\t\tref_files = ref_sigs = None\n\telse:\n\t\tref_ids, ref_files = common.get_sequence_files(r, rl, rdir)\n\t\tref_sigs = None\n"
_REFSEL2 = ("\tif rs is not None:\n\t\tref_sigs = load_signatures(rs)\n\telif use_db:\n\t\tctxobj = ctx.obj\n\t\tref_sigs = ctxobj.get_signatures()\n\telse:\n\t\tref_sigs = None\n\n"
            "\tif ref_sigs is not None:\n\t\tref_ids = ref_sigs.ids\n\t\tref_files = None\n\telif square:\n\t\tref_ids = query_ids\n\t\tref_files = None\n\telse:\n\t\tref_ids, ref_files = common.get_sequence_files(r, rl, rdir)\n")
_CM = 'src/gambit/cli/common.py'
_GETDB = "\tdef get_database(self) -> ReferenceDatabase:\n"
_GETSIG = "\tdef get_signatures(self):\n\t\tself.require_signatures()\n\t\treturn self.signatures\n\n"
_IMP = "from typing import Optional, TextIO\n"
_RECCLS = ("class SideInput(NamedTuple):\n\tids: list\n\tfiles: Optional[list]\n\tsigs: Optional[object]\n\n\t@classmethod\n\tdef from_signatures(cls, sigs):\n\t\treturn cls(sigs.ids, None, sigs)\n\n"
           "\t@classmethod\n\tdef from_files(cls, explicit, listfile, listfile_dir):\n\t\tids, files = common.get_sequence_files(explicit, listfile, listfile_dir)\n\t\treturn cls(ids, files, None)\n\n\n")
_QSEL = ("\tif qs is not None:\n\t\tquery_sigs = load_signatures(qs)\n\t\tquery_ids = query_sigs.ids\n\t\tquery_files = None\n\telse:\n\t\tquery_ids, query_files = common.get_sequence_files(q, ql, qdir)\n\t\tquery_sigs = None\n")
_QREC = "\tif qs is not None:\n\t\tquery = SideInput.from_signatures(load_signatures(qs))\n\telse:\n\t\tquery = SideInput.from_files(q, ql, qdir)\n\tquery_ids, query_files, query_sigs = query\n"
_RSEL = ("\tif rs is not None:\n\t\tref_sigs = load_signatures(rs)\n\t\tref_ids = ref_sigs.ids\n\t\tref_files = None\n\telif use_db:\n\t\tctxobj = ctx.obj  # type: common.CLIContext\n\t\tctxobj.require_signatures()\n\t\tref_sigs = ctxobj.signatures\n\t\tref_ids = ref_sigs.ids\n\t\tref_files = None\n"
         "\telif square:\n\t\tref_ids = query_ids\n\t\tref_files = ref_sigs = None\n\telse:\n\t\tref_ids, ref_files = common.get_sequence_files(r, rl, rdir)\n\t\tref_sigs = None\n")
_RREC = ("\tif rs is not None:\n\t\tref = SideInput.from_signatures(load_signatures(rs))\n\telif use_db:\n\t\tctxobj = ctx.obj\n\t\tctxobj.require_signatures()\n\t\tref = SideInput.from_signatures(ctxobj.signatures)\n"
         "\telif square:\n\t\tref = SideInput(query.ids, None, None)\n\telse:\n\t\tref = SideInput.from_files(r, rl, rdir)\n\tref_ids, ref_files, ref_sigs = ref\n")
_CMDDEC = "@cli.command(name='dist', no_args_is_help=True)\n"


def _rec(qrec=_QREC, rrec=_RREC, cls=_RECCLS, extra=()):
    """edits turning the six parallel locals of dist_cmd into one NamedTuple per side (first edit = (file, old, new) of the V itself)"""
    return [(_D, _RSEL, rrec), (_D, _IMP, "from typing import Optional, TextIO, NamedTuple\n"), (_D, _CMDDEC, cls + _CMDDEC)] + list(extra)


_QHELP = "\t\tquery_sigs = calc_side_signatures(kspec, query_ids, query_files, 'Calculating query genome signatures', prog, cores)\n"
_RHELP = "ref_sigs = calc_side_signatures(kspec, ref_ids, ref_files, 'Calculating reference genome signatures', prog, coresCACHE)\n"
_CACHEH = ("def calc_side_signatures(kspec, ids, files, desc, progress=None, cores=None, known=None):\n\tif known is None:\n\t\tknown = dict()\n\n"
           "\ttodo = [file for id_, file in zip_strict(ids, files) if id_ not in known]\n\tpconf = progress_config(progress, desc=desc) if len(todo) > 1 else None\n"
           "\tnew_sigs = iter(calc_file_signatures(kspec, todo, progress=pconf, max_workers=cores) if todo else ())\n\n"
           "\tsigs = [known[id_] if id_ in known else next(new_sigs) for id_ in ids]\n\treturn SignatureList(sigs, kspec)\n\n\n")
_PLAINH = ("def calc_side_signatures(kspec, ids, files, desc, progress=None, cores=None):\n\tpconf = progress_config(progress, desc=desc) if len(files) > 1 else None\n"
           "\treturn calc_file_signatures(kspec, files, progress=pconf, max_workers=cores)\n\n\n")
VARIANTS = [
    V('guard clause: a single query in square mode is not written (early-exit probe)', 'B', _D, "\tdump_dmat_csv(output, dmat, query_ids, ref_ids)", "\tif square and len(query_ids) == 1:\n\t\treturn\n\tdump_dmat_csv(output, dmat, query_ids, ref_ids)", 'G2'),
    V('file options resolve symlinks (seeded C16c)', 'B', 'src/gambit/cli/common.py', "\tkw.setdefault('path_type', Path)\n\treturn click.Path(file_okay=True, dir_okay=False, **kw)\n",
      "\tkw.setdefault('path_type', Path)\n\tkw.setdefault('resolve_path', True)\n\treturn click.Path(file_okay=True, dir_okay=False, **kw)\n", 'G5'),
    V('one option asks for a resolved path', 'B', 'src/gambit/cli/dist.py', "@click.option('-q', type=common.filepath(exists=True), multiple=True,", "@click.option('-q', type=common.filepath(exists=True, resolve_path=True), multiple=True,", 'G5'),
    V('E: resolve_path=False spelled out', 'E', 'src/gambit/cli/common.py', "\tkw.setdefault('path_type', Path)\n\treturn click.Path(file_okay=True, dir_okay=False, **kw)\n",
      "\tkw.setdefault('path_type', Path)\n\tkw.setdefault('resolve_path', False)\n\treturn click.Path(file_okay=True, dir_okay=False, **kw)\n"),
    V('label arguments swapped', 'B', _D, "dump_dmat_csv(output, dmat, query_ids, ref_ids)", "dump_dmat_csv(output, dmat, ref_ids, query_ids)", 'G2'),
    V('matrix operands swapped', 'B', _D, "dmat = jaccarddist_matrix(query_sigs, ref_sigs, progress=dist_pconf)", "dmat = jaccarddist_matrix(ref_sigs, query_sigs, progress=dist_pconf)", 'G2'),
    V('square ids from another list', 'B', _D, "\t\tref_ids = query_ids\n", "\t\tref_ids = sorted(query_ids)\n", 'G1'),
    V('default format 3 decimals', 'B', _C, "fmt: str = '0.4f',", "fmt: str = '0.3f',", 'G4'),
    V('zip for zip_strict in the writer', 'B', _C, "for row_id, values in zip_strict(row_ids, dmat):", "for row_id, values in zip(row_ids, dmat):", 'G4'),
    V('default of flat flipped in the signature of jaccarddist_pairwise (mutation probe)', 'B', 'src/gambit/metric.py', "                         flat: bool = False,", "                         flat: bool = True,", 'G2'),
    V('E: flat=False written at the call', 'E', _D, 'dmat = jaccarddist_pairwise(query_sigs, progress=dist_pconf)', 'dmat = jaccarddist_pairwise(query_sigs, flat=False, progress=dist_pconf)'),
    V('flat pairwise output', 'B', _D, "dmat = jaccarddist_pairwise(query_sigs, progress=dist_pconf)", "dmat = jaccarddist_pairwise(query_sigs, flat=True, progress=dist_pconf)", 'G2'),
    V('query ids from the reference signature file', 'B', _D, "\t\tquery_ids = query_sigs.ids\n", "\t\tquery_ids = ref_sigs.ids if rs is not None else query_sigs.ids\n", 'G1'),
    V('reference signatures computed from the query files', 'B', _D, "ref_sigfiles = SequenceFile.from_paths(ref_files, 'fasta', 'auto')", "ref_sigfiles = SequenceFile.from_paths(query_files, 'fasta', 'auto')", 'G3'),
    V('reference side reads the query list options', 'B', _D, "ref_ids, ref_files = common.get_sequence_files(r, rl, rdir)", "ref_ids, ref_files = common.get_sequence_files(r, ql, qdir)", 'G1'),
    V('header from the row ids', 'B', _C, "writer.writerow([corner or '', *map(str, col_ids)])", "writer.writerow([corner or '', *map(str, row_ids)])", 'G4'),
    V('values written reversed', 'B', _C, "values_str = (format(d, fmt) for d in values)", "values_str = (format(d, fmt) for d in values[::-1])", 'G4'),
    V('manual join instead of csv.writer', 'B', _C, "writer.writerow([str(row_id), *values_str])", "fobj.write(','.join([str(row_id), *values_str]) + '\\n')", 'G4'),
    V('empty query short-cut writes 1 into the cells (seeded C16a)', 'B', 'src/gambit/metric.py', "\telse:\n\t\tfor i, ref in enumerate(refs):\n\t\t\tref = _cast_sigs_array(ref)",
      "\telif len(query) == 0:\n\t\tout[:] = 1\n\n\telse:\n\t\tfor i, ref in enumerate(refs):\n\t\t\tref = _cast_sigs_array(ref)", 'B1'),
    V('default parameters chosen by the option, not by the loaded signatures (seeded C16b)', 'B', _D, "\t\telif ref_sigs is not None:\n\t\t\tkspec = ref_sigs.kmerspec", "\t\telif rs is not None:\n\t\t\tkspec = ref_sigs.kmerspec", 'P1'),
    V('E: keyword arguments to the writer', 'E', _D, "dump_dmat_csv(output, dmat, query_ids, ref_ids)", "dump_dmat_csv(output, dmat, row_ids=query_ids, col_ids=ref_ids)"),
    # ---- idioms accepted since the refactoring round, each with its broken twin
    V('E: --rs / --use-db arms merged, source chosen by a nested if, ids read once', 'E', _D, _RSDB, _MERGED),
    V('merged arms also entered for --square: database signatures used without --use-db', 'B', _D, _RSDB, _MERGED.replace("if rs is not None or use_db:", "if rs is not None or use_db or square:"), 'G1'),
    V('merged arms: reference signatures reordered after their labels were read', 'B', _D, _RSDB, _MERGED.replace("\t\tref_files = None\n", "\t\tref_files = None\n\t\tref_sigs = ref_sigs[::-1]\n"), 'G1'),
    V('E: options parsed into a temporary that is copied into the reconciled variable', 'E', _D, "\tkspec = common.kspec_from_params(k, prefix)\n", "\tcli_kspec = common.kspec_from_params(k, prefix)\n\tkspec = cli_kspec\n"),
    V('reference signatures computed with the default parameters, explicit options ignored', 'B', _D, "ref_sigs = calc_file_signatures(kspec, ref_sigfiles, progress=ref_pconf)", "ref_sigs = calc_file_signatures(DEFAULT_KMERSPEC, ref_sigfiles, progress=ref_pconf)", 'G3',
      also=[(_D, "\tkspec = common.kspec_from_params(k, prefix)\n", "\tcli_kspec = common.kspec_from_params(k, prefix)\n\tkspec = cli_kspec\n")]),
    V('E: reference signatures computed before the mode switch; matrix chosen by a conditional expression', 'E', _D, _MODE, _HOIST + "\tdmat = jaccarddist_pairwise(query_sigs, progress=dist_pconf) if square else jaccarddist_matrix(query_sigs, ref_sigs, progress=dist_pconf)\n"),
    V('conditional expression with the modes swapped', 'B', _D, _MODE, _HOIST + "\tdmat = jaccarddist_matrix(query_sigs, ref_sigs, progress=dist_pconf) if square else jaccarddist_pairwise(query_sigs, progress=dist_pconf)\n", 'G2'),
    V('E: label variables renamed (no rule may depend on what the locals are called)', 'E', _D, "query_ids", "names_a", count=7),
    V('E: signature variables renamed', 'E', _D, "ref_sigs", "sigs_b", count=18),
    # ---- second refactoring round
    V('E: rows yielded by a nested generator into one writerows call', 'E', _C, _WRITER, _GENW),
    V('generator: the header is yielded inside the row loop', 'B', _C, _WRITER, _GENW.replace("\t\tyield [corner or '', *map(str, col_ids)]\n\t\tfor row_id, values in zip_strict(row_ids, dmat):\n",
      "\t\tfor row_id, values in zip_strict(row_ids, dmat):\n\t\t\tyield [corner or '', *map(str, col_ids)]\n"), 'G4'),
    V('generator: plain zip drops the count check', 'B', _C, _WRITER, _GENW.replace("zip_strict(row_ids, dmat)", "zip(row_ids, dmat)"), 'G4'),
    V('generator: cells of the whole matrix instead of the row', 'B', _C, _WRITER, _GENW.replace("for d in values)]", "for d in dmat)]"), 'G4'),
    V('E: rows as a comprehension handed to writerows, column ids as a comprehension of str()', 'E', _C, _WRITER,
      "\twith maybe_open(file, 'w', newline='') as fobj:\n\t\twriter = csv.writer(fobj)\n\t\twriter.writerow([corner or '', *[str(c) for c in col_ids]])\n"
      "\t\twriter.writerows([str(row_id), *(format(d, fmt) for d in values)] for row_id, values in zip_strict(row_ids, dmat))\n"),
    V('comprehension rows labelled with the column ids', 'B', _C, _WRITER,
      "\twith maybe_open(file, 'w', newline='') as fobj:\n\t\twriter = csv.writer(fobj)\n\t\twriter.writerow([corner or '', *[str(c) for c in col_ids]])\n"
      "\t\twriter.writerows([str(row_id), *(format(d, fmt) for d in values)] for row_id, values in zip_strict(col_ids, dmat))\n", 'G4'),
    V('E: formatted cells written without a temporary', 'E', _C, "\t\t\tvalues_str = (format(d, fmt) for d in values)\n\t\t\twriter.writerow([str(row_id), *values_str])\n", "\t\t\twriter.writerow([str(row_id), *(format(d, fmt) for d in values)])\n"),
    V('no temporary: cells formatted with a hard-coded format', 'B', _C, "\t\t\tvalues_str = (format(d, fmt) for d in values)\n\t\t\twriter.writerow([str(row_id), *values_str])\n", "\t\t\twriter.writerow([str(row_id), *(format(d, '0.2f') for d in values)])\n", 'G4'),
    V('E: both "calculate signatures from files" stanzas moved into one helper (takes **kw, so it is summarised, not expanded)', 'E', _D, _QCALC, "\t\tquery_sigs = _calc_sigs(kspec, query_files, prog, 'Calculating query genome signatures', max_workers=cores)\n",
      also=[(_D, _CALC.replace('TABS', '\t\t\t'), "ref_sigs = _calc_sigs(kspec, ref_files, 'click', 'Calculating reference genome signatures')\n"), (_D, "@cli.command(name='dist', no_args_is_help=True)\n", _CALCH + "@cli.command(name='dist', no_args_is_help=True)\n")]),
    V('helper call for the query side is given the reference files', 'B', _D, _QCALC, "\t\tquery_sigs = _calc_sigs(kspec, ref_files, prog, 'Calculating query genome signatures', max_workers=cores)\n", 'G3',
      also=[(_D, _CALC.replace('TABS', '\t\t\t'), "ref_sigs = _calc_sigs(kspec, ref_files, 'click', 'Calculating reference genome signatures')\n"), (_D, "@cli.command(name='dist', no_args_is_help=True)\n", _CALCH + "@cli.command(name='dist', no_args_is_help=True)\n")]),
    V('helper call for the reference side is given the default parameters', 'B', _D, _QCALC, "\t\tquery_sigs = _calc_sigs(kspec, query_files, prog, 'Calculating query genome signatures', max_workers=cores)\n", 'G3',
      also=[(_D, _CALC.replace('TABS', '\t\t\t'), "ref_sigs = _calc_sigs(DEFAULT_KMERSPEC, ref_files, 'click', 'Calculating reference genome signatures')\n"), (_D, "@cli.command(name='dist', no_args_is_help=True)\n", _CALCH + "@cli.command(name='dist', no_args_is_help=True)\n")]),
    V('E: reference source chosen first (file / database method / none), ids and files derived from it afterwards', 'E', _D, _REFSEL, _REFSEL2, also=[(_CM, _GETDB, _GETSIG + _GETDB)]),
    V('split selection: the second step tests the option, not the loaded signatures (--use-db labelled with file ids)', 'B', _D, _REFSEL, _REFSEL2.replace("\tif ref_sigs is not None:\n\t\tref_ids", "\tif rs is not None:\n\t\tref_ids"), 'G1',
      also=[(_CM, _GETDB, _GETSIG + _GETDB)]),
    V('context method returns the cache attribute instead of the signatures property', 'B', _D, _REFSEL, _REFSEL2, 'G1', also=[(_CM, _GETDB, _GETSIG.replace("return self.signatures", "return self._signatures") + _GETDB)]),
    # ---- third round: one NamedTuple per side, classmethod constructors, fields unpacked; decided on abstract paths
    V('E: the parallel locals of each side become a NamedTuple built by classmethod constructors and unpacked', 'E', _D, _QSEL, _QREC, also=_rec()),
    V('records: writer gets the labels of the two sides swapped', 'B', _D, _QSEL, _QREC, 'G2', also=_rec(extra=[(_D, "dump_dmat_csv(output, dmat, query_ids, ref_ids)", "dump_dmat_csv(output, dmat, ref_ids, query_ids)")])),
    V('records: the signature constructor stores the ids sorted', 'B', _D, _QSEL, _QREC, 'G1', also=_rec(cls=_RECCLS.replace("return cls(sigs.ids, None, sigs)", "return cls(sorted(sigs.ids), None, sigs)"))),
    V('records: the reference side is read from the query list options', 'B', _D, _QSEL, _QREC, 'G', also=_rec(rrec=_RREC.replace("SideInput.from_files(r, rl, rdir)", "SideInput.from_files(r, ql, qdir)"))),
    V('records: the reference record is unpacked from the query record', 'B', _D, _QSEL, _QREC, 'G1', also=_rec(rrec=_RREC.replace("ref_ids, ref_files, ref_sigs = ref\n", "ref_ids, ref_files, ref_sigs = query\n"))),
    V('records: square labels the columns with the database ids of an earlier branch', 'B', _D, _QSEL, _QREC, 'G', also=_rec(rrec=_RREC.replace("ref = SideInput(query.ids, None, None)", "ref = SideInput(query.ids[::-1], None, None)"))),
    # ---- fourth round: per-genome values built position by position (filtered comprehension + iterator + mapping lookup)
    V('E: both calculation stanzas in one helper that skips genomes found in an optional cache; no cache is ever passed', 'E', _D, _QCALC, _QHELP,
      also=[(_D, _CALC.replace('TABS', '\t\t\t'), _RHELP.replace("CACHE", "")), (_D, _CMDDEC, _CACHEH + _CMDDEC), (_D, "from gambit.sigs import load_signatures\n", "from gambit.sigs import load_signatures, SignatureList\nfrom gambit.util.misc import zip_strict\n")]),
    V('the helper is given the query signatures as a cache keyed by file ID: a reference with the label of a query is never read (seeded C16d)', 'B', _D, _QCALC, _QHELP, 'G3',
      also=[(_D, _CALC.replace('TABS', '\t\t\t'), _RHELP.replace("CACHE", ", known=dict(zip(query_ids, query_sigs))")), (_D, _CMDDEC, _CACHEH + _CMDDEC),
            (_D, "from gambit.sigs import load_signatures\n", "from gambit.sigs import load_signatures, SignatureList\nfrom gambit.util.misc import zip_strict\n")]),
    V('E: the same helper without any cache logic', 'E', _D, _QCALC, _QHELP,
      also=[(_D, _CALC.replace('TABS', '\t\t\t'), _RHELP.replace("CACHE", "")), (_D, _CMDDEC, _PLAINH + _CMDDEC)]),
    V('plain helper, but the reference side is given the query files', 'B', _D, _QCALC, _QHELP, 'G3',
      also=[(_D, _CALC.replace('TABS', '\t\t\t'), _RHELP.replace("CACHE", "").replace("ref_ids, ref_files", "ref_ids, query_files")), (_D, _CMDDEC, _PLAINH + _CMDDEC)]),
]
