"""C16 - the distance-matrix command labels and fills every cell correctly.

G1 ids travel with their source (same branch, same object / same get_sequence_files call); square: ref_ids = query_ids
G2 orientation: matrix(query_sigs, ref_sigs) <-> dump_dmat_csv(output, dmat, query_ids, ref_ids); square uses pairwise (non-flat)
G3 computed signatures are aligned with the files of the same side and use the reconciled kspec
G4 writer: header from col_ids; rows zip_strict(row_ids, dmat); each value format(d, fmt) with fmt default '0.4f'; csv.writer
"""
import ast

from .. import align
from ..astutil import (u, atoms, guard_map, path_atoms, stmts_in, calls_in, callee, callee_attr, reaching_def, def_value,
                       PARAM, AMBIGUOUS, get_arg, get_kw, is_none, is_const, raised_name, block_path, assigns_to, binds, binds_deep)
from ..report import Undecided

D = 'gambit.cli.dist.dist_cmd'


_NEG = {'is': 'isnot', 'isnot': 'is', 'true': 'false', 'false': 'true', 'eq': 'ne', 'ne': 'eq', 'in': 'notin', 'notin': 'in'}


def _negated(a):
    if a[0] in _NEG:
        return (_NEG[a[0]],) + tuple(a[1:])
    if a[0] in ('lt', 'le'):
        return ('le' if a[0] == 'lt' else 'lt', a[2], a[1])
    return None


def _alternatives(t, pol):
    """The alternatives of a guard that is a disjunction under this polarity: [atom set | None (not a conjunction of atoms)]."""
    if isinstance(t, ast.UnaryOp) and isinstance(t.op, ast.Not):
        return _alternatives(t.operand, not pol)
    if isinstance(t, ast.BoolOp) and isinstance(t.op, ast.Or if pol else ast.And):
        return [atoms(v, pol) for v in t.values]
    return None


def implied_atoms(guards):
    """path_atoms plus elimination: of a disjunction known to hold, the only alternative the other facts do not refute holds
    (`if a is not None or b:` ... `if a is None:` => b)."""
    facts = set(path_atoms(guards))
    pending = [alts for alts in (_alternatives(t, p) for t, p in guards if atoms(t, p) is None) if alts]
    changed = True
    while changed:
        changed = False
        for alts in pending:
            live = [a for a in alts if a is None or not any(_negated(x) in facts for x in a)]
            if len(live) == 1 and live[0] is not None and not live[0] <= facts:
                facts |= live[0]
                changed = True
    return facts


def comes_after(fn, s, x):
    """Can statement x execute after statement s on one path?  False for an earlier statement and for the other arm of the same `if`."""
    ps, px = block_path(fn, s), block_path(fn, x)
    if ps is None or px is None or x is s:
        return False
    for d, ((bs, i_s, owner), (bx, i_x, _)) in enumerate(zip(ps, px)):
        if bs is not bx:
            # same compound statement, different blocks: the two arms of an `if` exclude each other; anything else (try/handler,
            # loop/else) is taken as sequential
            return not isinstance(owner, ast.If)
        if isinstance(owner, (ast.For, ast.While)):
            return True
        if i_s != i_x:
            return i_x > i_s
    return False


def none_guarded_rebinding(fn, s, x, name):
    """x rebinds `name` inside an `if name is None:` arm whose test is evaluated after s (infeasible once `name.attr` was read at s)."""
    path = block_path(fn, x)
    for (block, idx, owner) in path:
        if isinstance(owner, ast.If) and comes_after(fn, s, owner):
            at = atoms(owner.test, block is owner.body)
            if at and ('is', 'None', name) in at and not any(binds(y, name) or binds_deep(y, name) for y in block[:idx]):
                return True
    return False


def check(ctx):
    rep, m = ctx.rep, ctx.model
    rep.rule('G1', 'each *_ids is assigned in the same branch as, and derived from, its source; square sets ref_ids = query_ids')
    rep.rule('G2', 'row labels go with the first matrix operand, column labels with the second; square = non-flat pairwise of the queries')
    rep.rule('G3', 'signatures computed per side from that side\'s files with the reconciled kspec')
    rep.rule('G4', 'dump_dmat_csv: header, strictly zipped rows, fixed 4-decimal format, csv.writer')
    rep.trusted += ["format(float32, '0.4f') rounds to four decimals", 'csv.writer quoting', 'C05 (cells), C13 (file order), C14 (parameter reconciliation)']
    rep.rule('G5', 'labels derive from the file names as typed: no click.Path option rewrites the path (resolve_path would turn a symlinked genome into its target)')
    from ..clirules import check_path_types
    check_path_types(rep, m, 'G5')
    # the distance kernel merges SORTED duplicate-free arrays: signatures computed from genome files meet that precondition (C01-K7 re-evaluated)
    from . import c01
    rep.rule('K7', 'C01-K7 re-evaluated: every accumulator returns a sorted, duplicate-free signature of the right dtype (the kernel precondition)')
    c01.analyse_accumulators(ctx)
    fi = m.func(D)
    rep.functions.add(fi.qualname)
    fn = fi.node
    gm = guard_map(fn)
    # ---- sinks
    dumps = [c for c in calls_in(fn) if m.resolve_call(fi, c) == 'gambit.cluster.dump_dmat_csv']
    rep.require(len(dumps) == 1, 'dist_cmd: expected one dump_dmat_csv call')
    dc = dumps[0]
    out_a, dmat_a, rows_a, cols_a = (get_arg(dc, i, n) for i, n in enumerate(['file', 'dmat', 'row_ids', 'col_ids']))
    rep.require(all(isinstance(a, ast.AST) for a in (out_a, dmat_a, rows_a, cols_a)), 'dist_cmd: dump_dmat_csv is not called with explicit file / matrix / row ids / column ids')
    mats = [c for c in calls_in(fn) if m.resolve_call(fi, c) == 'gambit.metric.jaccarddist_matrix']
    pairs = [c for c in calls_in(fn) if m.resolve_call(fi, c) == 'gambit.metric.jaccarddist_pairwise']
    rep.require(len(mats) == 1 and len(pairs) == 1, 'dist_cmd: expected one matrix and one pairwise call')
    mc, pc = mats[0], pairs[0]

    def holder(call, what):
        """(assignment holding the call's result, conditions inside that statement): the value of the assignment is the call itself or
        a conditional expression with the call as one arm (the arm's test then belongs to the path condition)."""
        st = next((s_ for s_ in stmts_in(fn.body) if isinstance(s_, ast.Assign) and any(x is call for x in ast.walk(s_.value))), None)
        rep.require(st is not None and len(st.targets) == 1 and isinstance(st.targets[0], ast.Name), f'dist_cmd: the result of {what} is not assigned to a variable')
        inner, e = [], st.value
        while isinstance(e, ast.IfExp):
            if any(x is call for x in ast.walk(e.body)):
                inner.append((e.test, True))
                e = e.body
            elif any(x is call for x in ast.walk(e.orelse)):
                inner.append((e.test, False))
                e = e.orelse
            else:
                break
        rep.require(e is call, f'dist_cmd: the result of {what} is transformed before it is assigned ({u(st)[:80]})')
        return st, tuple(inner)
    (mst, m_in), (pst, p_in) = holder(mc, 'jaccarddist_matrix'), holder(pc, 'jaccarddist_pairwise')
    rep.require(len(mc.args) >= 2 and len(pc.args) >= 1, 'dist_cmd: matrix / pairwise operands are not positional')
    q_sigs, r_sigs = u(mc.args[0]), u(mc.args[1])
    rep.add('G2', fi.site(dc), 'the written matrix is the one just computed (either mode)', u(mst.targets[0]) == u(pst.targets[0]) == u(dmat_a), expected=f'{u(dmat_a)} from both branches', found=(u(mst.targets[0]), u(pst.targets[0])), stmt='matrix variable')
    atm, atp = path_atoms(gm[mst] + m_in), path_atoms(gm[pst] + p_in)
    rep.add('G2', fi.site(pst), 'square mode computes all pairs of the queries, as a full (non-flat) matrix', ('true', 'square') in atp and u(pc.args[0]) == q_sigs and get_kw(pc, 'flat') is None and len(pc.args) == 1,
            expected=f'jaccarddist_pairwise({q_sigs}) under square', found=(u(pc)[:60], sorted(atp)), stmt='square mode')
    # which signature-file option each matrix operand is loaded from (directly, through a copy, or through a loading helper whose
    # first argument is the option)
    def load_options(name, depth=0):
        out = set()
        for d_ in assigns_to(fn, name):
            v_ = def_value(d_)
            if isinstance(v_, ast.Name) and depth < 4:
                out |= load_options(v_.id, depth + 1)
            elif isinstance(v_, ast.Call) and v_.args and ((m.resolve_call(fi, v_) or '').endswith('load_signatures') or (depth == 0 and u(v_.args[0]) in ('qs', 'rs'))):
                out.add(u(v_.args[0]))
        return out
    loads = {v_: sorted(load_options(v_)) for v_ in (q_sigs, r_sigs)}
    rep.require(loads[q_sigs] and loads[r_sigs], 'dist_cmd: cannot find where the signature-file options are loaded')
    rep.add('G2', fi.site(mst), 'otherwise rows are the queries and columns the references', ('false', 'square') in atm and loads[q_sigs] == ['qs'] and loads[r_sigs] == ['rs'] and get_kw(mc, 'ref_indices') is None,
            expected='jaccarddist_matrix(<signatures of --qs / query files>, <signatures of --rs / --use-db / reference files>) under not square', found=(u(mc)[:60], sorted(atm), loads), stmt='matrix mode')
    q_ids, r_ids = u(rows_a), u(cols_a)

    def label_sides(var):
        """Which side(s) the definitions of a label variable are read from: the stored ids of a matrix operand, or the file ids of a
        get_sequence_files call on one side's options."""
        out = set()
        for d_ in assigns_to(fn, var):
            v_ = d_.value if isinstance(d_, ast.Assign) else None
            if isinstance(v_, ast.Attribute) and v_.attr == 'ids' and u(v_.value) in (q_sigs, r_sigs):
                out.add('query' if u(v_.value) == q_sigs else 'ref')
            elif isinstance(v_, ast.Call) and m.resolve_call(fi, v_) == 'gambit.cli.common.get_sequence_files':
                a_ = [u(x) for x in v_.args]
                out.add('query' if a_ == ['q', 'ql', 'qdir'] else 'ref' if a_ == ['r', 'rl', 'rdir'] else f'files({", ".join(a_)})')
        return out
    rows_from, cols_from = label_sides(q_ids), label_sides(r_ids)
    rep.add('G2', fi.site(dc), 'row labels are the query ids and column labels the reference ids (same orientation as the matrix operands)',
            q_ids != r_ids and 'query' in rows_from and 'ref' not in rows_from and 'ref' in cols_from and 'query' not in cols_from and u(out_a) == 'output',
            expected='dump_dmat_csv(output, dmat, <ids of the first operand>, <ids of the second operand>)', found=(u(dc), dict(rows=sorted(rows_from), cols=sorted(cols_from))), stmt='label orientation')
    # ---- G1: per side, ids and sigs/files defined together in each branch
    def files_var(ids):
        for s_ in stmts_in(fn.body):
            if isinstance(s_, ast.Assign) and isinstance(s_.targets[0], ast.Tuple) and len(s_.targets[0].elts) == 2 and u(s_.targets[0].elts[0]) == ids:
                return u(s_.targets[0].elts[1])
        return f'{ids}:files?'
    sides = {'query': (q_ids, q_sigs, files_var(q_ids)), 'ref': (r_ids, r_sigs, files_var(r_ids))}

    def kspec_kinds(e, depth=0):
        """Where a k-mer parameter expression comes from, over every definition of the names involved: the explicit options
        (kspec_from_params), a pre-computed source of this command (<sigs>.kmerspec), the default, or something else."""
        if isinstance(e, ast.IfExp):
            return kspec_kinds(e.body, depth) | kspec_kinds(e.orelse, depth)
        if isinstance(e, ast.Call) and (m.resolve_call(fi, e) or '').endswith('kspec_from_params'):
            return {'options'}
        if m.resolve(fi.module, e) == 'gambit.kmers.DEFAULT_KMERSPEC':
            return {'default'}
        if isinstance(e, ast.Attribute) and e.attr == 'kmerspec' and u(e.value) in (q_sigs, r_sigs):
            return {'source'}
        if isinstance(e, ast.Name) and depth < 6:
            defs = assigns_to(fn, e.id)
            out = set()
            for d_ in defs:
                v_ = def_value(d_)
                out |= kspec_kinds(v_, depth + 1) if v_ is not None else {f'other: {u(d_)[:60]}'}
            return out or {f'other: {e.id} (never assigned)'}
        return {f'other: {u(e)[:60]}'}
    nbranches = 0
    for side, (ids, sigs, files) in sides.items():
        id_defs = [s for s in stmts_in(fn.body) if isinstance(s, ast.Assign) and any(ids in [u(e) for e in (t.elts if isinstance(t, ast.Tuple) else [t])] for t in s.targets)]
        for s in id_defs:
            nbranches += 1
            blk = block_path(fn, s)[-1][0]
            tgt = s.targets[0]
            if isinstance(tgt, ast.Tuple):
                # ids, files = get_sequence_files(a, b, c)
                okc = isinstance(s.value, ast.Call) and m.resolve_call(fi, s.value) == 'gambit.cli.common.get_sequence_files' and [u(e) for e in tgt.elts] == [ids, files]
                args = [u(a) for a in s.value.args] if isinstance(s.value, ast.Call) else []
                want = ['q', 'ql', 'qdir'] if side == 'query' else ['r', 'rl', 'rdir']
                sig_none = any(isinstance(x, ast.Assign) and any(u(t) == sigs for t in x.targets) and is_none(x.value) for x in blk)
                rep.add('G1', fi.site(s), f'{side} side from files: ids and files are the aligned pair of one get_sequence_files call on this side\'s options; no pre-computed signatures', okc and args == want and sig_none,
                        expected=f'{ids}, {files} = get_sequence_files({", ".join(want)}); {sigs} = None', found=(u(s), sig_none), stmt=f'{side} files branch')
            elif u(s.value) == f'{sigs}.ids':
                # the labels are read off the object `sigs` names at this point: they stay index-aligned with the matrix operand iff `sigs`
                # is bound here and still names that object at the sink (a later rebinding under `sigs is None` cannot execute: .ids was read)
                before = reaching_def(fn, sigs, s)
                rebound = [x for x in assigns_to(fn, sigs) if comes_after(fn, s, x) and not none_guarded_rebinding(fn, s, x, sigs)]
                srcs = [x for x in assigns_to(fn, sigs) if comes_after(fn, x, s) and def_value(x) is not None and not is_none(def_value(x))]
                rep.add('G1', fi.site(s), f'{side} side from signatures: ids are the stored ids of the very object that is this side\'s matrix operand', before not in (None, PARAM) and not rebound,
                        expected=f'{sigs} = <source>; {ids} = {sigs}.ids; {sigs} not rebound afterwards', found=dict(bound_before=u(before) if isinstance(before, ast.AST) else before, rebound_after=[u(x) for x in rebound]),
                        stmt=f'{side} sigs branch @{" | ".join(sorted(u(x.value)[:30] for x in srcs)) or "?"}')
            elif side == 'ref' and u(s.value) == q_ids:
                at = path_atoms(gm[s])
                rep.add('G1', fi.site(s), 'square mode labels the columns with the query ids', ('true', 'square') in at, expected='ref_ids = query_ids under square', found=sorted(at), stmt='square ids')
            else:
                rep.add('G1', fi.site(s), f'{side} ids come from this side\'s own source', False, expected=f'{sigs}.ids | get_sequence_files | query_ids (square)', found=u(s), stmt=f'{side} ids other')
    rep.floor('G1', 'id-assignment branches', nbranches, 5)
    rep.add('G1', fi.site(), 'each side loads its own signature file option', loads.get(q_sigs) == ['qs'] and loads.get(r_sigs) == ['rs'], expected={q_sigs: ['qs'], r_sigs: ['rs']}, found=loads, stmt='signature file options')
    ctx_aliases = {'ctx.obj'} | {u(x.targets[0]) for x in stmts_in(fn.body) if isinstance(x, ast.Assign) and u(x.value) == 'ctx.obj'}
    dbs = [s for s in stmts_in(fn.body) if isinstance(s, ast.Assign) and u(s.targets[0]) == r_sigs and u(s.value) in {f'{a}.signatures' for a in ctx_aliases}]
    # the guard may be reached by elimination (`if rs is not None or use_db:` ... `if rs is None:`); the tested options are never rebound
    db_at = implied_atoms(gm[dbs[0]]) if len(dbs) == 1 else set()
    stale = [n for t, _ in (gm[dbs[0]] if len(dbs) == 1 else ()) for n in sorted({x.id for x in ast.walk(t) if isinstance(x, ast.Name)}) if n != r_sigs and assigns_to(fn, n)]
    rep.add('G1', fi.site(dbs[0] if dbs else None), "--use-db takes the database's signatures as references", len(dbs) == 1 and ('true', 'use_db') in db_at and not stale, expected='ref_sigs = ctx.obj.signatures under use_db',
            found=([u(x) for x in dbs], sorted(db_at), stale), stmt='use_db source')
    # ---- G3: computed signatures
    calcs = [s for s in stmts_in(fn.body) if isinstance(s, ast.Assign) and isinstance(s.value, ast.Call) and (m.resolve_call(fi, s.value) or '').endswith('calc_file_signatures')]
    rep.floor('G3', 'calc_file_signatures sites in dist_cmd', len(calcs), 2)
    kargs = set()
    for s in calcs:
        side = 'query' if u(s.targets[0]) == q_sigs else 'ref' if u(s.targets[0]) == r_sigs else None
        rep.require(side is not None, f'dist_cmd: computed signatures assigned to {u(s.targets[0])}')
        ids, sigs, files = sides[side]
        root = align.source(m, fi, s.value.args[1], s)[0]
        if root.startswith('?'):
            # the files variable is None in the pre-computed branches (G1) and bound by get_sequence_files in the files
            # branch; under `<sigs> is None` only that definition is live: use the unique non-None definition
            nm = root[1:]
            nn = [x for x in stmts_in(fn.body) if isinstance(x, ast.Assign) and any(nm in [u(e) for e in (t.elts if isinstance(t, (ast.Tuple, ast.List)) else [t])] for t in x.targets)
                  and not is_none(x.value)]
            if len(nn) == 1 and isinstance(nn[0].value, ast.Call) and m.resolve_call(fi, nn[0].value) == 'gambit.cli.common.get_sequence_files':
                root = f'gambit.cli.common.get_sequence_files({", ".join(u(a) for a in nn[0].value.args)})@{nn[0].lineno}'
        at = path_atoms(gm[s])
        # "the reconciled parameters": one variable for both sides, every definition of which is the explicit options, the parameters of a
        # pre-computed source or the default (that the choice among them is the right one on every option path is P1/P2 below)
        karg = get_arg(s.value, 0, 'kmerspec')
        kinds = kspec_kinds(karg) if isinstance(karg, ast.AST) else {'other: no parameter argument'}
        unknown = sorted(k_ for k_ in kinds if k_.startswith('other'))
        rep.require(not unknown or 'options' not in kinds, f'dist_cmd: k-mer parameters of the computed {side} signatures have a definition outside the vocabulary ({unknown[0] if unknown else ""})')
        kargs.add(u(karg))
        rep.add('G3', fi.site(s), f'{side} signatures are computed from this side\'s files (in file order), only when not pre-computed, with the reconciled parameters',
                root.startswith('gambit.cli.common.get_sequence_files(') and ('is', 'None', sigs) in at and 'options' in kinds and not unknown and len(kargs) == 1,
                expected=f'{sigs} = calc_file_signatures(kspec, <{files}>) under {sigs} is None', found=(root, sorted(at), u(karg), sorted(kinds)), stmt=f'{side} computed')
        idd = [x for x in stmts_in(fn.body) if isinstance(x, ast.Assign) and isinstance(x.targets[0], ast.Tuple) and ids in [u(e) for e in x.targets[0].elts]]
        same = idd and root == f'gambit.cli.common.get_sequence_files({", ".join(u(a) for a in idd[0].value.args)})@{idd[0].lineno}'
        rep.add('G3', fi.site(s), f'{side} labels and {side} signatures descend from the same get_sequence_files call', bool(same), expected='same call', found=root, stmt=f'{side} label/signature alignment')
    # no reassignments of ids after sources fixed
    late = [s for s in stmts_in(fn.body) if isinstance(s, ast.Assign) and any(u(t) in (q_ids, r_ids) for t in s.targets) and s.lineno > min(c.lineno for c in calcs)]
    rep.add('G1', fi.site(late[0] if late else None), 'labels are not rebound after the sources are chosen', not late, expected='none', found=[u(s) for s in late], stmt='late id rebinding')

    # ---- G4 writer
    fw = m.func('gambit.cluster.dump_dmat_csv')
    rep.functions.add(fw.qualname)
    p = fw.params()
    d = fw.param_default('fmt')
    rep.add('G4', fw.site(), 'values are written with a fixed four-decimal format by default', d is not None and is_const(d, '0.4f'), expected="'0.4f'", found=u(d), stmt='default format')
    rep.add('G4', fi.site(dc), 'the command uses that default format', get_kw(dc, 'fmt') is None and len(dc.args) <= 5, expected='fmt not overridden', found=u(dc), stmt='format not overridden')
    rep.account_returns('G4', fw, [], 'row (the writer must not leave before every row is written)')
    wr = [s for s in stmts_in(fw.node.body) if isinstance(s, ast.Assign) and isinstance(s.value, ast.Call) and u(s.value.func) == 'csv.writer']
    rows = [c for c in calls_in(fw.node) if callee_attr(c) == 'writerow']
    rep.add('G4', fw.site(wr[0] if wr else None), 'cells go through csv.writer (labels with commas/quotes stay parseable)', len(wr) == 1 and all(u(c.func.value) == u(wr[0].targets[0]) for c in rows) and len(rows) == 2, expected='csv.writer(...).writerow x2',
            found=[u(c)[:50] for c in rows], stmt='csv writer')
    def in_loop(c):
        st_ = next((s for s in stmts_in(fw.node.body) if any(x is c for x in ast.walk(s)) and not isinstance(s, (ast.For, ast.While, ast.If, ast.With, ast.Try))), None)
        rep.require(st_ is not None, f'dump_dmat_csv: cannot locate the statement of {u(c)[:50]}')
        return any(isinstance(o, ast.For) for (_, _, o) in block_path(fw.node, st_))
    hdr = next((c for c in rows if not in_loop(c)), None)
    okh = hdr is not None and isinstance(hdr.args[0], ast.List) and len(hdr.args[0].elts) == 2 and isinstance(hdr.args[0].elts[1], ast.Starred) and u(hdr.args[0].elts[1].value) == f'map(str, {p[3]})'
    rep.add('G4', fw.site(hdr), 'header = corner cell followed by the column ids in order', okh, expected=f"[corner or '', *map(str, {p[3]})]", found=u(hdr.args[0]) if hdr is not None else None, stmt='header')
    loops = [s for s in stmts_in(fw.node.body) if isinstance(s, ast.For)]
    okl = len(loops) == 1 and isinstance(loops[0].iter, ast.Call) and u(loops[0].iter.func) == 'zip_strict' and [u(a) for a in loops[0].iter.args] == [p[2], p[1]]
    rep.add('G4', fw.site(loops[0] if loops else None), 'row ids are STRICTLY zipped with the matrix rows (count mismatch is an error)', okl, expected=f'for row_id, values in zip_strict({p[2]}, {p[1]})', found=[u(l.iter) for l in loops], stmt='row zip')
    if okl:
        rid, vals = (u(e) for e in loops[0].target.elts)
        body_row = next((c for c in rows if c is not hdr), None)
        vs = next((s for s in loops[0].body if isinstance(s, ast.Assign)), None)
        okv = vs is not None and isinstance(vs.value, (ast.GeneratorExp, ast.ListComp)) and u(vs.value.generators[0].iter) == vals and not vs.value.generators[0].ifs \
            and u(vs.value.elt) == f'format({u(vs.value.generators[0].target)}, {p[5]})'
        okr = body_row is not None and isinstance(body_row.args[0], ast.List) and u(body_row.args[0].elts[0]) == f'str({rid})' and isinstance(body_row.args[0].elts[1], ast.Starred) \
            and vs is not None and u(body_row.args[0].elts[1].value) == u(vs.targets[0])
        rep.add('G4', fw.site(loops[0]), 'each row = its id followed by every value of its matrix row formatted with fmt, in column order', okv and okr, expected=f'[str({rid}), *(format(d, {p[5]}) for d in {vals})]',
                found=(u(vs.value) if vs is not None else None, u(body_row.args[0]) if body_row is not None else None), stmt='row cells')
    # "every value being the true signature distance": cell provenance of the bulk functions the command calls (C05-B1), re-evaluated
    from . import c05
    rep.rule('B1', 'C05-B1 re-evaluated: every matrix cell is the unmodified kernel value, a copy of a cell, or the zero diagonal')
    c05.check_stores(ctx)
    # "every value being the true signature distance ... for every way of supplying either side": both operands of every
    # comparison in dist_cmd must have known-equal k-mer parameters on every option path (C14-P1/P2 on dist_cmd, re-evaluated)
    from . import c14
    rep.rule('P1', 'C14-P1 re-evaluated on dist_cmd: sink operands have known-equal k-mer parameters on every abstract path')
    rep.rule('P2', 'C14-P2 re-evaluated on dist_cmd'); rep.rule('P4', 'C14-P4 re-evaluated on dist_cmd')
    c14.check_commands(ctx, only={D})
    wo = [s for s in stmts_in(fw.node.body) if isinstance(s, ast.With)]
    okw = len(wo) == 1 and isinstance(wo[0].items[0].context_expr, ast.Call) and u(wo[0].items[0].context_expr.func) == 'maybe_open' and [u(a) for a in wo[0].items[0].context_expr.args[:2]] == [p[0], "'w'"] \
        and u(get_kw(wo[0].items[0].context_expr, 'newline')) == "''"
    rep.add('G4', fw.site(wo[0] if wo else None), "the file is opened for writing with newline='' (csv module requirement)", okw, expected="maybe_open(file, 'w', newline='')", found=[u(w.items[0].context_expr) for w in wo], stmt='open mode')


from ..variants import V  # noqa: E402

_D = 'src/gambit/cli/dist.py'
_C = 'src/gambit/cluster.py'
_RSDB = "\tif rs is not None:\n\t\tref_sigs = load_signatures(rs)\n\t\tref_ids = ref_sigs.ids\n\t\tref_files = None\n\telif use_db:\n\t\tctxobj = ctx.obj  # type: common.CLIContext\n\t\tctxobj.require_signatures()\n\t\tref_sigs = ctxobj.signatures\n\t\tref_ids = ref_sigs.ids\n\t\tref_files = None\n"
_MERGED = "\tif rs is not None or use_db:\n\t\tif rs is not None:\n\t\t\tref_sigs = load_signatures(rs)\n\t\telse:\n\t\t\tctxobj = ctx.obj\n\t\t\tctxobj.require_signatures()\n\t\t\tref_sigs = ctxobj.signatures\n\t\tref_ids = ref_sigs.ids\n\t\tref_files = None\n"
_CALC = "ref_sigfiles = SequenceFile.from_paths(ref_files, 'fasta', 'auto')\nTABSref_pconf = progress_config('click', desc='Calculating reference genome signatures') if len(ref_files) > 1 else None\nTABSref_sigs = calc_file_signatures(kspec, ref_sigfiles, progress=ref_pconf)\n"
_MODE = "\tif square:\n\t\tdmat = jaccarddist_pairwise(query_sigs, progress=dist_pconf)\n\n\telse:\n\t\tif ref_sigs is None:\n\t\t\t" + _CALC.replace('TABS', '\t\t\t') + "\n\t\tdmat = jaccarddist_matrix(query_sigs, ref_sigs, progress=dist_pconf)\n"
_HOIST = "\tif ref_sigs is None and not square:\n\t\t" + _CALC.replace('TABS', '\t\t') + "\n"
VARIANTS = [
    V('file options resolve symlinks (seeded C16c)', 'B', 'src/gambit/cli/common.py', "\tkw.setdefault('path_type', Path)\n\treturn click.Path(file_okay=True, dir_okay=False, **kw)\n",
      "\tkw.setdefault('path_type', Path)\n\tkw.setdefault('resolve_path', True)\n\treturn click.Path(file_okay=True, dir_okay=False, **kw)\n", 'G5'),
    V('one option asks for a resolved path', 'B', 'src/gambit/cli/dist.py', "@click.option('-q', type=common.filepath(exists=True), multiple=True,", "@click.option('-q', type=common.filepath(exists=True, resolve_path=True), multiple=True,", 'G5'),
    V('E: resolve_path=False spelled out', 'E', 'src/gambit/cli/common.py', "\tkw.setdefault('path_type', Path)\n\treturn click.Path(file_okay=True, dir_okay=False, **kw)\n",
      "\tkw.setdefault('path_type', Path)\n\tkw.setdefault('resolve_path', False)\n\treturn click.Path(file_okay=True, dir_okay=False, **kw)\n"),
    V('label arguments swapped', 'B', _D, "dump_dmat_csv(output, dmat, query_ids, ref_ids)", "dump_dmat_csv(output, dmat, ref_ids, query_ids)", 'G2'),
    V('matrix operands swapped', 'B', _D, "dmat = jaccarddist_matrix(query_sigs, ref_sigs, progress=dist_pconf)", "dmat = jaccarddist_matrix(ref_sigs, query_sigs, progress=dist_pconf)", 'G2'),
    V('square ids from another list', 'B', _D, "\t\tref_ids = query_ids\n", "\t\tref_ids = sorted(query_ids)\n", 'G1'),
    V('default format 3 decimals', 'B', _C, "fmt: str = '0.4f',", "fmt: str = '0.3f',", 'G4'),
    V('zip for zip_strict in the writer', 'B', _C, "for row_id, values in zip_strict(row_ids, dmat):", "for row_id, values in zip(row_ids, dmat):", 'G4'),
    V('flat pairwise output', 'B', _D, "dmat = jaccarddist_pairwise(query_sigs, progress=dist_pconf)", "dmat = jaccarddist_pairwise(query_sigs, flat=True, progress=dist_pconf)", 'G2'),
    V('query ids from the reference signature file', 'B', _D, "\t\tquery_ids = query_sigs.ids\n", "\t\tquery_ids = ref_sigs.ids if rs is not None else query_sigs.ids\n", 'G1'),
    V('reference signatures computed from the query files', 'B', _D, "ref_sigfiles = SequenceFile.from_paths(ref_files, 'fasta', 'auto')", "ref_sigfiles = SequenceFile.from_paths(query_files, 'fasta', 'auto')", 'G3'),
    V('reference side reads the query list options', 'B', _D, "ref_ids, ref_files = common.get_sequence_files(r, rl, rdir)", "ref_ids, ref_files = common.get_sequence_files(r, ql, qdir)", 'G1'),
    V('header from the row ids', 'B', _C, "writer.writerow([corner or '', *map(str, col_ids)])", "writer.writerow([corner or '', *map(str, row_ids)])", 'G4'),
    V('values written reversed', 'B', _C, "values_str = (format(d, fmt) for d in values)", "values_str = (format(d, fmt) for d in values[::-1])", 'G4'),
    V('manual join instead of csv.writer', 'B', _C, "writer.writerow([str(row_id), *values_str])", "fobj.write(','.join([str(row_id), *values_str]) + '\\n')", 'G4'),
    V('empty query short-cut writes 1 into the cells (seeded C16a)', 'B', 'src/gambit/metric.py', "\telse:\n\t\tfor i, ref in enumerate(refs):\n\t\t\tref = _cast_sigs_array(ref)",
      "\telif len(query) == 0:\n\t\tout[:] = 1\n\n\telse:\n\t\tfor i, ref in enumerate(refs):\n\t\t\tref = _cast_sigs_array(ref)", 'B1'),
    V('default parameters chosen by the option, not by the loaded signatures (seeded C16b)', 'B', _D, "\t\telif ref_sigs is not None:\n\t\t\tkspec = ref_sigs.kmerspec", "\t\telif rs is not None:\n\t\t\tkspec = ref_sigs.kmerspec", 'P1'),
    V('E: keyword arguments to the writer', 'E', _D, "dump_dmat_csv(output, dmat, query_ids, ref_ids)", "dump_dmat_csv(output, dmat, row_ids=query_ids, col_ids=ref_ids)"),
    # ---- idioms accepted since the refactoring round, each with its broken twin
    V('E: --rs / --use-db arms merged, source chosen by a nested if, ids read once', 'E', _D, _RSDB, _MERGED),
    V('merged arms also entered for --square: database signatures used without --use-db', 'B', _D, _RSDB, _MERGED.replace("if rs is not None or use_db:", "if rs is not None or use_db or square:"), 'G1'),
    V('merged arms: reference signatures reordered after their labels were read', 'B', _D, _RSDB, _MERGED.replace("\t\tref_files = None\n", "\t\tref_files = None\n\t\tref_sigs = ref_sigs[::-1]\n"), 'G1'),
    V('E: options parsed into a temporary that is copied into the reconciled variable', 'E', _D, "\tkspec = common.kspec_from_params(k, prefix)\n", "\tcli_kspec = common.kspec_from_params(k, prefix)\n\tkspec = cli_kspec\n"),
    V('reference signatures computed with the default parameters, explicit options ignored', 'B', _D, "ref_sigs = calc_file_signatures(kspec, ref_sigfiles, progress=ref_pconf)", "ref_sigs = calc_file_signatures(DEFAULT_KMERSPEC, ref_sigfiles, progress=ref_pconf)", 'G3',
      also=[(_D, "\tkspec = common.kspec_from_params(k, prefix)\n", "\tcli_kspec = common.kspec_from_params(k, prefix)\n\tkspec = cli_kspec\n")]),
    V('E: reference signatures computed before the mode switch; matrix chosen by a conditional expression', 'E', _D, _MODE, _HOIST + "\tdmat = jaccarddist_pairwise(query_sigs, progress=dist_pconf) if square else jaccarddist_matrix(query_sigs, ref_sigs, progress=dist_pconf)\n"),
    V('conditional expression with the modes swapped', 'B', _D, _MODE, _HOIST + "\tdmat = jaccarddist_matrix(query_sigs, ref_sigs, progress=dist_pconf) if square else jaccarddist_pairwise(query_sigs, progress=dist_pconf)\n", 'G2'),
    V('E: label variables renamed (no rule may depend on what the locals are called)', 'E', _D, "query_ids", "names_a", count=7),
    V('E: signature variables renamed', 'E', _D, "ref_sigs", "sigs_b", count=18),
]
