"""C02 - Jaccard distance = |A xor B| / |A or B|, correctly rounded to float32.

M1 merge loop by ordering-domain abstract interpretation (3 orderings cover all inputs because the data are
   touched only through comparisons of the two loaded scalars)
M2 tail, M3 zero guard, M4 single rounding, M5 initialisation / counter types, M6 fused types,
M7 wrappers, M8 dtype gate in metric.py.
"""
import ast

from ..affine import Aff, sym, NotAffine
from ..astutil import (u, atoms, guard_map, path_atoms, stmts_in, calls_in, callee, callee_attr, reaching_def,
                       def_value, PARAM, AMBIGUOUS, raised_name, walk_no_nested, get_arg, binds)
from ..mini import Mini, Return, Opaque
from ..report import Undecided

PYX = 'gambit._cython.metric'
TYPES = 'gambit._cython.types:pxd'
WIDE_SIGNED = {'intptr_t', 'Py_ssize_t', 'ssize_t', 'ptrdiff_t', 'int64_t', 'long long'}
ORDERS = {'LT': (0, 1), 'EQ': (1, 1), 'GT': (1, 0)}


def _shape_key(node):
    if isinstance(node, ast.Subscript) and isinstance(node.value, ast.Attribute) and node.value.attr == 'shape' \
            and isinstance(node.slice, ast.Constant) and node.slice.value == 0:
        return f'len({u(node.value.value)})'
    if isinstance(node, ast.Call) and u(node.func) == 'len' and len(node.args) == 1:
        return f'len({u(node.args[0])})'
    return None


def kernel_facts(ctx):
    """Extract the facts about c_jaccarddist that C02 and C15 both reason about. Adds the structural obligations."""
    rep, m = ctx.rep, ctx.model
    fi = m.func(f'{PYX}.c_jaccarddist')
    rep.functions.add(fi.qualname)
    params = fi.params()
    rep.require(len(params) == 2, 'c_jaccarddist: expected two array parameters')
    p1, p2 = params
    body = fi.node.body
    loops = [s for s in body if isinstance(s, (ast.While, ast.For))]
    rep.floor('M1', 'merge loops in c_jaccarddist', len(loops), 1)
    rep.require(len(loops) == 1 and isinstance(loops[0], ast.While), 'c_jaccarddist: expected exactly one while loop')
    loop = loops[0]
    li = body.index(loop)
    # ---- prelude: symbols
    symenv = {}          # local name -> Aff over {len1, len2}
    inits = {}
    for s in body[:li]:
        tgt = val = None
        if isinstance(s, ast.AnnAssign) and isinstance(s.target, ast.Name):
            tgt, val = s.target.id, s.value
        elif isinstance(s, ast.Assign) and len(s.targets) == 1 and isinstance(s.targets[0], ast.Name):
            tgt, val = s.targets[0].id, s.value
        elif isinstance(s, ast.Expr) and isinstance(s.value, ast.Constant):
            continue
        else:
            raise Undecided(f'c_jaccarddist: unrecognised prelude statement {u(s)[:60]}')
        if val is None:
            continue
        k = _shape_key(val)
        if k == f'len({p1})':
            symenv[tgt] = sym('len1')
        elif k == f'len({p2})':
            symenv[tgt] = sym('len2')
        else:
            inits[tgt] = val
    lens = {str(v): k for k, v in symenv.items()}
    rep.require('len1' in lens and 'len2' in lens, 'c_jaccarddist: lengths of both arrays are not bound to locals')
    N, M = lens['len1'], lens['len2']
    rep.add('M5', fi.site(loop), f'{N} = len({p1}), {M} = len({p2})', True, found=f'{N}, {M}')

    # ---- loop condition
    def key(n):
        a = Aff.try_of(n, symenv)
        return str(a) if a is not None else u(n)
    cond = atoms(loop.test, True, key)
    rep.require(cond is not None, 'c_jaccarddist: loop condition is not a conjunction')
    # cursors = the subscripts of the two per-iteration loads
    loads = {}
    cursor = {}
    for s_ in loop.body:
        if isinstance(s_, ast.Assign) and len(s_.targets) == 1 and isinstance(s_.targets[0], ast.Name) \
                and isinstance(s_.value, ast.Subscript) and isinstance(s_.value.value, ast.Name) and s_.value.value.id in (p1, p2):
            loads[s_.targets[0].id] = s_.value.value.id
            names = [n.id for n in ast.walk(s_.value.slice) if isinstance(n, ast.Name)]
            if len(names) == 1:
                cursor.setdefault(s_.value.value.id, names[0])
    rep.require(sorted(loads.values()) == sorted([p1, p2]) and set(cursor) == {p1, p2},
                f'c_jaccarddist: loop body does not load one scalar from each array ({loads})')
    ci, cj = cursor[p1], cursor[p2]
    if ci == cj:
        rep.add('M1', fi.site(loop), 'each array is read through its own cursor', False, expected='two distinct cursors', found=f'both via {ci}',
                stmt='loads')
        raise Undecided('c_jaccarddist: both arrays are read through the same cursor')
    rep.add('M1', fi.site(loop), 'loop runs while both arrays have unread elements: {i < len1, j < len2}',
            cond == {('lt', ci, 'len1'), ('lt', cj, 'len2')}, expected=f'{{{ci} < len1, {cj} < len2}}', found=sorted(cond), stmt=loop.test)

    # ---- union counter = the name used in the return ratio denominator; find after the loop
    rets = [s for s in stmts_in(body[li + 1:]) if isinstance(s, ast.Return)]
    rep.require(isinstance(body[-1], ast.Return) and body[-1].value is not None, 'c_jaccarddist: function does not end in `return <ratio>`')
    ret = body[-1]
    outer_casts = []
    ratio = ret.value
    while isinstance(ratio, ast.Call) and u(ratio.func) == '__cast__' and not isinstance(ratio.args[1], (ast.Name, ast.Constant)):
        outer_casts.append(ratio.args[0].value)
        ratio = ratio.args[1]
    rep.require(isinstance(ratio, ast.BinOp), f'c_jaccarddist: returned value is not a ratio: {u(ret.value)}')
    denom = ratio.right
    while isinstance(denom, ast.Call) and u(denom.func) == '__cast__':
        denom = denom.args[1]
    rep.require(isinstance(denom, ast.Name), 'c_jaccarddist: denominator is not a plain counter')
    cu = denom.id
    for c in (ci, cj, cu):
        init = inits.get(c)
        rep.add('M5', fi.site(loop), f'counter {c} starts at 0', isinstance(init, ast.Constant) and init.value == 0 and init.value is not False,
                expected='0', found=u(init), stmt=f'{c} init')
        rep.add('M5', fi.site(loop), f'counter {c} is a pointer-width signed integer', fi.ctype(c) in WIDE_SIGNED,
                expected=sorted(WIDE_SIGNED), found=fi.ctype(c), stmt=f'{c} type')

    # ---- M1: execute the loop body under the three orderings
    va = next(k for k, v in loads.items() if v == p1)
    vb = next(k for k, v in loads.items() if v == p2)
    # data are touched only through comparisons of the two scalars
    only_cmp = True
    offenders = []
    pm = {}
    for n in ast.walk(fi.node):
        for c in ast.iter_child_nodes(n):
            pm[c] = n
    for n in ast.walk(fi.node):
        if isinstance(n, ast.Name) and n.id in (va, vb) and isinstance(n.ctx, ast.Load):
            par = pm.get(n)
            if not (isinstance(par, ast.Compare) and all(isinstance(x, ast.Name) and x.id in (va, vb)
                                                         for x in [par.left] + par.comparators)):
                only_cmp = False
                offenders.append(u(par))
        if isinstance(n, ast.Subscript) and isinstance(n.value, ast.Name) and n.value.id in (p1, p2) and isinstance(n.ctx, ast.Load):
            par = pm.get(n)
            if not (isinstance(par, ast.Assign) and par.targets[0].id in (va, vb) if isinstance(par, ast.Assign) and isinstance(par.targets[0], ast.Name) else False):
                if not (isinstance(n.slice, ast.Constant) or isinstance(pm.get(n), ast.Attribute)):
                    only_cmp = False
                    offenders.append(u(par))
    rep.add('M1', fi.site(loop), 'array data are used only through comparisons of the two loaded scalars (so 3 orderings cover all inputs)',
            only_cmp, expected=f'{va}, {vb} only in comparisons', found=offenders[:4], stmt='data-use')
    table = {}
    reads_all = set()
    for order, (xa, xb) in ORDERS.items():
        reads = []

        def on_load(mini, e, idx, reads=reads, xa=xa, xb=xb):
            arr = u(e.value)
            if arr == p1:
                reads.append((p1, idx if isinstance(idx, Aff) else Aff(const=idx)))
                return xa
            if arr == p2:
                reads.append((p2, idx if isinstance(idx, Aff) else Aff(const=idx)))
                return xb
            raise Undecided(f'c_jaccarddist: load of {u(e)}')
        env = {ci: sym('i0'), cj: sym('j0'), cu: sym('u0'), N: sym('len1'), M: sym('len2')}
        mini = Mini(env, on_load)
        try:
            mini.run(loop.body)
        except Return:
            raise Undecided('c_jaccarddist: return inside the merge loop')

        def delta(name, base):
            v = mini.env[name]
            if not isinstance(v, Aff):
                raise Undecided(f'c_jaccarddist: {name} is not affine after the loop body')
            d = v.sub(sym(base))
            if not d.is_const():
                raise Undecided(f'c_jaccarddist: {name} update is not a constant increment: {v}')
            return int(d.const)
        table[order] = (delta(ci, 'i0'), delta(cj, 'j0'), delta(cu, 'u0'))
        reads_all |= set(reads)
    want = {'LT': (1, 0, 1), 'EQ': (1, 1, 1), 'GT': (0, 1, 1)}
    for order in ('LT', 'EQ', 'GT'):
        rep.add('M1', fi.site(loop), f'ordering {va} {dict(LT="<", EQ="==", GT=">")[order]} {vb}: (di, dj, du)', table[order] == want[order],
                expected=want[order], found=table[order], stmt=f'merge[{order}]')
    rep.add('M1', fi.site(loop), 'scalars are loaded at the current cursors before any increment',
            reads_all == {(p1, sym('i0')), (p2, sym('j0'))}, expected=f'{p1}[i], {p2}[j]',
            found=sorted(f'{a}[{i}]' for a, i in reads_all), stmt='loads')

    # ---- M2: tail
    zero_if = None
    tail = []
    for s in body[li + 1:]:
        if isinstance(s, ast.If):
            zero_if = s
            break
        if isinstance(s, ast.Return):
            break
        tail.append(s)
    env = {ci: sym('i'), cj: sym('j'), cu: sym('u'), N: sym('len1'), M: sym('len2')}
    mini = Mini(env)
    mini.run([s for s in tail if not (isinstance(s, ast.Expr) and isinstance(s.value, ast.Constant))])
    tail_u = mini.env[cu]
    want_tail = sym('u').add(sym('len1')).sub(sym('i')).add(sym('len2')).sub(sym('j'))
    rep.add('M2', fi.site(tail[0] if tail else loop), 'after the loop the union count gains the unread remainder of both arrays',
            tail_u == want_tail, expected=want_tail, found=tail_u, stmt='tail')
    rep.add('M2', fi.site(tail[0] if tail else loop), 'cursors are not modified after the loop', mini.env[ci] == sym('i') and mini.env[cj] == sym('j'),
            expected='i, j', found=(mini.env[ci], mini.env[cj]), stmt='tail-cursors')

    # ---- M3: zero guard
    gm = guard_map(fi.node)
    at = path_atoms(gm[ret])
    rep.add('M3', fi.site(ret), 'division is reached only with a non-empty union', ('ne', '0', cu) in at or ('lt', '0', cu) in at,
            expected=f'{cu} != 0 on the path', found=sorted(at), stmt=ret)
    zr = [r for r in rets if r is not ret]
    okz = bool(zr) and all(isinstance(r.value, ast.Constant) and r.value.value == 0 and ('eq', '0', cu) in path_atoms(gm[r]) for r in zr)
    rep.add('M3', fi.site(zr[0] if zr else ret), 'two empty sets are at distance 0', okz, expected=f'return 0 under {cu} == 0',
            found=[(u(r.value), sorted(path_atoms(gm[r]))) for r in zr], stmt=zr[0] if zr else None)

    # ---- M4: single rounding
    val = ratio
    is_div = isinstance(val, ast.BinOp) and isinstance(val.op, ast.Div) and not outer_casts

    def strip_cast(e):
        if isinstance(e, ast.Call) and u(e.func) == '__cast__':
            return e.args[0].value, e.args[1]
        return None, e
    lc, le = strip_cast(val.left)
    rc_, re_ = strip_cast(val.right)
    rep.add('M4', fi.site(ret), 'result is ONE true division whose numerator is converted to SCORE_T first (not a cast of the quotient)',
            is_div and lc == 'SCORE_T' and rc_ in (None, 'SCORE_T'), expected='<SCORE_T>(E) / u', found=u(ret.value), stmt=ret)
    E = Aff.try_of(le, {cu: sym('u'), N: sym('len1'), M: sym('len2')}) if le is not None else None
    wantE = sym('u').scale(2).sub(sym('len1')).sub(sym('len2'))
    rep.add('M4', fi.site(ret), 'numerator == 2u - N - M (size of the symmetric difference)', E == wantE, expected=wantE, found=E, stmt=ret)
    D = Aff.try_of(re_, {cu: sym('u')}) if re_ is not None else None
    rep.add('M4', fi.site(ret), 'denominator == u (size of the union)', D == sym('u'), expected='u', found=D, stmt=ret)
    info = fi.cinfo() or {}
    rep.add('M4', fi.site(), 'kernel returns SCORE_T and is nogil', info.get('ret') == 'SCORE_T' and info.get('nogil') is True,
            expected=('SCORE_T', True), found=(info.get('ret'), info.get('nogil')), stmt='c_jaccarddist header')
    return dict(fi=fi, loop=loop, cond=cond, table=table, reads=reads_all, tail=tail_u, E=E, D=D, va=va, vb=vb, p1=p1, p2=p2,
                ci=ci, cj=cj, cu=cu)


def check_types(ctx, facts):
    rep, m = ctx.rep, ctx.model
    types = m.module(TYPES)
    td = types.side.get('typedefs', {})
    tsite = (types.relpath, 1, TYPES)
    rep.add('M4', tsite, 'SCORE_T is C float (binary32)', td.get('SCORE_T') == 'float', expected='float', found=td.get('SCORE_T'),
            stmt='ctypedef SCORE_T')
    want = ['uint16_t', 'uint32_t', 'uint64_t']
    nf = 0
    for ft in ('COORDS_T', 'COORDS_T_2'):
        v = td.get(ft)
        ok = isinstance(v, tuple) and v[0] == 'fused' and sorted(v[1]) == want
        nf += len(v[1]) if isinstance(v, tuple) else 0
        rep.add('M6', tsite, f'{ft} lists exactly the three unsigned widths', ok, expected=want, found=v, stmt=f'ctypedef fused {ft}')
    rep.floor('M6', 'fused-type members', nf, 6)
    fi = facts['fi']
    t1, t2 = fi.ctype(facts['p1']), fi.ctype(facts['p2'])
    rep.add('M6', fi.site(), 'the two array parameters use independent fused types', {t1, t2} == {'COORDS_T[:]', 'COORDS_T_2[:]'},
            expected='COORDS_T[:], COORDS_T_2[:]', found=(t1, t2), stmt='c_jaccarddist params')
    ea = (t1 or '').replace('[:]', '')
    eb = (t2 or '').replace('[:]', '')
    rep.add('M6', fi.site(), 'loaded scalars have the element type of their own array (no truncation on load)',
            fi.ctype(facts['va']) == ea and fi.ctype(facts['vb']) == eb, expected=(ea, eb),
            found=(fi.ctype(facts['va']), fi.ctype(facts['vb'])), stmt='scalar types')
    # .pxd prototype agrees
    pxd = m.module(PYX + ':pxd')
    pinfo = pxd.side.get('funcs', {}).get('c_jaccarddist')
    rep.require(pinfo is not None, 'metric.pxd: c_jaccarddist prototype missing')
    ptypes = list(pxd.side.get('types', {}).get('c_jaccarddist', {}).values())
    info = fi.cinfo()
    rep.add('M6', (pxd.relpath, pinfo['line'], fi.qualname), '.pxd prototype matches the .pyx header',
            pinfo['ret'] == info['ret'] and pinfo['nogil'] == info['nogil'] and ptypes == [t1, t2],
            expected=(info['ret'], [t1, t2], info['nogil']), found=(pinfo['ret'], ptypes, pinfo['nogil']), stmt='prototype')
    # SCORE_DTYPE
    met = m.module('gambit.metric')
    sd = met.assigns.get('SCORE_DTYPE')
    ok = sd is not None and u(sd).replace(' ', '') in ('np.dtype(np.float32)', "np.dtype('float32')", "np.dtype('f4')", 'np.float32')
    rep.add('M4', (met.relpath, getattr(sd, 'lineno', 1), 'gambit.metric.SCORE_DTYPE'), 'Python-side score dtype is float32', ok,
            expected='np.dtype(np.float32)', found=u(sd), stmt='SCORE_DTYPE')
    # Python-visible kernels are typed with the same independent fused types
    for w in ('jaccard', 'jaccarddist', '_jaccarddist_parallel'):
        wf = m.func(f'{PYX}.{w}')
        ps = wf.params()
        rep.add('M6', wf.site(), f'{w}: query/reference arrays use independent fused types',
                {wf.ctype(ps[0]), wf.ctype(ps[1])} == {'COORDS_T[:]', 'COORDS_T_2[:]'}, expected='COORDS_T[:], COORDS_T_2[:]',
                found=(wf.ctype(ps[0]), wf.ctype(ps[1])), stmt=f'{w} params')


def check_wrappers(ctx):
    rep, m = ctx.rep, ctx.model
    n = 0
    for w, one_minus in (('jaccarddist', False), ('jaccard', True)):
        fi = m.func(f'{PYX}.{w}')
        rep.functions.add(fi.qualname)
        rets = [s for s in fi.node.body if isinstance(s, ast.Return)]
        rep.require(len(rets) == 1, f'{w}: expected one return')
        v = rets[0].value
        p = fi.params()
        if one_minus:
            ok = isinstance(v, ast.BinOp) and isinstance(v.op, ast.Sub) and isinstance(v.left, ast.Constant) and v.left.value == 1 \
                and isinstance(v.right, ast.Call) and callee(v.right) == 'c_jaccarddist' and [u(a) for a in v.right.args] == p
            rep.add('M7', fi.site(rets[0]), 'Jaccard index == 1 - distance of the same arguments in the same order', ok,
                    expected=f'1 - c_jaccarddist({", ".join(p)})', found=u(v), stmt=rets[0])
        else:
            ok = isinstance(v, ast.Call) and callee(v) == 'c_jaccarddist' and [u(a) for a in v.args] == p
            rep.add('M7', fi.site(rets[0]), 'distance wrapper returns the kernel value unchanged', ok,
                    expected=f'c_jaccarddist({", ".join(p)})', found=u(v), stmt=rets[0])
        n += 1
    rep.floor('M7', 'wrappers', n, 2)


def eval_dtype_list(ctx, module, node):
    """['u2','u4','u8'] from `[np.dtype(f'u{s}') for s in [2, 4, 8]]` or a literal list of np.dtype('..')."""
    def one(e, env):
        if isinstance(e, ast.Call) and u(e.func) in ('np.dtype', 'numpy.dtype') and len(e.args) == 1:
            a = e.args[0]
            if isinstance(a, ast.Constant) and isinstance(a.value, str):
                return a.value
            if isinstance(a, ast.JoinedStr):
                s = ''
                for part in a.values:
                    if isinstance(part, ast.Constant):
                        s += part.value
                    elif isinstance(part, ast.FormattedValue) and isinstance(part.value, ast.Name) and part.value.id in env \
                            and part.format_spec is None and part.conversion == -1:
                        s += str(env[part.value.id])
                    else:
                        raise Undecided(f'dtype list: {u(a)}')
                return s
            if isinstance(a, ast.Attribute) and u(a.value) in ('np', 'numpy'):
                names = {'uint16': 'u2', 'uint32': 'u4', 'uint64': 'u8', 'int16': 'i2', 'int32': 'i4', 'int64': 'i8',
                         'uint8': 'u1', 'int8': 'i1', 'float32': 'f4', 'float64': 'f8'}
                if a.attr in names:
                    return names[a.attr]
        raise Undecided(f'dtype list element: {u(e)}')
    if isinstance(node, ast.ListComp) and len(node.generators) == 1 and not node.generators[0].ifs \
            and isinstance(node.generators[0].target, ast.Name):
        g = node.generators[0]
        try:
            items = ast.literal_eval(g.iter)
        except Exception:
            raise Undecided(f'dtype list iterable: {u(g.iter)}')
        return [one(node.elt, {g.target.id: it}) for it in items]
    if isinstance(node, (ast.List, ast.Tuple)):
        return [one(e, {}) for e in node.elts]
    raise Undecided(f'dtype list: {u(node)}')


class _DT:
    """A numpy dtype of the finite domain, by its two-character code (u2, i8, f4 ...)."""
    NAMES = {'uint8': 'u1', 'uint16': 'u2', 'uint32': 'u4', 'uint64': 'u8', 'int8': 'i1', 'int16': 'i2', 'int32': 'i4', 'int64': 'i8', 'float32': 'f4', 'float64': 'f8',
             'bool': 'b1', 'intp': 'i8', 'uintp': 'u8'}

    def __init__(self, code):
        self.code = code

    @classmethod
    def of(cls, v):
        if isinstance(v, _DT):
            return v
        if isinstance(v, str):
            t = v.lstrip('<>=|')
            t = cls.NAMES.get(t, t)
            if len(t) == 2 and t[0] in 'uifb' and t[1] in '1248':
                return cls(t)
        raise Undecided(f'dtype gate: cannot interpret {v!r} as a dtype of the domain')

    kind = property(lambda self: self.code[0])
    itemsize = property(lambda self: int(self.code[1]))
    str = property(lambda self: '<' + self.code)
    char = property(lambda self: self.code)
    name = property(lambda self: {v: k for k, v in _DT.NAMES.items() if k not in ('intp', 'uintp')}.get(self.code, self.code))

    def __eq__(self, o):
        return isinstance(o, _DT) and o.code == self.code

    def __hash__(self):
        return hash(self.code)

    def __repr__(self):
        return self.code


class _ARR:
    def __init__(self, dt, how='same'):
        self.dt, self.how = dt, how


class _Raised(Exception):
    def __init__(self, name):
        self.name = name


class _LoopCtl(Exception):
    def __init__(self, kind):
        self.kind = kind


class _DtMini(Mini):
    """Evaluates the dtype gate for ONE concrete dtype of the input array (the domain of dtypes is finite and enumerated completely)."""

    def __init__(self, env, module):
        super().__init__(env, on_call=self._call)
        self.module = module
        self._mod = {}

    def ev(self, e):
        if isinstance(e, ast.Name) and e.id not in self.env and e.id in self.module.assigns:
            if e.id not in self._mod:
                self._mod[e.id] = self.ev(self.module.assigns[e.id])
            return self._mod[e.id]
        if isinstance(e, ast.Attribute):
            if u(e.value) in ('np', 'numpy') and e.attr in _DT.NAMES:
                return _DT(_DT.NAMES[e.attr])
            base = self.ev(e.value)
            if isinstance(base, _ARR) and e.attr == 'dtype':
                return base.dt
            if isinstance(base, _ARR) and e.attr == 'itemsize':
                return base.dt.itemsize
            if isinstance(base, _DT) and e.attr in ('kind', 'itemsize', 'str', 'char', 'name'):
                return getattr(base, e.attr)
            raise Undecided(f'dtype gate: attribute {u(e)}')
        if isinstance(e, ast.JoinedStr):
            out = ''
            for part in e.values:
                if isinstance(part, ast.Constant):
                    out += str(part.value)
                elif isinstance(part, ast.FormattedValue) and part.format_spec is None and part.conversion == -1:
                    v = self.ev(part.value)
                    out += v.str if isinstance(v, _DT) else str(v)
                else:
                    raise Undecided(f'dtype gate: formatted string {u(e)}')
            return out
        if isinstance(e, ast.Constant) and isinstance(e.value, str):
            return e.value
        if isinstance(e, (ast.ListComp, ast.SetComp, ast.GeneratorExp)) and len(e.generators) == 1 and isinstance(e.generators[0].target, ast.Name):
            g = e.generators[0]
            out = []
            for it in self.ev(g.iter):
                saved = self.env.get(g.target.id, _DtMini)
                self.env[g.target.id] = it
                if all(self.truth(self.ev(c)) for c in g.ifs):
                    out.append(self.ev(e.elt))
                if saved is _DtMini:
                    del self.env[g.target.id]
                else:
                    self.env[g.target.id] = saved
            return tuple(out)
        if isinstance(e, ast.Subscript):
            base = self.ev(e.value)
            if isinstance(base, dict):
                k = self.ev(e.slice)
                if k in base:
                    return base[k]
                raise _Raised('KeyError')
            if isinstance(base, (tuple, list)):
                k = self.ev(e.slice)
                if isinstance(k, int) and not isinstance(k, bool):
                    if -len(base) <= k < len(base):
                        return base[k]
                    raise _Raised('IndexError')
        if isinstance(e, ast.Set):
            return tuple(self.ev(x) for x in e.elts)
        if isinstance(e, ast.Dict):
            out = {}
            for k, v in zip(e.keys, e.values):
                if k is None:
                    sp = self.ev(v)
                    if not isinstance(sp, dict):
                        raise Undecided(f'dtype gate: ** of a non-dict in {u(e)}')
                    out.update(sp)
                else:
                    out[self.ev(k)] = self.ev(v)
            return out
        if isinstance(e, ast.DictComp) and len(e.generators) == 1:
            g = e.generators[0]
            out = {}
            for it in self.ev(g.iter):
                saved = dict(self.env)
                if isinstance(g.target, ast.Name):
                    self.env[g.target.id] = it
                elif isinstance(g.target, ast.Tuple) and isinstance(it, (tuple, list)) and len(it) == len(g.target.elts) and all(isinstance(t, ast.Name) for t in g.target.elts):
                    for t, v in zip(g.target.elts, it):
                        self.env[t.id] = v
                else:
                    raise Undecided(f'dtype gate: comprehension target in {u(e)}')
                if all(self.truth(self.ev(c)) for c in g.ifs):
                    out[self.ev(e.key)] = self.ev(e.value)
                self.env = saved
            return out
        return super().ev(e)

    def compare(self, op, l, r, node):
        if isinstance(op, (ast.Is, ast.IsNot)):
            if l is None or r is None:
                res = l is None and r is None
                return res if isinstance(op, ast.Is) else not res
            raise Undecided(f'dtype gate: identity test {u(node)}')
        if isinstance(op, (ast.In, ast.NotIn)) and isinstance(r, (tuple, list, dict, set, frozenset)):
            res = any(l == x for x in r)
            return res if isinstance(op, ast.In) else not res
        if isinstance(l, (_DT, str)) or isinstance(r, (_DT, str)):
            if isinstance(op, (ast.Eq, ast.NotEq)):
                if isinstance(l, _DT) and isinstance(r, str) or isinstance(r, _DT) and isinstance(l, str):
                    try:
                        l, r = _DT.of(l), _DT.of(r)
                    except Undecided:
                        pass
                res = l == r
                return res if isinstance(op, ast.Eq) else not res
        return super().compare(op, l, r, node)

    def _call(self, mini, e, _arg=_DT):
        f = u(e.func)
        if f in ('np.dtype', 'numpy.dtype') and len(e.args) == 1:
            return _DT.of(self.ev(e.args[0]) if _arg is _DT else _arg)
        if f in ('tuple', 'list', 'set', 'frozenset') and len(e.args) == 1:
            return tuple(self.ev(e.args[0]))
        if f == 'dict' and len(e.args) == 1 and not e.keywords:
            v = self.ev(e.args[0])
            return dict(v) if not isinstance(v, dict) else dict(v)
        if f == 'zip':
            return tuple(zip(*[self.ev(a) for a in e.args]))
        if f == 'map' and len(e.args) == 2 and not e.keywords:
            fn = e.args[0]
            items = self.ev(e.args[1])
            if not isinstance(items, (tuple, list)):
                raise Undecided(f'dtype gate: call {u(e)}')
            return tuple(self._call(mini, ast.Call(func=fn, args=[ast.Constant(value=None)], keywords=[]), _arg=it) for it in items)
        if f == 'enumerate' and len(e.args) == 1:
            return tuple(enumerate(self.ev(e.args[0])))
        if isinstance(e.func, ast.Name) and e.func.id in self.module.functions and e.func.id not in self.env:
            # a helper of the same module (memoisation decorators are transparent for a pure function of the dtype)
            callee_fi = self.module.functions[e.func.id]
            decos = [u(d) for d in callee_fi.node.decorator_list]
            if any(not d.startswith(('lru_cache', 'functools.lru_cache', 'cache', 'functools.cache')) for d in decos) or self.depth > 3:
                raise Undecided(f'dtype gate: call {u(e)}')
            ps = callee_fi.params()
            if e.keywords or len(e.args) != len(ps):
                raise Undecided(f'dtype gate: call {u(e)}')
            sub = _DtMini({p_: self.ev(a) for p_, a in zip(ps, e.args)}, self.module)
            sub.depth = self.depth + 1
            body = [st for st in callee_fi.node.body if not (isinstance(st, ast.Expr) and isinstance(st.value, ast.Constant))]
            try:
                sub.run(body)
            except Return as r:
                return r.value
            return None
        if isinstance(e.func, ast.Attribute):
            base = self.ev(e.func.value)
            if isinstance(base, (tuple, list)) and e.func.attr == 'index' and len(e.args) == 1:
                k = self.ev(e.args[0])
                for i_, x in enumerate(base):
                    if x == k:
                        return i_
                raise _Raised('ValueError')
            if isinstance(base, _ARR) and e.func.attr in ('view', 'astype') and e.args:
                return _ARR(_DT.of(self.ev(e.args[0])), e.func.attr if base.how == 'same' else f'{base.how}+{e.func.attr}')
            if isinstance(base, dict) and e.func.attr == 'get':
                k = self.ev(e.args[0])
                return base.get(k, self.ev(e.args[1]) if len(e.args) > 1 else None)
            if isinstance(base, dict) and e.func.attr in ('keys', 'values', 'items'):
                return tuple(getattr(base, e.func.attr)())
        if f in ('ValueError', 'TypeError', 'KeyError', 'RuntimeError', 'NotImplementedError'):
            return Opaque(f)
        raise Undecided(f'dtype gate: call {u(e)}')

    depth = 0

    def stmt(self, s):
        if isinstance(s, ast.Raise):
            raise _Raised(raised_name(s) or 'exception')
        if isinstance(s, ast.For) and not s.orelse or isinstance(s, ast.For):
            items = self.ev(s.iter)
            if not isinstance(items, (tuple, list, dict)):
                raise Undecided(f'dtype gate: loop over {u(s.iter)}')
            broke = False
            for it in list(items):
                if isinstance(s.target, ast.Name):
                    self.env[s.target.id] = it
                elif isinstance(s.target, ast.Tuple) and all(isinstance(t, ast.Name) for t in s.target.elts) and isinstance(it, (tuple, list)) and len(it) == len(s.target.elts):
                    for t, v in zip(s.target.elts, it):
                        self.env[t.id] = v
                else:
                    raise Undecided(f'dtype gate: loop target {u(s.target)}')
                try:
                    self.run(s.body)
                except _LoopCtl as c:
                    if c.kind == 'break':
                        broke = True
                        break
            if not broke:
                self.run(s.orelse)
            return
        if isinstance(s, ast.Break):
            raise _LoopCtl('break')
        if isinstance(s, ast.Continue):
            raise _LoopCtl('continue')
        if isinstance(s, ast.Try):
            try:
                self.run(s.body)
            except _Raised as r:
                for h in s.handlers:
                    names = [u(t) for t in (h.type.elts if isinstance(h.type, ast.Tuple) else [h.type])] if h.type is not None else None
                    if names is None or r.name in names or 'Exception' in names:
                        self.run(h.body)
                        return
                raise
            self.run(s.orelse)
            return
        return super().stmt(s)


def check_dtype_gate(ctx):
    """The gate every coordinate operand passes on its way to the kernel, decided as a table over the complete finite domain of
    numpy integer/float/bool dtypes: unsigned 16/32/64 pass unchanged, signed 16/32/64 are reinterpreted as the unsigned type of
    the SAME width on the same array, everything else is rejected."""
    rep, m = ctx.rep, ctx.model
    met = m.module('gambit.metric')
    fi = m.func('gambit.metric._cast_sigs_array')
    rep.functions.add(fi.qualname)
    p = fi.params()[0]
    body = [s for s in fi.node.body if not (isinstance(s, ast.Expr) and isinstance(s.value, ast.Constant))]
    types = m.module(TYPES)
    fused = types.side.get('typedefs', {}).get('COORDS_T')
    widths = sorted(int(x.replace('uint', '').replace('_t', '')) // 8 for x in fused[1]) if isinstance(fused, tuple) else None
    rep.require(widths, 'COORDS_T fused type not found in types.pxd')
    table = {}
    for code in ('u1', 'u2', 'u4', 'u8', 'i1', 'i2', 'i4', 'i8', 'f4', 'f8', 'b1'):
        mini = _DtMini({p: _ARR(_DT(code))}, fi.module)      # the module the gate is DEFINED in (it may have been moved)
        try:
            mini.run(body)
            res = ('falls off the end',)
        except Return as r:
            v = r.value
            res = (v.how, v.dt.code) if isinstance(v, _ARR) else ('returns', repr(v))
        except _Raised as r:
            res = ('raise', r.name)
        table[code] = res
    exp = {}
    for code in table:
        w = int(code[1])
        if code[0] == 'u' and w in widths:
            exp[code] = [('same', code)]
        elif code[0] == 'i' and w in widths:
            exp[code] = [('view', f'u{w}'), ('astype', f'u{w}')]
        else:
            exp[code] = [('raise', 'ValueError')]
    site = fi.site()
    bad_u = {c: table[c] for c in table if c[0] == 'u' and table[c] not in exp[c]}
    bad_i = {c: table[c] for c in table if c[0] == 'i' and table[c] not in exp[c]}
    bad_o = {c: table[c] for c in table if c[0] not in 'ui' and table[c] not in exp[c]}
    rep.add('M8', site, 'pass-through dtypes are exactly the unsigned types the kernel is compiled for (narrower unsigned types are rejected)', not bad_u,
            expected={c: exp[c][0] for c in exp if c[0] == 'u'}, found=bad_u or {c: table[c] for c in table if c[0] == 'u'}, stmt='unsigned dtypes')
    rep.add('M8', site, 'signed input is reinterpreted as the unsigned dtype of the SAME item size, on the same array (narrower signed types are rejected)', not bad_i,
            expected={c: exp[c][0] for c in exp if c[0] == 'i'}, found=bad_i or {c: table[c] for c in table if c[0] == 'i'}, stmt='signed dtypes')
    rep.add('M8', site, 'every other dtype is rejected with ValueError', not bad_o, expected='raise ValueError', found=bad_o or {c: table[c] for c in table if c[0] not in 'ui'}, stmt='reject')
    rep.info['dtype_gate_table'] = {c: list(v) for c, v in table.items()}

    # callers: every coordinate operand of a kernel call went through the gate - in every function of the modules involved
    GATE = 'gambit.metric._cast_sigs_array'
    KERNELS = (f'{PYX}.jaccard', f'{PYX}.jaccarddist', f'{PYX}._jaccarddist_parallel')

    def elementwise_gate(f2, e):
        """gate applied to every element of a sequence, in order: map(gate, X) / [gate(x) for x in X] / (gate(x) for x in X)"""
        if isinstance(e, ast.Call) and u(e.func) in ('list', 'tuple', 'iter') and len(e.args) == 1 and not e.keywords:
            return elementwise_gate(f2, e.args[0])
        if isinstance(e, ast.Call) and u(e.func) == 'map' and len(e.args) == 2 and not e.keywords and m.resolve(f2.module, e.args[0]) == GATE:
            return e.args[1]
        if isinstance(e, (ast.ListComp, ast.GeneratorExp)) and len(e.generators) == 1 and not e.generators[0].ifs and isinstance(e.generators[0].target, ast.Name) \
                and isinstance(e.elt, ast.Call) and m.resolve_call(f2, e.elt) == GATE and len(e.elt.args) == 1 and u(e.elt.args[0]) == e.generators[0].target.id:
            return e.generators[0].iter
        return None

    def positional(f2, call):
        """The positional operands of a call with `*` spread resolved: K(*(a, b)), K(*helper(a, b)) with helper(*xs) = [gate(x) for x in xs]."""
        out = []
        for a in call.args:
            if not isinstance(a, ast.Starred):
                out.append(a)
                continue
            v = a.value
            if isinstance(v, (ast.Tuple, ast.List)):
                out.extend(v.elts)
                continue
            if isinstance(v, ast.Call) and not v.keywords and not any(isinstance(x, ast.Starred) for x in v.args):
                hf = m.functions.get(m.resolve_call(f2, v) or '')
                if hf is not None and hf.node.args.vararg is not None and not hf.node.args.args and not hf.node.args.kwonlyargs:
                    body = [st for st in hf.node.body if not (isinstance(st, ast.Expr) and isinstance(st.value, ast.Constant))]
                    if len(body) == 1 and isinstance(body[0], ast.Return) and body[0].value is not None:
                        src = elementwise_gate(hf, body[0].value)
                        if src is not None and u(src) == hf.node.args.vararg.arg:
                            out.extend(ast.Call(func=ast.Name(id='__gate__', ctx=ast.Load()), args=[x], keywords=[]) for x in v.args)
                            continue
            return None
        return out

    def operand(f2, e, at, depth=0):
        """('gated', root) | ('raw', root) | ('other', text): where the value of e at statement `at` comes from."""
        if isinstance(e, ast.Call) and (u(e.func) == '__gate__' or m.resolve_call(f2, e) == GATE) and len(e.args) == 1 and not e.keywords:
            k, w = operand(f2, e.args[0], at, depth + 1)
            return ('gated', w) if k == 'raw' else ('converted', w) if k == 'converted' else ('other', u(e))
        if isinstance(e, ast.Name) and depth < 6:
            d = reaching_def(f2.node, e.id, at)
            if d is PARAM:
                return ('raw', e.id)
            if isinstance(d, (ast.For, ast.comprehension)):
                # loop variable: element of enumerate(S)[1] / S ; S = map(gate, X) makes it a gated element of X
                tgt, it = d.target, d.iter
                if isinstance(it, ast.Call) and u(it.func) == 'enumerate' and it.args and isinstance(tgt, ast.Tuple) and len(tgt.elts) == 2 and u(tgt.elts[1]) == e.id:
                    it, tgt = it.args[0], tgt.elts[1]
                if isinstance(tgt, ast.Name) and tgt.id == e.id:
                    src = elementwise_gate(f2, it)
                    if src is not None:
                        return ('gated', f'{u(src)}[*]')
                    return ('raw', f'{u(it)}[*]')
                return ('other', u(d.iter))
            if d not in (None, AMBIGUOUS):
                v = def_value(d)
                if v is not None:
                    return operand(f2, v, d, depth + 1)
        if isinstance(e, ast.Attribute):
            conv = rebuilt_before(f2, e, at)
            if conv is not None:
                return ('converted', conv)
            return ('raw', u(e))
        return ('other', u(e))

    def first_element_dtype(cls_q):
        """Does the constructor of class cls_q store its elements in ONE array whose dtype, when none is given, is taken from the
        first element (`dtype = <param>[0].dtype ...`)?  Read from the constructor itself; None = the rule cannot tell."""
        init = m.classes[cls_q].methods.get('__init__') if cls_q in m.classes else None
        if init is None:
            return None
        ps = init.params()
        if 'dtype' not in ps or len(ps) < 2:
            return None
        seq = ps[1]
        from_first = any(isinstance(n, ast.Attribute) and n.attr == 'dtype' and isinstance(n.value, ast.Subscript) and u(n.value.value) == seq
                         and isinstance(n.value.slice, ast.Constant) and n.value.slice.value == 0 for n in ast.walk(init.node))
        keeps = any(isinstance(n, ast.Call) and u(n.func) == 'list' and len(n.args) == 1 and u(n.args[0]) == seq for n in ast.walk(init.node))
        if from_first and not keeps:
            return True
        if keeps:
            return False        # the elements are kept as the arrays they are (each one is gated where it is used)
        return None

    def rebuilt_before(f2, e, at):
        """An attribute operand X.a where X was (on some path) re-bound in this function to a collection BUILT from the caller's
        sequences: the data then reach the gate only after that construction.  Returns a description when the construction
        stores every element in the dtype of the first one (values of wider later elements are truncated before the gate sees
        them), None when X is the caller's object; any other re-binding is outside what the rule can decide."""
        base = e.value
        if not isinstance(base, ast.Name):
            return None
        a_line = getattr(at, 'lineno', None)
        for n in walk_no_nested(f2.node):
            if isinstance(n, (ast.Assign, ast.AnnAssign)) and def_value(n) is not None and binds(n, base.id) \
                    and (a_line is None or n.lineno < a_line or _in_loop_with(f2.node, n, at)):
                v = def_value(n)
                if isinstance(v, ast.Name):
                    continue
                if isinstance(v, ast.Call):
                    cq = m.resolve_call(f2, v)
                    if cq in m.classes:
                        fe = first_element_dtype(cq)
                        has_dtype = get_arg(v, 2, 'dtype') is not None
                        if fe is True and not has_dtype:
                            return f'{u(e)} with {base.id} = {u(v)[:60]}: {cq.rsplit(".", 1)[1]}(seq) stores every element in the dtype of seq[0]'
                        if fe is False:
                            continue
                rep.require(False, f'{f2.qualname}: kernel operand {u(e)} after {base.id} is re-bound to {u(v)[:60]}')
        return None

    def _in_loop_with(func, n, at):
        for loop in ast.walk(func):
            if isinstance(loop, (ast.For, ast.While)):
                inside = list(ast.walk(loop))
                if any(x is n for x in inside) and any(x is at for x in inside):
                    return True
        return False

    ncalls = 0
    from ..inline import known_symbols
    known = known_symbols()
    scan = {f.qualname: f for f in m.all_functions() if f.module.name in ('gambit.metric', fi.module.name)}

    def call_sites_of(q):
        out = []
        for f3 in m.all_functions():
            for c3 in calls_in(f3.node):
                if m.resolve_call(f3, c3) == q:
                    out.append((f3, c3))
        return out

    def gated_at_callers(f2, pname, depth=0):
        """A raw parameter of an extracted helper is fine when every caller hands it a gated value (one level of callers; dispatch
        through functools.singledispatch registrations is followed to the generic function's call sites)."""
        q = f2.qualname
        sites = call_sites_of(q)
        if not sites:
            # registered implementation of a generic function: @generic.register -> call sites of the generic function
            for d in f2.node.decorator_list:
                base = d.func if isinstance(d, ast.Call) else d
                if isinstance(base, ast.Attribute) and base.attr == 'register':
                    g = m.resolve(f2.module, base.value)
                    if g:
                        sites = call_sites_of(g)
        if not sites:
            return None
        idx = f2.params().index(pname)
        res = []
        for f3, c3 in sites:
            pa = positional(f3, c3)
            if pa is None or idx >= len(pa):
                return None
            st3 = next((s_ for s_ in stmts_in(f3.node.body) if any(x is c3 for x in ast.walk(s_)) and not isinstance(s_, (ast.If, ast.For, ast.While, ast.With))), None)
            res.append(operand(f3, pa[idx], st3)[0] == 'gated')
        return all(res)

    for q, f2 in sorted(scan.items()):
        if q not in known and m.moved.get(q, q) not in known and not call_sites_of(q) and not any(
                isinstance((d.func if isinstance(d, ast.Call) else d), ast.Attribute) and (d.func if isinstance(d, ast.Call) else d).attr == 'register' for d in f2.node.decorator_list):
            continue        # an extracted helper whose every call was expanded in place (N8): its body is analysed where it was called
        for call in calls_in(f2.node):
            tgt = m.resolve_call(f2, call)
            if tgt not in KERNELS:
                continue
            ncalls += 1
            rep.call_sites += 1
            rep.functions.add(f2.qualname)
            st = None
            for s in stmts_in(f2.node.body):
                if any(x is call for x in ast.walk(s)) and not isinstance(s, (ast.If, ast.For, ast.While, ast.With)):
                    st = s
            args = positional(f2, call)
            rep.require(args is not None, f'{f2.qualname}: kernel call with a * spread the rule cannot resolve: {u(call)[:80]}')
            for k, a in enumerate(args[:2] if tgt != KERNELS[2] else args[:2]):
                kind, root = operand(f2, a, st)
                if kind == 'raw' and root in f2.params() and q not in known:
                    ok_c = gated_at_callers(f2, root)
                    rep.require(ok_c is not None, f'{q}: kernel operand {root} is a parameter of an extracted helper whose callers the rule cannot follow')
                    if ok_c:
                        kind, root = 'gated', f'{root} (gated at every caller)'
                rep.add('M8', f2.site(call), f'operand {k + 1} of the kernel call passes through the dtype gate', kind == 'gated',
                        expected='_cast_sigs_array(...)', found=f'{kind}: {root}', stmt=f'{f2.name}: {tgt.rsplit(".", 1)[1]} arg{k + 1}')
    rep.floor('M8', 'kernel call sites', ncalls, 3)
    # the thin Python wrappers, by value flow: every returned value is the kernel value of (gate(p1), gate(p2)) - for the index
    # also 1 - <such a distance> (the Cython jaccard is itself 1 - c_jaccarddist, rule M7 above) - on an unconditional path

    def distance_form(f2, e, at, ps, depth=0):
        """True when e is the kernel distance of the function's own two parameters, in order."""
        if isinstance(e, ast.Name) and depth < 6:
            d = reaching_def(f2.node, e.id, at)
            if d not in (None, PARAM, AMBIGUOUS) and def_value(d) is not None:
                return distance_form(f2, def_value(d), d, ps, depth + 1)
            return False
        if not isinstance(e, ast.Call):
            return False
        tgt = m.resolve_call(f2, e)
        pa = positional(f2, e)
        if tgt == f'{PYX}.jaccarddist' and pa is not None and len(pa) == 2 and not e.keywords:
            return [operand(f2, a, at) for a in pa] == [('gated', ps[0]), ('gated', ps[1])]
        if tgt == 'gambit.metric.jaccarddist' and f2.qualname != 'gambit.metric.jaccarddist' and pa is not None and len(pa) == 2 and not e.keywords:
            return [operand(f2, a, at) for a in pa] == [('raw', ps[0]), ('raw', ps[1])]
        return False

    def index_form(f2, e, at, ps, depth=0):
        if isinstance(e, ast.Name) and depth < 6:
            d = reaching_def(f2.node, e.id, at)
            if d not in (None, PARAM, AMBIGUOUS) and def_value(d) is not None:
                return index_form(f2, def_value(d), d, ps, depth + 1)
            return False
        if isinstance(e, ast.BinOp) and isinstance(e.op, ast.Sub) and isinstance(e.left, ast.Constant) and e.left.value in (1, 1.0) and not isinstance(e.left.value, bool):
            return distance_form(f2, e.right, at, ps)
        if isinstance(e, ast.Call) and m.resolve_call(f2, e) == f'{PYX}.jaccard' and not e.keywords:
            pa = positional(f2, e)
            return pa is not None and len(pa) == 2 and [operand(f2, a, at) for a in pa] == [('gated', ps[0]), ('gated', ps[1])]
        return False

    for fname, form in (('jaccard', index_form), ('jaccarddist', distance_form)):
        f2 = m.func(f'gambit.metric.{fname}')
        ps = f2.params()
        rep.require(len(ps) == 2, f'metric.{fname}: expected two parameters')
        all_rets = [s for s in stmts_in(f2.node.body) if isinstance(s, ast.Return)]
        rep.require(all_rets, f'metric.{fname}: no return')
        gm2 = guard_map(f2.node)
        bad = [r for r in all_rets if r.value is None or not form(f2, r.value, r, ps)]
        rep.add('M7', f2.site(bad[0] if bad else all_rets[0]), f'metric.{fname} returns the kernel value of its own two operands, each through the dtype gate, in order (for the index: the Cython jaccard or 1 - that distance)',
                not bad, expected=f'{PYX}.{fname}(gate({ps[0]}), gate({ps[1]}))' + (' | 1 - distance' if fname == 'jaccard' else ''), found=[u(r.value) for r in bad] or [u(r.value) for r in all_rets], stmt=f'{fname} value')
        cond = [(u(r.value), sorted(path_atoms(gm2[r]))) for r in all_rets if path_atoms(gm2[r])]
        rep.add('M7', f2.site(all_rets[0]), f'metric.{fname}: every result comes from the kernel (no shortcut / special-case return)', len(all_rets) == 1 and not cond,
                expected='single unconditional return of the kernel value', found=cond or [u(r.value) for r in all_rets], stmt=f'{fname} returns')


def check(ctx):
    rep = ctx.rep
    rep.rule('M1', 'merge loop evaluated under a<b, a==b, a>b (data touched only by comparisons): increments (1,0,1),(1,1,1),(0,1,1); loads at the cursors; loop condition {i<N, j<M}')
    rep.rule('M2', 'tail: u gains (N-i)+(M-j)')
    rep.rule('M3', 'u == 0 returns 0 and dominates the division')
    rep.rule('M4', 'single rounding: <SCORE_T>(2u-N-M) / u, SCORE_T = float, SCORE_DTYPE = float32')
    rep.rule('M5', 'initial values and pointer-width counters')
    rep.rule('M6', 'fused types: two independent {uint16,uint32,uint64}; scalars typed like their arrays; .pxd agrees')
    rep.rule('M7', 'wrappers: distance = kernel, index = 1 - kernel, operands in order')
    rep.rule('M8', 'dtype gate: unsigned pass-through, signed viewed as same-width unsigned, rest ValueError; all kernel operands gated')
    rep.trusted += ['C usual arithmetic conversions are value-preserving between unsigned operands of different width',
                    'IEEE-754 binary32 division of two exactly represented integers is correctly rounded']
    rep.assumptions += ['Sets smaller than 2^24 elements (the statement excludes bit-exactness beyond).',
                        'The step from the discharged premises to "ratio correctly rounded" is a hand argument (DESIGN.md 5/C02).']
    facts = kernel_facts(ctx)
    check_types(ctx, facts)
    check_wrappers(ctx)
    check_dtype_gate(ctx)
    rep.floor('M1', 'obligations', len(rep.obs), 40)
    # "the reported distance": the bulk entry points report distances too - every cell they hand back is the kernel value of its
    # pair, written into the buffer that is returned (C05 clause B1 re-evaluated under this property; the layout clauses stay C05's)
    from . import c05
    rep.rule('B1', 'C05-B1 re-evaluated: every cell of a bulk result is a kernel value / copy / zero, stored in the returned buffer itself')
    c05.check_stores(ctx)


from ..variants import V  # noqa: E402

_M = 'src/gambit/_cython/metric.pyx'
_P = 'src/gambit/metric.py'
_T = 'src/gambit/_cython/types.pxd'
VARIANTS = [
    V('E: casts inlined into the kernel call', 'E', _P, "\tcoords1 = _cast_sigs_array(coords1)\n\tcoords2 = _cast_sigs_array(coords2)\n\treturn _cmetric.jaccarddist(coords1, coords2)\n", "\treturn _cmetric.jaccarddist(_cast_sigs_array(coords1), _cast_sigs_array(coords2))\n"),
    V('twin: inlined casts, second operand is the first', 'B', _P, "\tcoords1 = _cast_sigs_array(coords1)\n\tcoords2 = _cast_sigs_array(coords2)\n\treturn _cmetric.jaccarddist(coords1, coords2)\n", "\treturn _cmetric.jaccarddist(_cast_sigs_array(coords1), _cast_sigs_array(coords1))\n", 'M7'),
    V('twin: inlined casts, one operand not gated', 'B', _P, "\tcoords1 = _cast_sigs_array(coords1)\n\tcoords2 = _cast_sigs_array(coords2)\n\treturn _cmetric.jaccarddist(coords1, coords2)\n", "\treturn _cmetric.jaccarddist(_cast_sigs_array(coords1), coords2)\n", 'M7'),
    V('E: index as one minus the Python distance', 'E', _P, "\tcoords1 = _cast_sigs_array(coords1)\n\tcoords2 = _cast_sigs_array(coords2)\n\treturn _cmetric.jaccard(coords1, coords2)\n", "\treturn 1 - jaccarddist(coords1, coords2)\n"),
    V('twin: index as the distance itself', 'B', _P, "\tcoords1 = _cast_sigs_array(coords1)\n\tcoords2 = _cast_sigs_array(coords2)\n\treturn _cmetric.jaccard(coords1, coords2)\n", "\treturn jaccarddist(coords1, coords2)\n", 'M7'),
    V('twin: index as two minus the distance', 'B', _P, "\tcoords1 = _cast_sigs_array(coords1)\n\tcoords2 = _cast_sigs_array(coords2)\n\treturn _cmetric.jaccard(coords1, coords2)\n", "\treturn 2 - jaccarddist(coords1, coords2)\n", 'M7'),
    V('E: gate as a loop over (signed, unsigned) pairs', 'E', _P, "\tif dt in _COORDS_UNSIGNED_DTYPES:\n\t\treturn arr\n\tif dt in _COORDS_SIGNED_DTYPES:\n\t\tnew_dt = np.dtype(f'u{dt.itemsize}')\n\t\treturn arr.view(new_dt)\n",
      "\tfor sdt, udt in zip(_COORDS_SIGNED_DTYPES, _COORDS_UNSIGNED_DTYPES):\n\t\tif dt == udt:\n\t\t\treturn arr\n\t\tif dt == sdt:\n\t\t\treturn arr.view(udt)\n"),
    V('twin: pair loop over wrongly paired dtypes', 'B', _P, "\tif dt in _COORDS_UNSIGNED_DTYPES:\n\t\treturn arr\n\tif dt in _COORDS_SIGNED_DTYPES:\n\t\tnew_dt = np.dtype(f'u{dt.itemsize}')\n\t\treturn arr.view(new_dt)\n",
      "\tfor sdt, udt in zip(_COORDS_SIGNED_DTYPES, [np.dtype('u4'), np.dtype('u8'), np.dtype('u2')]):\n\t\tif dt == udt:\n\t\t\treturn arr\n\t\tif dt == sdt:\n\t\t\treturn arr.view(udt)\n", 'M8'),
    V('signed dtypes mapped through a table with a wrong row (seeded C02c)', 'B', _P, "_COORDS_SIGNED_DTYPES = [np.dtype(f'i{s}') for s in [2, 4, 8]]\n",
      "_COORDS_SIGNED_DTYPES = {np.dtype('i2'): np.dtype('u2'), np.dtype('i4'): np.dtype('u4'), np.dtype('i8'): np.dtype('u4')}\n", 'M8',
      also=((_P, "\t\tnew_dt = np.dtype(f'u{dt.itemsize}')\n\t\treturn arr.view(new_dt)\n", "\t\treturn arr.view(_COORDS_SIGNED_DTYPES[dt])\n"),)),
    V('E: signed dtypes mapped through a correct table', 'E', _P, "_COORDS_SIGNED_DTYPES = [np.dtype(f'i{s}') for s in [2, 4, 8]]\n",
      "_COORDS_SIGNED_DTYPES = {np.dtype('i2'): np.dtype('u2'), np.dtype('i4'): np.dtype('u4'), np.dtype('i8'): np.dtype('u8')}\n",
      also=((_P, "\t\tnew_dt = np.dtype(f'u{dt.itemsize}')\n\t\treturn arr.view(new_dt)\n", "\t\treturn arr.view(_COORDS_SIGNED_DTYPES[dt])\n"),)),
    V('E: gate written with dtype.kind and an else-raise', 'E', _P, "\tif dt in _COORDS_UNSIGNED_DTYPES:\n\t\treturn arr\n\tif dt in _COORDS_SIGNED_DTYPES:\n\t\tnew_dt = np.dtype(f'u{dt.itemsize}')\n\t\treturn arr.view(new_dt)\n\traise ValueError(",
      "\tif dt.itemsize in (2, 4, 8) and dt.kind == 'u':\n\t\treturn arr\n\telif dt.itemsize in (2, 4, 8) and dt.kind == 'i':\n\t\treturn arr.view(np.dtype(f'u{dt.itemsize}'))\n\traise ValueError("),
    V('gate lets uint8 through', 'B', _P, "_COORDS_UNSIGNED_DTYPES = [np.dtype(f'u{s}') for s in [2, 4, 8]]", "_COORDS_UNSIGNED_DTYPES = [np.dtype(f'u{s}') for s in [1, 2, 4, 8]]", 'M8'),
    V('second if -> elif (equal elements double counted)', 'B', _M, "\t\tif b <= a:\n\t\t\tj += 1", "\t\telif b <= a:\n\t\t\tj += 1", 'M1'),
    V('a <= b -> a < b', 'B', _M, "\t\tif a <= b:\n\t\t\ti += 1", "\t\tif a < b:\n\t\t\ti += 1", 'M1'),
    V('tail term dropped', 'B', _M, "\tu += N - i\n\tu += M - j\n", "\tu += N - i\n", 'M2'),
    V('cast moved to the quotient', 'B', _M, "return <SCORE_T>(2 * u - N - M) / u", "return <SCORE_T>((2 * u - N - M) / u)", 'M4'),
    V('integer division', 'B', _M, "return <SCORE_T>(2 * u - N - M) / u", "return <SCORE_T>(2 * u - N - M) // u", 'M4'),
    V('zero guard removed', 'B', _M, "\tif u == 0:\n\t\treturn 0\n", "", 'M3'),
    V('b declared COORDS_T (truncating load)', 'B', _M, "\t\tCOORDS_T_2 b\n", "\t\tCOORDS_T b\n", 'M6'),
    V('signed member added to COORDS_T_2', 'B', _T, "ctypedef fused COORDS_T_2:\n\tuint16_t\n", "ctypedef fused COORDS_T_2:\n\tint32_t\n\tuint16_t\n", 'M6'),
    V('signed view forced to u8', 'B', _P, "new_dt = np.dtype(f'u{dt.itemsize}')", "new_dt = np.dtype('u8')", 'M8'),
    V('numerator sign error', 'B', _M, "return <SCORE_T>(2 * u - N - M) / u", "return <SCORE_T>(2 * u - N + M) / u", 'M4'),
    V('jaccard index = kernel (forgot 1 -)', 'B', _M, "return 1 - c_jaccarddist(coords1, coords2)", "return c_jaccarddist(coords1, coords2)", 'M7'),
    V('u incremented only on a<=b', 'B', _M, "\t\tu += 1\n\n\t\tif a <= b:\n\t\t\ti += 1\n", "\t\tif a <= b:\n\t\t\ti += 1\n\t\t\tu += 1\n", 'M1'),
    V('E: increment then undo', 'E', _M, "\t\ta = coords1[i]\n\t\tb = coords2[j]\n\n\t\tu += 1\n\n\t\tif a <= b:\n\t\t\ti += 1\n\n\t\tif b <= a:\n\t\t\tj += 1\n",
      "\t\ta = coords1[i]\n\n\t\tu += 1\n\t\ti += 1\n\t\tb = coords2[j]\n\t\tif a > b:\n\t\t\ti -= 1\n\n\t\tif b <= a:\n\t\t\tj += 1\n"),
    V('first scalar loaded at the other cursor', 'B', _M, "a = coords1[i]", "a = coords1[j]", None),
    V('second scalar loaded one ahead', 'B', _M, "b = coords2[j]", "b = coords2[j + 1]", 'M1'),
    V('query not gated in jaccarddist_array', 'B', _P, "\tquery = _cast_sigs_array(query)\n\n\tif out is None:", "\tif out is None:", 'M8'),
    V('SCORE_T double', 'B', _T, "ctypedef float SCORE_T", "ctypedef double SCORE_T", 'M4'),
    V('loop stops one early on second array', 'B', _M, "while i < N and j < M:", "while i < N and j < M - 1:", 'M1'),
    V('disjoint-range shortcut with <= (seeded C02a)', 'B', _P, "\tcoords1 = _cast_sigs_array(coords1)\n\tcoords2 = _cast_sigs_array(coords2)\n\treturn _cmetric.jaccarddist(coords1, coords2)",
      "\tcoords1 = _cast_sigs_array(coords1)\n\tcoords2 = _cast_sigs_array(coords2)\n\tif len(coords1) and len(coords2) and coords1[-1] <= coords2[0]:\n\t\treturn 1.\n\treturn _cmetric.jaccarddist(coords1, coords2)", 'M7'),
    V('E: merge as < / > / else', 'E', _M, "\t\tif a <= b:\n\t\t\ti += 1\n\n\t\tif b <= a:\n\t\t\tj += 1\n",
      "\t\tif a < b:\n\t\t\ti += 1\n\t\telif a > b:\n\t\t\tj += 1\n\t\telse:\n\t\t\ti += 1\n\t\t\tj += 1\n"),
    V('E: tail in one statement', 'E', _M, "\tu += N - i\n\tu += M - j\n", "\tu += (N - i) + (M - j)\n"),
    V('E: 2*u - (N + M)', 'E', _M, "return <SCORE_T>(2 * u - N - M) / u", "return <SCORE_T>(2 * u - (N + M)) / u"),
    V('E: both operands cast', 'E', _M, "return <SCORE_T>(2 * u - N - M) / u", "return <SCORE_T>(2 * u - N - M) / <SCORE_T>u"),
    V('E: loop condition commuted', 'E', _M, "while i < N and j < M:", "while M > j and i < N:"),
    V('E: u incremented at end of body', 'E', _M, "\t\tu += 1\n\n\t\tif a <= b:\n\t\t\ti += 1\n\n\t\tif b <= a:\n\t\t\tj += 1\n",
      "\t\tif a <= b:\n\t\t\ti += 1\n\n\t\tif b <= a:\n\t\t\tj += 1\n\n\t\tu += 1\n"),
    V('E: literal dtype list', 'E', _P, "_COORDS_UNSIGNED_DTYPES = [np.dtype(f'u{s}') for s in [2, 4, 8]]",
      "_COORDS_UNSIGNED_DTYPES = [np.dtype('u2'), np.dtype('u4'), np.dtype('u8')]"),
    V('every input collected into a SignatureArray of the first dtype (seeded C02d)', 'B', _P, '\tif isinstance(refs, SignatureArray):\n\t\tvalues = _cast_sigs_array(refs.values)\n\t\tbounds = refs.bounds.astype(BOUNDS_DTYPE, copy=False)\n\n\t\t_cmetric._jaccarddist_parallel(query, values, bounds, out)\n\n\telse:\n\t\tfor i, ref in enumerate(refs):\n\t\t\tref = _cast_sigs_array(ref)\n\t\t\tout[i] = _cmetric.jaccarddist(query, ref)\n',
      '\tif not isinstance(refs, SignatureArray):\n\t\trefs = SignatureArray(refs)\n\tvalues = _cast_sigs_array(refs.values)\n\tbounds = refs.bounds.astype(BOUNDS_DTYPE, copy=False)\n\t_cmetric._jaccarddist_parallel(query, values, bounds, out)\n', 'M8'),
    V('E: reference collection through an alias', 'E', _P, '\tif isinstance(refs, SignatureArray):\n\t\tvalues = _cast_sigs_array(refs.values)\n\t\tbounds = refs.bounds.astype(BOUNDS_DTYPE, copy=False)\n\n\t\t_cmetric._jaccarddist_parallel(query, values, bounds, out)\n\n\telse:\n\t\tfor i, ref in enumerate(refs):\n\t\t\tref = _cast_sigs_array(ref)\n\t\t\tout[i] = _cmetric.jaccarddist(query, ref)\n',
      '\tarr = refs\n\tif isinstance(arr, SignatureArray):\n\t\tvalues = _cast_sigs_array(arr.values)\n\t\tbounds = arr.bounds.astype(BOUNDS_DTYPE, copy=False)\n\n\t\t_cmetric._jaccarddist_parallel(query, values, bounds, out)\n\n\telse:\n\t\tfor i, ref in enumerate(arr):\n\t\t\tref = _cast_sigs_array(ref)\n\t\t\tout[i] = _cmetric.jaccarddist(query, ref)\n'),
]
