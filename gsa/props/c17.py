"""C17 - the tree command outputs the UPGMA dendrogram of the pairwise distances.

U1 hclust = linkage(squareform(dmat), method='average')
U2 linkage_to_bio_tree: nleaves; row unpack (left, right, height, size); for BOTH children (sibling agreement)
   branch_length = height - h_child, h_child = 0 under child < nleaves else link[child - nleaves, 2]; clade [left, right] appended
   per row; root = last clade; leaves over labels in order with the count asserted
U3 labels and signatures come from one source   U4 matrix = non-flat pairwise of those signatures, unchanged into hclust; Newick to stdout
"""
import ast
import copy

from .. import align
from ..affine import Aff, sym, path_of
from ..astutil import (u, atoms, guard_map, path_atoms, stmts_in, calls_in, callee, callee_attr, reaching_def, def_value,
                       PARAM, AMBIGUOUS, get_arg, get_kw, is_none, is_const, block_path, stmt_of, assigns_to)
from ..report import Undecided

CL = 'gambit.cluster'


class PyList:
    """A list the row body builds element by element (symbolic elements)."""

    def __init__(self, elts):
        self.elts = list(elts)
        self.captured = False


class RowExec:
    """Symbolic execution of a straight-line block: every local is replaced by its definition (so the rules see closed expressions
    over the loop targets and the outer names), `for x in (a, b)` over a literal is unrolled, a two-armed `if` that only chooses values
    becomes a conditional expression.  Records attribute stores (object, attribute, value, stmt) and appends to outer lists
    (list name, value, stmt).  Anything else is outside the vocabulary (Undecided, naming the statement)."""

    def __init__(self, where):
        self.where = where
        self.env = {}
        self.stores = []
        self.appends = []

    def subst(self, e):
        ex = self

        class S(ast.NodeTransformer):
            def visit_Name(self, n):
                if isinstance(n.ctx, ast.Load) and n.id in ex.env:
                    v = ex.env[n.id]
                    if isinstance(v, PyList):
                        v.captured = True
                        return ast.List(elts=[copy.deepcopy(x) for x in v.elts], ctx=ast.Load())
                    return copy.deepcopy(v)
                return n

            def visit_ListComp(self, n):
                # a comprehension over a literal sequence is the list of its instances
                if len(n.generators) == 1 and not n.generators[0].ifs and isinstance(n.generators[0].target, ast.Name):
                    g = n.generators[0]
                    it = ex.subst(g.iter)
                    if isinstance(it, (ast.Tuple, ast.List)) and not any(isinstance(x, ast.Starred) for x in it.elts):
                        out = []
                        saved = ex.env.get(g.target.id, None)
                        for x in it.elts:
                            ex.env[g.target.id] = x
                            out.append(ex.subst(n.elt))
                        if saved is None:
                            ex.env.pop(g.target.id, None)
                        else:
                            ex.env[g.target.id] = saved
                        return ast.List(elts=out, ctx=ast.Load())
                bound = {x.id for g in n.generators for x in ast.walk(g.target) if isinstance(x, ast.Name)}
                if bound & set(ex.env):
                    raise Undecided(f'{ex.where}: comprehension rebinding a row local: {u(n)[:60]}')
                return self.generic_visit(n)
        return S().visit(copy.deepcopy(e))

    def bind(self, target, value, stmt):
        if isinstance(target, ast.Name):
            if isinstance(value, ast.List) and isinstance(value.ctx, ast.Load) and not any(isinstance(x, ast.Starred) for x in value.elts):
                self.env[target.id] = PyList(value.elts)
            else:
                self.env[target.id] = value
        elif isinstance(target, (ast.Tuple, ast.List)) and isinstance(value, (ast.Tuple, ast.List)) and len(target.elts) == len(value.elts) \
                and not any(isinstance(x, ast.Starred) for x in list(target.elts) + list(value.elts)):
            for t, v in zip(target.elts, value.elts):
                self.bind(t, v, stmt)
        elif isinstance(target, ast.Attribute):
            self.stores.append((self.subst(target.value), target.attr, value, stmt))
        else:
            raise Undecided(f'{self.where}: assignment target outside the vocabulary in the row body: {u(stmt)[:70]}')

    def block(self, stmts):
        for s in stmts:
            self.stmt(s)

    def stmt(self, s):
        if isinstance(s, ast.Assign):
            v = self.subst(s.value)
            for t in s.targets:
                self.bind(t, v, s)
        elif isinstance(s, ast.AnnAssign) and s.value is not None:
            self.bind(s.target, self.subst(s.value), s)
        elif isinstance(s, ast.Expr) and isinstance(s.value, ast.Call) and isinstance(s.value.func, ast.Attribute) and s.value.func.attr == 'append' \
                and isinstance(s.value.func.value, ast.Name) and len(s.value.args) == 1 and not s.value.keywords:
            name = s.value.func.value.id
            v = self.subst(s.value.args[0])
            lst = self.env.get(name)
            if isinstance(lst, PyList):
                if lst.captured:
                    raise Undecided(f'{self.where}: list {name} grows after it was used')
                lst.elts.append(v)
            elif lst is None:
                self.appends.append((name, v, s))
            else:
                raise Undecided(f'{self.where}: append to {name}, which is not a list built in the row body')
        elif isinstance(s, ast.Expr) and isinstance(s.value, ast.Constant) or isinstance(s, ast.Pass):
            pass
        elif isinstance(s, ast.For) and not s.orelse:
            it = self.subst(s.iter)
            if not (isinstance(it, (ast.Tuple, ast.List)) and not any(isinstance(x, ast.Starred) for x in it.elts)):
                raise Undecided(f'{self.where}: inner loop over {u(s.iter)[:50]}, which is not a literal sequence')
            for x in it.elts:
                self.bind(s.target, x, s)
                self.block(s.body)
        elif isinstance(s, ast.If):
            arms = []
            sizes = {k: len(v.elts) for k, v in self.env.items() if isinstance(v, PyList)}
            for body in (s.body, s.orelse):
                sub = RowExec(self.where)
                sub.env = dict(self.env)
                sub.block(body)
                if sub.stores or sub.appends or any(isinstance(v, PyList) and (v is not self.env.get(k) or len(v.elts) != sizes[k]) for k, v in sub.env.items()):
                    raise Undecided(f'{self.where}: conditional statement with effects in the row body: if {u(s.test)[:50]}')
                arms.append(sub.env)
            test = self.subst(s.test)
            for k in sorted(set(arms[0]) | set(arms[1])):
                a, b = arms[0].get(k), arms[1].get(k)
                if a is self.env.get(k) and b is self.env.get(k):
                    continue
                if a is None or b is None:
                    raise Undecided(f'{self.where}: {k} is bound in one arm only of: if {u(s.test)[:50]}')
                self.env[k] = a if u(a) == u(b) else ast.IfExp(test=copy.deepcopy(test), body=a, orelse=b)
        else:
            raise Undecided(f'{self.where}: statement outside the vocabulary in the row body: {u(s).splitlines()[0][:70]}')


def _is_const(e, value):
    return isinstance(e, ast.Constant) and e.value is value


def _txt(e):
    return ast.unparse(e) if isinstance(e, ast.AST) else repr(e)


def check(ctx):
    rep, m = ctx.rep, ctx.model
    rep.rule('U1', "hclust: squareform then linkage(method='average') (UPGMA)")
    rep.rule('U2', 'linkage_to_bio_tree: index arithmetic and height differences, identical for both children; node numbering; leaves')
    rep.rule('U3', 'tree_cmd: labels and signatures from one source')
    from ..clirules import check_path_types
    check_path_types(rep, ctx.model, 'U3')
    # the distance kernel merges SORTED duplicate-free arrays: signatures computed from genome files meet that precondition (C01-K7 re-evaluated)
    from . import c01
    rep.rule('K7', 'C01-K7 re-evaluated: every accumulator returns a sorted, duplicate-free signature of the right dtype (the kernel precondition)')
    c01.analyse_accumulators(ctx)
    # "the true signature distance" of genome FILES: the signatures themselves must be the property-C01 ones - the search, slice,
    # strand, skip and case-folding premises of C01 are re-evaluated under this property (a change in find_kmers changes every cell)
    rep.rule('K1', 'C01-K1 (search loops) re-evaluated'); rep.rule('K2', 'C01-K2 slices'); rep.rule('K2.0', 'KmerSpec attribute harvest'); rep.rule('K3', 'C01-K3 composition')
    rep.rule('K4', 'C01-K4 strand dispatch'); rep.rule('K5', 'C01-K5 skip discipline'); rep.rule('K6', 'C01-K6 case folding'); rep.rule('K9', 'C01-K9 one shared accumulator'); rep.rule('K10', 'C01-K10 input types')
    rep.rule('T9', 'C07-T9 bindings')
    c01.harvest_kmerspec(ctx)
    c01.analyse_slices(ctx, c01.analyse_search_loops(ctx))
    c01.analyse_accumulate(ctx)
    rep.rule('U4', 'tree_cmd: pairwise (non-flat) matrix of those signatures goes unchanged through hclust and linkage_to_bio_tree to Newick')
    rep.trusted += ["scipy.cluster.hierarchy.linkage(method='average') is UPGMA with non-decreasing merge heights; row i creates node n + i", 'Bio.Phylo Newick writer']
    fh = m.func(f'{CL}.hclust')
    rep.functions.add(fh.qualname)
    dp = fh.params()[0]
    rets = [s for s in fh.node.body if isinstance(s, ast.Return)]
    rep.require(len(rets) == 1 and isinstance(rets[0].value, ast.Call), 'hclust: expected a single linkage(...) return')
    lc = rets[0].value
    tgt = m.resolve_call(fh, lc)
    meth = get_arg(lc, 1, 'method')
    rep.add('U1', fh.site(lc), "clustering is SciPy average linkage (UPGMA)", tgt == 'scipy.cluster.hierarchy.linkage' and is_const(meth, 'average'), expected="linkage(..., method='average')", found=(tgt, u(meth)), stmt='linkage method')
    rep.require(bool(lc.args) and not isinstance(lc.args[0], ast.Starred), 'hclust: the linkage input is not a positional argument')
    # every value that can reach the linkage input, with the conditions under which it does (copies, if/else definitions and conditional
    # expressions followed).  squareform converts in BOTH directions: it condenses a 2-D matrix and expands a 1-D vector, so the condensed form
    # reaches linkage iff squareform is applied where the matrix is 2-D, or the input is passed as it is where it is 1-D (already condensed)
    gmh = guard_map(fh.node)

    def leaves(e, at, guards, depth=0):
        if isinstance(e, ast.IfExp):
            return leaves(e.body, at, guards + ((e.test, True),), depth) + leaves(e.orelse, at, guards + ((e.test, False),), depth)
        if isinstance(e, ast.Name) and e.id != dp and depth < 6:
            d = reaching_def(fh.node, e.id, at)
            if d is AMBIGUOUS:
                out = []
                for x in assigns_to(fh.node, e.id):
                    v = def_value(x)
                    out += leaves(v, x, guards + tuple(gmh[x]), depth + 1) if v is not None else [(None, x, guards)]
                return out
            v = def_value(d) if d not in (None, PARAM) else None
            if v is not None:
                return leaves(v, d, guards, depth + 1)
        return [(e, at, guards)]

    def ndim_facts(guards, value):
        """(all facts about <matrix>.ndim hold for this value, some fact excludes the other dimensionality)"""
        nd = f'{dp}.ndim'
        holds, decisive = True, False
        for a in path_atoms(guards):
            if len(a) != 3 or nd not in a[1:]:
                continue
            other = a[2] if a[1] == nd else a[1]
            try:
                c = int(other)
            except ValueError:
                continue
            x, y = (value, c) if a[1] == nd else (c, value)
            alt = 3 - value                                  # the other of {1, 2}
            xa, ya = (alt, c) if a[1] == nd else (c, alt)
            f = {'eq': lambda p_, q_: p_ == q_, 'ne': lambda p_, q_: p_ != q_, 'lt': lambda p_, q_: p_ < q_, 'le': lambda p_, q_: p_ <= q_}.get(a[0])
            if f is None:
                continue
            holds = holds and f(x, y)
            decisive = decisive or not f(xa, ya)
        return holds, decisive
    lvs = leaves(lc.args[0], rets[0], tuple(gmh[rets[0]]))
    for (v, at, guards) in lvs:
        is_sq = isinstance(v, ast.Call) and m.resolve_call(fh, v) == 'scipy.spatial.distance.squareform' and [u(a) for a in v.args] == [dp] and not v.keywords
        is_raw = isinstance(v, ast.Name) and v.id == dp
        rep.add('U1', fh.site(lc), 'the linkage input is the condensed form of the given matrix itself', is_sq or is_raw, expected=f'squareform({dp})', found=u(v), stmt='condensed form')
        if is_sq:
            holds, _ = ndim_facts(guards, 2)
            rep.add('U1', fh.site(at), 'squareform is applied where the matrix is square (2-D): that is where it condenses', holds, expected=f'{dp}.ndim == 2 on the path (asserted, tested, or left to the caller)',
                    found=sorted(a for a in path_atoms(guards) if f'{dp}.ndim' in a[1:]), stmt='square input')
        elif is_raw:
            holds, decisive = ndim_facts(guards, 1)
            rep.add('U1', fh.site(at), 'the matrix is handed to linkage as it is only where it is already condensed (1-D)', holds and decisive, expected=f'{dp}.ndim == 1 on the path',
                    found=sorted(a for a in path_atoms(guards) if f'{dp}.ndim' in a[1:]), stmt='condensed input passed through')
    rep.account_returns('U1', fh, rets, 'linkage')
    extra = [k.arg for k in lc.keywords if k.arg not in ('method',)]
    rep.add('U1', fh.site(lc), 'no other linkage option (metric / optimal ordering) alters the result', not extra and len(lc.args) <= 2, expected='none', found=extra, stmt='linkage options')

    # ---- U2
    ft = m.func(f'{CL}.linkage_to_bio_tree')
    rep.functions.add(ft.qualname)
    lk, lb = ft.params()[:2]
    fn = ft.node
    env = {f'{lk}.shape[0]': sym('R'), f'len({lk})': sym('R')}
    nl = None
    for s in fn.body:
        if isinstance(s, ast.Assign) and isinstance(s.targets[0], ast.Name):
            a = Aff.try_of(s.value, env)
            if a == sym('R').plus(1):
                nl = s.targets[0].id
                env[nl] = sym('NL')
    rep.add('U2', ft.site(), 'number of leaves = linkage rows + 1', nl is not None, expected=f'{lk}.shape[0] + 1', found=[u(s) for s in fn.body if isinstance(s, ast.Assign)][:2], stmt='nleaves')
    rep.require(nl is not None, 'linkage_to_bio_tree: nleaves not found')
    # the row loop is the loop over the linkage matrix (unpacking its four columns); any other top-level loop must be the one that
    # builds the leaves (decided by the 'leaves' rule below)
    all_loops = [s for s in fn.body if isinstance(s, (ast.For, ast.While))]
    loops = [s for s in all_loops if isinstance(s, ast.For) and (u(s.iter) == lk or (isinstance(s.target, ast.Tuple) and len(s.target.elts) == 4))]
    rep.require(len(loops) == 1 and isinstance(loops[0].target, ast.Tuple) and len(loops[0].target.elts) == 4 and all(isinstance(e, ast.Name) for e in loops[0].target.elts),
                'linkage_to_bio_tree: expected one loop over the linkage rows unpacking four columns')
    lp = loops[0]
    cl, cr, hv, sz = (u(e) for e in lp.target.elts)
    rep.add('U2', ft.site(lp), 'linkage rows are visited in order and unpacked as (left, right, height, size)', u(lp.iter) == lk, expected=f'for left, right, height, size in {lk}', found=(u(lp.iter), u(lp.target)), stmt='row unpack')
    # one row = one symbolic execution of the loop body: locals are substituted by their definitions, loops over a literal pair are unrolled,
    # lists built element by element are lists; what remains are the effects of the row: attribute stores and appends to outer lists
    row = RowExec('linkage_to_bio_tree')
    row.block(lp.body)
    rep.require(not lp.orelse, 'linkage_to_bio_tree: the row loop has an else clause')
    outer = sorted({name for (name, _, _) in row.appends})
    rep.require(len(outer) == 1, f'linkage_to_bio_tree: expected the row body to append to exactly one outer list (the clades), found {outer}')
    clades, new_clade, ap = row.appends[0]
    rep.add('U2', ft.site(ap), 'exactly one node is created per linkage row (node id = nleaves + row index)', len(row.appends) == 1, expected='one append per row', found=[f'{n}.append({u(v)[:50]})' for n, v, _ in row.appends], stmt='one node per row')
    other = [(u(o), a) for (o, a, v, st_) in row.stores if a != 'branch_length']
    rep.require(not other, f'linkage_to_bio_tree: the row body stores into {other[0] if other else ""}, an attribute outside the rules')
    bls = [x for x in row.stores if x[1] == 'branch_length']
    rep.floor('U2', 'branch-length assignments per row', len(bls), 2)
    aenv = {f'{lk}.shape[0]': sym('R'), f'len({lk})': sym('R'), nl: sym('R').plus(1)}
    want_child = {f'{clades}[int({cl})]': 'left', f'{clades}[int({cr})]': 'right'}

    def diff(a, b, idx_path):
        e_ = dict(aenv)
        e_[idx_path] = sym('c')
        x, y = Aff.try_of(a, e_), Aff.try_of(b, e_)
        return None if x is None or y is None else x.sub(y)
    sides = {}
    for (obj, attr, v, st_) in bls:
        which = want_child.get(u(obj))
        idx = obj.slice if isinstance(obj, ast.Subscript) and u(obj.value) == clades else None
        ip = path_of(idx) if idx is not None else None
        ok = isinstance(v, ast.BinOp) and isinstance(v.op, ast.Sub) and u(v.left) == hv and isinstance(v.right, ast.IfExp) and ip is not None
        detail = u(v)
        if ok:
            ie = v.right
            t = atoms(ie.test, key=lambda n_: n_)
            zero = sub = None
            if t is not None and len(t) == 1:
                (op_, a_, b_), = t
                d_ = diff(a_, b_, ip) if op_ in ('lt', 'le') else None
                c_nl = sym('c').sub(sym('R')).plus(-1)                 # child - nleaves
                # child < nleaves  (or child <= nleaves - 1)  <=>  leaf; nleaves <= child (or nleaves - 1 < child) <=> internal node
                if d_ is not None and ((op_ == 'lt' and d_ == c_nl) or (op_ == 'le' and d_ == c_nl.plus(1))):
                    zero, sub = ie.body, ie.orelse
                elif d_ is not None and ((op_ == 'le' and d_ == c_nl.scale(-1)) or (op_ == 'lt' and d_ == c_nl.scale(-1).plus(-1))):
                    zero, sub = ie.orelse, ie.body
            ok = zero is not None and is_const(zero, 0) and isinstance(sub, ast.Subscript) and u(sub.value) == lk and isinstance(sub.slice, ast.Tuple) and len(sub.slice.elts) == 2 \
                and diff(sub.slice.elts[0], ast.Constant(value=0), ip) == sym('c').sub(sym('R')).plus(-1) and is_const(sub.slice.elts[1], 2)
        if which is None:
            which = f'?{u(obj)}'
        sides[which] = sides.get(which, True) and ok
        rep.add('U2', ft.site(st_), f'{which} child: branch length = parent height - child height (0 for a leaf, else column 2 of linkage row child - nleaves)', ok,
                expected=f'{hv} - (0 if <child> < {nl} else {lk}[<child> - {nl}, 2])', found=detail, stmt=f'{which} branch length')
        rep.add('U2', ft.site(st_), f'{which} child: the clade whose branch length is set is the clade at that child index', which in ('left', 'right'), expected=f'{clades}[int({cl})] | {clades}[int({cr})]',
                found=u(obj), stmt=f'{which} child identity')
    rep.add('U2', ft.site(lp), 'both children are handled (sibling agreement)', set(sides) == {'left', 'right'} and all(sides.values()), expected='left and right identical up to the column', found=sides, stmt='siblings')
    kids = get_kw(new_clade, 'clades') if isinstance(new_clade, ast.Call) else None
    okc = isinstance(new_clade, ast.Call) and u(new_clade.func) == 'Clade' and not new_clade.args and [k.arg for k in new_clade.keywords] == ['clades'] and isinstance(kids, ast.List) \
        and len(kids.elts) == 2 and sorted(u(e) for e in kids.elts) == sorted(want_child)
    rep.add('U2', ft.site(ap), 'each row appends one new clade holding exactly its two children (so node id = nleaves + row index)', okc,
            expected=f'{clades}.append(Clade(clades=[left, right]))', found=f'{clades}.append({u(new_clade)})', stmt='new clade')
    cdef = [s for s in fn.body if isinstance(s, ast.Assign) and u(s.targets[0]) == clades]
    leaf_loops = [s for s in all_loops if s is not lp]
    okl, leaf_found = False, [u(c.value) for c in cdef]
    if len(cdef) == 1 and isinstance(cdef[0].value, ast.ListComp) and not leaf_loops:
        g = cdef[0].value.generators
        okl = len(g) == 1 and u(g[0].iter) == lb and not g[0].ifs and u(cdef[0].value.elt) == f'Clade(name={u(g[0].target)})'
    elif len(cdef) == 1 and isinstance(cdef[0].value, ast.List) and not cdef[0].value.elts and len(leaf_loops) == 1 and isinstance(leaf_loops[0], ast.For):
        # the same as an append loop: an empty list, then one clade appended per label, in label order, before the first row is visited
        ll = leaf_loops[0]
        ex = RowExec('linkage_to_bio_tree (leaf loop)')
        ex.block(ll.body)
        leaf_found.append(u(ll).replace('\n', '; ')[:90])
        okl = u(ll.iter) == lb and isinstance(ll.target, ast.Name) and not ll.orelse and not ex.stores and len(ex.appends) == 1 and ex.appends[0][0] == clades \
            and u(ex.appends[0][1]) == f'Clade(name={ll.target.id})' and fn.body.index(cdef[0]) < fn.body.index(ll) < fn.body.index(lp)
    else:
        rep.require(not leaf_loops or len(cdef) != 1, f'linkage_to_bio_tree: top-level loop outside the vocabulary: {u(leaf_loops[0]).splitlines()[0] if leaf_loops else ""}')
    rep.add('U2', ft.site(cdef[0] if cdef else None), 'leaves are one clade per label, in label order (leaf i = observation i)', okl, expected=f'[Clade(name=name) for name in {lb}]', found=leaf_found, stmt='leaves')
    asserts = [s for s in fn.body if isinstance(s, ast.Assert)]
    oka = any(atoms(a.test) == {('eq', f'len({lb})', nl)} for a in asserts)
    rep.add('U2', ft.site(asserts[0] if asserts else None), 'the number of labels must equal the number of leaves', oka, expected=f'assert len({lb}) == {nl}', found=[u(a.test) for a in asserts], stmt='label count')
    last = fn.body[-1]
    rep.account_returns('U2', ft, [last] if isinstance(last, ast.Return) else [], 'tree')
    root = get_kw(last.value, 'root') if isinstance(last, ast.Return) and isinstance(last.value, ast.Call) else None
    if isinstance(root, ast.Name):       # bound to a local first
        d = reaching_def(fn, root.id, last)
        root = def_value(d) if d not in (None, PARAM, AMBIGUOUS) and block_path(fn, d)[-1][0] is fn.body and fn.body.index(d) > fn.body.index(lp) else root
    okr = isinstance(last, ast.Return) and isinstance(last.value, ast.Call) and u(last.value.func) == 'Tree' and u(root) == f'{clades}[-1]' and is_const(get_kw(last.value, 'rooted'), True)
    rep.add('U2', ft.site(last), 'the root is the last clade created (the final merge); the tree is rooted', okr, expected=f'Tree(root={clades}[-1], rooted=True)', found=u(last), stmt='root')

    # ---- U3 / U4
    fc = m.func('gambit.cli.tree.tree_cmd')
    rep.functions.add(fc.qualname)
    cn = fc.node
    gm = guard_map(cn)
    pw = [c for c in calls_in(cn) if m.resolve_call(fc, c) == 'gambit.metric.jaccarddist_pairwise']
    hc = [c for c in calls_in(cn) if m.resolve_call(fc, c) == f'{CL}.hclust']
    lt = [c for c in calls_in(cn) if m.resolve_call(fc, c) == f'{CL}.linkage_to_bio_tree']
    wr = [c for c in calls_in(cn) if u(c.func) == 'Phylo.write']
    rep.require(len(pw) == len(hc) == len(lt) == len(wr) == 1, 'tree_cmd: expected one each of pairwise / hclust / linkage_to_bio_tree / Phylo.write')

    def origin(e, at):
        """(expression, statement) a value comes from: plain copies through locals (one structured reaching definition each) are followed."""
        for _ in range(8):
            if not isinstance(e, ast.Name):
                break
            d = reaching_def(cn, e.id, at)
            v = def_value(d) if d not in (None, PARAM, AMBIGUOUS) else None
            if v is None:
                break
            e, at = v, d
        return e, at

    def holder(call):
        st = stmt_of(cn, call)
        rep.require(st is not None, f'tree_cmd: cannot locate the statement evaluating {u(call)[:50]}')
        return st
    sigs = u(pw[0].args[0]) if pw[0].args else None
    rep.require(sigs is not None and isinstance(pw[0].args[0], ast.Name), 'tree_cmd: the operand of jaccarddist_pairwise is not a local variable')
    rep.add('U4', fc.site(pw[0]), 'the distance matrix is the full (non-flat) pairwise matrix of the signatures, in their order', _is_const(m.effective_arg(fc, pw[0], 'flat'), False) and _is_const(m.effective_arg(fc, pw[0], 'indices'), None),
            expected=f'jaccarddist_pairwise({sigs}) with flat False and indices None (as written or by the default of the signature)',
            found=(u(pw[0])[:70], 'flat=' + _txt(m.effective_arg(fc, pw[0], 'flat'))), stmt='pairwise')
    h_src = origin(hc[0].args[0], holder(hc[0]))[0] if len(hc[0].args) == 1 and not hc[0].keywords else None
    rep.add('U4', fc.site(hc[0]), 'that matrix goes unchanged into the clustering', h_src is pw[0], expected=f'hclust(<result of {u(pw[0])[:40]}>)', found=(u(hc[0]), u(h_src)[:70] if h_src is not None else None), stmt='hclust operand')
    rep.require(len(lt[0].args) == 2 and not lt[0].keywords, 'tree_cmd: linkage_to_bio_tree is not called with (linkage, labels)')
    t_src = origin(lt[0].args[0], holder(lt[0]))[0]
    rep.add('U4', fc.site(lt[0]), 'the linkage goes unchanged into the tree builder together with the labels', t_src is hc[0], expected=f'linkage_to_bio_tree(<result of {u(hc[0])[:40]}>, labels)', found=(u(lt[0]), u(t_src)[:70]), stmt='tree operand')
    w_src = origin(wr[0].args[0], holder(wr[0]))[0] if wr[0].args else None
    rep.add('U4', fc.site(wr[0]), 'the tree is printed as Newick on standard output', w_src is lt[0] and [u(a) for a in wr[0].args[1:]] == ['sys.stdout', "'newick'"] and not wr[0].keywords, expected="Phylo.write(tree, sys.stdout, 'newick')",
            found=u(wr[0]), stmt='newick')
    rep.account_exits('U4', fc, [holder(wr[0])], 'the tree is printed')
    # "twice the height at which UPGMA clustering of the genomes' pairwise distance matrix merges them": the matrix handed to the
    # clustering must be the true pairwise matrix - cell provenance and pairwise layout of C05, re-evaluated
    from . import c05
    rep.rule('B1', 'C05-B1 re-evaluated: every matrix cell is the unmodified kernel value, a copy of a cell, or the zero diagonal')
    rep.rule('B6', 'C05-B6 re-evaluated: pairwise row/column selection, mirror copy, zero diagonal')
    c05.check_stores(ctx)
    c05.check_pairwise(ctx)
    rep.require(isinstance(lt[0].args[1], ast.Name), 'tree_cmd: the labels argument of linkage_to_bio_tree is not a local variable')
    labels = u(lt[0].args[1])
    # per channel: the statement binding the labels and the statement binding the signatures lie under the same path condition; both are traced
    # back through plain copies to the statements that produced them
    ldefs = [s for s in stmts_in(cn.body) if isinstance(s, ast.Assign) and labels in [u(e) for t in s.targets for e in (t.elts if isinstance(t, ast.Tuple) else [t])]]
    sdefs = [s for s in stmts_in(cn.body) if isinstance(s, ast.Assign) and u(s.targets[0]) == sigs]
    rep.floor('U3', 'label definitions in tree_cmd', len(ldefs), 2)
    for ld in ldefs:
        at = path_atoms(gm[ld])
        blk_sd = [s for s in sdefs if path_atoms(gm[s]) == at]
        rep.require(len(blk_sd) == 1, f'tree_cmd: no unique signature definition in the branch of {u(ld)}')
        sd = blk_sd[0]
        sval, sd0 = origin(sd.value, sd)                     # where the signatures were produced
        if isinstance(ld.targets[0], ast.Tuple):
            lval, ld0, lname = ld.value, ld, labels
        else:
            lval, ld0 = origin(ld.value, ld)
            lname = None
            if isinstance(lval, ast.Name):
                # a copy of one component of a tuple assignment
                d = reaching_def(cn, lval.id, ld0)
                if isinstance(d, ast.Assign) and isinstance(d.targets[0], ast.Tuple):
                    lval, ld0, lname = d.value, d, lval.id
        if lname is not None:
            comps = [u(e) for e in ld0.targets[0].elts]
            lroot = f'gambit.cli.common.get_sequence_files({", ".join(u(a) for a in lval.args)})@{ld0.lineno}' if isinstance(lval, ast.Call) and m.resolve_call(fc, lval) == 'gambit.cli.common.get_sequence_files' else '?'
            sroot = align.source(m, fc, sval, sd0)[0]
            ok = lroot == sroot and comps[0] == lname
            rep.add('U3', fc.site(sd0), 'file channel: leaf labels and signatures descend from the same get_sequence_files call (ids first, files second)', ok, expected='same call', found=(lroot, sroot, comps), stmt='file channel labels')
            karg = get_arg(sval, 0, 'kmerspec') if isinstance(sval, ast.Call) else None
            kd = origin(karg, sd0)[0] if isinstance(karg, ast.AST) else None
            okk = isinstance(kd, ast.Call) and (m.resolve_call(fc, kd) or '').endswith('kspec_from_params') and is_const(get_arg(kd, 2, 'default'), True)
            rep.add('U3', fc.site(sd0), 'signatures are computed with the requested parameters or the default ones', okk, expected='kspec_from_params(k, prefix, default=True)', found=u(kd), stmt='tree kspec')
        else:
            # labels = X.ids: X must name, at that point, the very object that becomes the operand (same producing statement), a loaded file,
            # and the operand variable is bound before the labels are read or is that object itself
            base = lval.value if isinstance(lval, ast.Attribute) and lval.attr == 'ids' else None
            bobj = origin(base, ld0) if base is not None else (None, None)
            if isinstance(base, ast.Name) and base.id == sigs:
                same = reaching_def(cn, sigs, ld0) is sd
            else:
                same = bobj[0] is sval and sval is not None
            ok = base is not None and same and isinstance(sval, ast.Call) and (m.resolve_call(fc, sval) or '').endswith('load_signatures')
            rep.add('U3', fc.site(ld), 'signature-file channel: leaf labels are the stored ids of the loaded signatures', ok, expected=f'{sigs} = load_signatures(sigfile); {labels} = {sigs}.ids', found=(u(sd0), u(ld0)), stmt='sigfile channel labels')


from ..variants import V  # noqa: E402

_C = 'src/gambit/cluster.py'
_T = 'src/gambit/cli/tree.py'
_ROW = ("\t\tleft_i = int(left_i)\n\t\tleft = clades[left_i]\n\t\tleft.branch_length = height - (0 if left_i < nleaves else link[left_i - nleaves, 2])\n\n"
        "\t\tright_i = int(right_i)\n\t\tright = clades[right_i]\n\t\tright.branch_length = height - (0 if right_i < nleaves else link[right_i - nleaves, 2])\n\n"
        "\t\tclades.append(Clade(clades=[left, right]))\n")
_INNER = ("\t\tchildren = []\n\n\t\tfor child_i in (left_i, right_i):\n\t\t\tchild_i = int(child_i)\n\t\t\tchild = clades[child_i]\n"
          "\t\t\tchild_height = 0 if child_i < nleaves else link[child_i - nleaves, 2]\n\t\t\tchild.branch_length = height - child_height\n\t\t\tchildren.append(child)\n\n"
          "\t\tclades.append(Clade(clades=children))\n")
VARIANTS = [
    V('guard clause: fewer than three genomes print nothing (early-exit probe)', 'B', _T, "\tlink = hclust(dmat)\n", "\tif len(labels) < 3:\n\t\treturn\n\tlink = hclust(dmat)\n", 'U4'),
    V("method='single'", 'B', _C, "return linkage(sm, method='average')", "return linkage(sm, method='single')", 'U1'),
    V('right child height row off by one', 'B', _C, "link[right_i - nleaves, 2])", "link[right_i - nleaves + 1, 2])", 'U2'),
    V('left child height from the size column', 'B', _C, "link[left_i - nleaves, 2])", "link[left_i - nleaves, 3])", 'U2'),
    V('internal children treated as leaves', 'B', _C, "right.branch_length = height - (0 if right_i < nleaves else link[right_i - nleaves, 2])", "right.branch_length = height - 0", 'U2'),
    V('leaf test uses <=', 'B', _C, "(0 if left_i < nleaves else", "(0 if left_i <= nleaves else", 'U2'),
    V('labels sorted', 'B', _T, "\t\tlabels = sigs.ids\n", "\t\tlabels = sorted(sigs.ids)\n", 'U3'),
    V('default of flat flipped in the signature of jaccarddist_pairwise (mutation probe)', 'B', 'src/gambit/metric.py', "                         flat: bool = False,", "                         flat: bool = True,", 'U4'),
    V('E: flat=False written at the call', 'E', _T, "dmat = jaccarddist_pairwise(sigs, progress=pconf.update(desc='Calculating distances'))", "dmat = jaccarddist_pairwise(sigs, flat=False, progress=pconf.update(desc='Calculating distances'))"),
    V('tree built from a flat matrix of other data', 'B', _T, "link = hclust(dmat)", "link = hclust(dmat ** 2)", 'U4'),
    V('root is the first internal node', 'B', _C, "return Tree(root=clades[-1], rooted=True)", "return Tree(root=clades[nleaves], rooted=True)", 'U2'),
    V('children swapped into one clade twice', 'B', _C, "clades.append(Clade(clades=[left, right]))", "clades.append(Clade(clades=[left, left]))", 'U2'),
    V('leaves in reversed label order', 'B', _C, "clades = [Clade(name=name) for name in labels]", "clades = [Clade(name=name) for name in reversed(labels)]", 'U2'),
    V('optimal ordering / other option', 'B', _C, "return linkage(sm, method='average')", "return linkage(sm, method='average', metric='cityblock')", 'U1'),
    V('empty row signature fills its row with 1 (seeded C17b)', 'B', 'src/gambit/metric.py', "\t\t\tjaccarddist_array(row_sig, col_sigs, out=row_out)",
      "\t\t\tif len(row_sig) == 0:\n\t\t\t\trow_out[:] = 1\n\t\t\telse:\n\t\t\t\tjaccarddist_array(row_sig, col_sigs, out=row_out)", 'B'),
    V('E: leaf test written >=', 'E', _C, "(0 if left_i < nleaves else link[left_i - nleaves, 2])", "(link[left_i - nleaves, 2] if left_i >= nleaves else 0)"),
    V('E: positional method argument', 'E', _C, "return linkage(sm, method='average')", "return linkage(sm, 'average')"),
    # ---- idioms accepted since the refactoring round, each with its broken twin
    V('E: both children handled by one inner loop over the literal pair, child height bound to a local, children collected in a list', 'E', _C, _ROW, _INNER),
    V('inner loop: child height read from the size column', 'B', _C, _ROW, _INNER.replace("link[child_i - nleaves, 2]", "link[child_i - nleaves, 3]"), 'U2'),
    V('inner loop: pair lists the left child twice', 'B', _C, _ROW, _INNER.replace("for child_i in (left_i, right_i):", "for child_i in (left_i, left_i):"), 'U2'),
    V('inner loop: leaf test off by one', 'B', _C, _ROW, _INNER.replace("0 if child_i < nleaves else", "0 if child_i < nleaves - 1 else"), 'U2'),
    V('two nodes appended per row (node numbering shifts)', 'B', _C, "\t\tclades.append(Clade(clades=[left, right]))\n", "\t\tclades.append(Clade(clades=[left, right]))\n\t\tclades.append(Clade(clades=[left, right]))\n", 'U2'),
    V('E: child height chosen by an if statement', 'E', _C, "\t\tleft.branch_length = height - (0 if left_i < nleaves else link[left_i - nleaves, 2])\n",
      "\t\tif left_i >= nleaves:\n\t\t\tleft_height = link[left_i - nleaves, 2]\n\t\telse:\n\t\t\tleft_height = 0\n\t\tleft.branch_length = height - left_height\n"),
    V('if statement with the arms swapped (leaves get a height from the matrix)', 'B', _C, "\t\tleft.branch_length = height - (0 if left_i < nleaves else link[left_i - nleaves, 2])\n",
      "\t\tif left_i >= nleaves:\n\t\t\tleft_height = 0\n\t\telse:\n\t\t\tleft_height = link[left_i - nleaves, 2]\n\t\tleft.branch_length = height - left_height\n", 'U2'),
    V('E: leaf test as child - nleaves < 0, children as a comprehension over the pair', 'E', _C, "(0 if right_i < nleaves else link[right_i - nleaves, 2])", "(0 if right_i - nleaves < 0 else link[right_i - nleaves, 2])",
      also=[(_C, "clades.append(Clade(clades=[left, right]))", "clades.append(Clade(clades=[clades[i] for i in (left_i, right_i)]))")]),
    V('comprehension over the pair indexes with the height column', 'B', _C, "clades.append(Clade(clades=[left, right]))", "clades.append(Clade(clades=[clades[int(i)] for i in (left_i, height)]))", 'U2'),
    V('E: linkage passed to the tree builder without a temporary; root bound to a local', 'E', _T, "\tlink = hclust(dmat)\n\ttree = linkage_to_bio_tree(link, labels)\n", "\ttree = linkage_to_bio_tree(hclust(dmat), labels)\n",
      also=[(_C, "\treturn Tree(root=clades[-1], rooted=True)\n", "\troot = clades[-1]\n\treturn Tree(root=root, rooted=True)\n")]),
    V('no temporary: the clustering gets a transformed matrix', 'B', _T, "\tlink = hclust(dmat)\n\ttree = linkage_to_bio_tree(link, labels)\n", "\ttree = linkage_to_bio_tree(hclust(dmat / dmat.max()), labels)\n", 'U4'),
    V('root bound to a local: the first leaf', 'B', _C, "\treturn Tree(root=clades[-1], rooted=True)\n", "\troot = clades[0]\n\treturn Tree(root=root, rooted=True)\n", 'U2'),
    V('E: loaded signatures bound to a local, operand and labels are copies of it', 'E', _T, "\t\tsigs = load_signatures(sigfile)\n\t\tlabels = sigs.ids\n", "\t\tloaded = load_signatures(sigfile)\n\t\tlabels = loaded.ids\n\t\tsigs = loaded\n"),
    V('copies: the operand is a reordered view of the object the labels were read from', 'B', _T, "\t\tsigs = load_signatures(sigfile)\n\t\tlabels = sigs.ids\n", "\t\tloaded = load_signatures(sigfile)\n\t\tlabels = loaded.ids\n\t\tsigs = loaded[::-1]\n", 'U3'),
    V('E: file ids bound to a local and copied into the labels', 'E', _T, "\t\tlabels, genome_files = common.get_sequence_files(files_arg, listfile, ldir)\n", "\t\tfile_ids, genome_files = common.get_sequence_files(files_arg, listfile, ldir)\n\t\tlabels = file_ids\n"),
    V('copies: the labels are the file objects, not the ids', 'B', _T, "\t\tlabels, genome_files = common.get_sequence_files(files_arg, listfile, ldir)\n", "\t\tfile_ids, genome_files = common.get_sequence_files(files_arg, listfile, ldir)\n\t\tlabels = genome_files\n", 'U3'),
    # ---- second round: squareform converts both ways, so U1 decides the dimensionality under which it is applied
    V('shape assertion inverted: squareform would only ever see a vector (and expand it)', 'B', _C, "\tassert dmat.ndim == 2\n", "\tassert dmat.ndim != 2\n", 'U1'),
    V('shape assertion admits vectors only', 'B', _C, "\tassert dmat.ndim == 2\n", "\tassert dmat.ndim == 1\n", 'U1'),
    V('shape assertion asks for three dimensions', 'B', _C, "\tassert dmat.ndim == 2\n", "\tassert dmat.ndim == 3\n", 'U1'),
    V('E: shape check as a raise', 'E', _C, "\tassert dmat.ndim == 2\n", "\tif dmat.ndim != 2:\n\t\traise ValueError('expected a square matrix')\n"),
    V('E: square matrices are condensed, vectors are taken as already condensed (conditional expression)', 'E', _C, "\tassert dmat.ndim == 2\n\tsm = squareform(dmat)\n", "\tsm = squareform(dmat) if dmat.ndim == 2 else dmat\n"),
    V('conditional expression the wrong way round: the square matrix goes to linkage as observation vectors', 'B', _C, "\tassert dmat.ndim == 2\n\tsm = squareform(dmat)\n", "\tsm = squareform(dmat) if dmat.ndim != 2 else dmat\n", 'U1'),
    V('E: the same as an if statement', 'E', _C, "\tassert dmat.ndim == 2\n\tsm = squareform(dmat)\n", "\tif dmat.ndim == 2:\n\t\tsm = squareform(dmat)\n\telse:\n\t\tsm = dmat\n"),
    V('if statement condensing vectors and passing squares through', 'B', _C, "\tassert dmat.ndim == 2\n\tsm = squareform(dmat)\n", "\tif dmat.ndim == 1:\n\t\tsm = squareform(dmat)\n\telse:\n\t\tsm = dmat\n", 'U1'),
    V('the matrix is never condensed', 'B', _C, "\tsm = squareform(dmat)\n", "\tsm = dmat\n", 'U1'),
    V('E: leaves built by an append loop', 'E', _C, "\tclades = [Clade(name=name) for name in labels]\n", "\tclades = []\n\tfor name in labels:\n\t\tclades.append(Clade(name=name))\n"),
    V('append loop over the labels in reverse', 'B', _C, "\tclades = [Clade(name=name) for name in labels]\n", "\tclades = []\n\tfor name in labels[::-1]:\n\t\tclades.append(Clade(name=name))\n", 'U2'),
    V('append loop skips the first label', 'B', _C, "\tclades = [Clade(name=name) for name in labels]\n", "\tclades = []\n\tfor name in labels[1:]:\n\t\tclades.append(Clade(name=name))\n", 'U2'),
]
