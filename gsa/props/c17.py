"""C17 - the tree command outputs the UPGMA dendrogram of the pairwise distances.

U1 hclust = linkage(squareform(dmat), method='average')
U2 linkage_to_bio_tree: nleaves; row unpack (left, right, height, size); for BOTH children (sibling agreement)
   branch_length = height - h_child, h_child = 0 under child < nleaves else link[child - nleaves, 2]; clade [left, right] appended
   per row; root = last clade; leaves over labels in order with the count asserted
U3 labels and signatures come from one source   U4 matrix = non-flat pairwise of those signatures, unchanged into hclust; Newick to stdout
"""
import ast

from .. import align
from ..affine import Aff, sym
from ..astutil import (u, atoms, guard_map, path_atoms, stmts_in, calls_in, callee, callee_attr, reaching_def, def_value,
                       PARAM, AMBIGUOUS, get_arg, get_kw, is_none, is_const, block_path)
from ..report import Undecided

CL = 'gambit.cluster'


def check(ctx):
    rep, m = ctx.rep, ctx.model
    rep.rule('U1', "hclust: squareform then linkage(method='average') (UPGMA)")
    rep.rule('U2', 'linkage_to_bio_tree: index arithmetic and height differences, identical for both children; node numbering; leaves')
    rep.rule('U3', 'tree_cmd: labels and signatures from one source')
    rep.rule('U4', 'tree_cmd: pairwise (non-flat) matrix of those signatures goes unchanged through hclust and linkage_to_bio_tree to Newick')
    rep.trusted += ["scipy.cluster.hierarchy.linkage(method='average') is UPGMA with non-decreasing merge heights; row i creates node n + i", 'Bio.Phylo Newick writer']
    fh = m.func(f'{CL}.hclust')
    rep.functions.add(fh.qualname)
    dp = fh.params()[0]
    rets = [s for s in fh.node.body if isinstance(s, ast.Return)]
    rep.require(len(rets) == 1 and isinstance(rets[0].value, ast.Call), 'hclust: expected a single linkage(...) return')
    lc = rets[0].value
    tgt = m.resolve_call(fh, lc)
    meth = get_arg(lc, 1, 'method')
    rep.add('U1', fh.site(lc), "clustering is SciPy average linkage (UPGMA)", tgt == 'scipy.cluster.hierarchy.linkage' and is_const(meth, 'average'), expected="linkage(..., method='average')", found=(tgt, u(meth)), stmt='linkage method')
    a0 = lc.args[0]
    av = a0
    if isinstance(a0, ast.Name):
        d = reaching_def(fh.node, a0.id, rets[0])
        av = def_value(d) if d not in (None, PARAM, AMBIGUOUS) else None
    okq = isinstance(av, ast.Call) and m.resolve_call(fh, av) == 'scipy.spatial.distance.squareform' and [u(a) for a in av.args] == [dp] and not av.keywords
    rep.add('U1', fh.site(lc), 'the linkage input is the condensed form of the given matrix itself', okq, expected=f'squareform({dp})', found=u(av), stmt='condensed form')
    rep.account_returns('U1', fh, rets, 'linkage')
    extra = [k.arg for k in lc.keywords if k.arg not in ('method',)]
    rep.add('U1', fh.site(lc), 'no other linkage option (metric / optimal ordering) alters the result', not extra and len(lc.args) <= 2, expected='none', found=extra, stmt='linkage options')

    # ---- U2
    ft = m.func(f'{CL}.linkage_to_bio_tree')
    rep.functions.add(ft.qualname)
    lk, lb = ft.params()[:2]
    fn = ft.node
    env = {f'{lk}.shape[0]': sym('R'), f'len({lk})': sym('R')}
    nl = None
    for s in fn.body:
        if isinstance(s, ast.Assign) and isinstance(s.targets[0], ast.Name):
            a = Aff.try_of(s.value, env)
            if a == sym('R').plus(1):
                nl = s.targets[0].id
                env[nl] = sym('NL')
    rep.add('U2', ft.site(), 'number of leaves = linkage rows + 1', nl is not None, expected=f'{lk}.shape[0] + 1', found=[u(s) for s in fn.body if isinstance(s, ast.Assign)][:2], stmt='nleaves')
    rep.require(nl is not None, 'linkage_to_bio_tree: nleaves not found')
    loops = [s for s in fn.body if isinstance(s, ast.For)]
    rep.require(len(loops) == 1 and isinstance(loops[0].target, ast.Tuple) and len(loops[0].target.elts) == 4, 'linkage_to_bio_tree: expected one loop unpacking four columns')
    lp = loops[0]
    cl, cr, hv, sz = (u(e) for e in lp.target.elts)
    rep.add('U2', ft.site(lp), 'linkage rows are visited in order and unpacked as (left, right, height, size)', u(lp.iter) == lk, expected=f'for left, right, height, size in {lk}', found=(u(lp.iter), u(lp.target)), stmt='row unpack')
    clades = None
    apps = [c for c in calls_in(lp) if callee_attr(c) == 'append']
    rep.require(len(apps) == 1, 'linkage_to_bio_tree: expected one append per row')
    clades = u(apps[0].func.value)
    # children
    child = {}
    for s in lp.body:
        if isinstance(s, ast.Assign) and isinstance(s.value, ast.Subscript) and u(s.value.value) == clades:
            child[u(s.targets[0])] = u(s.value.slice)
    ints = {u(s.targets[0]): u(s.value) for s in lp.body if isinstance(s, ast.Assign) and isinstance(s.value, ast.Call) and u(s.value.func) == 'int'}
    bls = [s for s in lp.body if isinstance(s, ast.Assign) and isinstance(s.targets[0], ast.Attribute) and s.targets[0].attr == 'branch_length']
    rep.floor('U2', 'branch-length assignments per row', len(bls), 2)
    sides = {}
    for s in bls:
        node = u(s.targets[0].value)
        idx = child.get(node)
        col = ints.get(idx)
        v = s.value
        ok = isinstance(v, ast.BinOp) and isinstance(v.op, ast.Sub) and u(v.left) == hv and isinstance(v.right, ast.IfExp)
        detail = u(v)
        if ok:
            ie = v.right
            t = atoms(ie.test)
            leaf_first = t == {('lt', idx, nl)}
            internal_first = t == {('le', nl, idx)}
            zero, sub = (ie.body, ie.orelse) if leaf_first else (ie.orelse, ie.body) if internal_first else (None, None)
            ok = zero is not None and is_const(zero, 0) and isinstance(sub, ast.Subscript) and u(sub.value) == lk and isinstance(sub.slice, ast.Tuple) and len(sub.slice.elts) == 2 \
                and Aff.try_of(sub.slice.elts[0], {idx: sym('c'), nl: sym('NL')}) == sym('c').sub(sym('NL')) and is_const(sub.slice.elts[1], 2)
        which = 'left' if col == f'int({cl})' or col == cl or ints.get(idx) == f'int({cl})' else 'right' if ints.get(idx) == f'int({cr})' else None
        if which is None:
            which = 'left' if idx == cl else 'right' if idx == cr else f'?{idx}'
        sides[which] = ok
        rep.add('U2', ft.site(s), f'{which} child: branch length = parent height - child height (0 for a leaf, else column 2 of linkage row child - nleaves)', ok,
                expected=f'{hv} - (0 if {idx} < {nl} else {lk}[{idx} - {nl}, 2])', found=detail, stmt=f'{which} branch length')
        rep.add('U2', ft.site(s), f'{which} child: the clade whose branch length is set is the clade at that child index', idx is not None and ints.get(idx) in (f'int({cl})', f'int({cr})'), expected=f'{node} = {clades}[int(...)]',
                found=(node, idx, ints.get(idx)), stmt=f'{which} child identity')
    rep.add('U2', ft.site(lp), 'both children are handled (sibling agreement)', set(sides) == {'left', 'right'} and all(sides.values()), expected='left and right identical up to the column', found=sides, stmt='siblings')
    ap = apps[0]
    a0 = ap.args[0]
    okc = isinstance(a0, ast.Call) and u(a0.func) == 'Clade' and isinstance(get_kw(a0, 'clades'), ast.List) and sorted(child.get(u(e), '?') for e in get_kw(a0, 'clades').elts) == sorted([k for k in ints]) \
        and len(get_kw(a0, 'clades').elts) == 2
    rep.add('U2', ft.site(ap), 'each row appends one new clade holding exactly its two children (so node id = nleaves + row index)', okc and block_path(fn, next(s for s in lp.body if isinstance(s, ast.Expr) and s.value is ap))[-1][0] is lp.body,
            expected='clades.append(Clade(clades=[left, right]))', found=u(ap), stmt='new clade')
    cdef = [s for s in fn.body if isinstance(s, ast.Assign) and u(s.targets[0]) == clades]
    okl = len(cdef) == 1 and isinstance(cdef[0].value, ast.ListComp) and u(cdef[0].value.generators[0].iter) == lb and not cdef[0].value.generators[0].ifs \
        and u(cdef[0].value.elt) == f'Clade(name={u(cdef[0].value.generators[0].target)})'
    rep.add('U2', ft.site(cdef[0] if cdef else None), 'leaves are one clade per label, in label order (leaf i = observation i)', okl, expected=f'[Clade(name=name) for name in {lb}]', found=[u(c.value) for c in cdef], stmt='leaves')
    asserts = [s for s in fn.body if isinstance(s, ast.Assert)]
    oka = any(atoms(a.test) == {('eq', f'len({lb})', nl)} for a in asserts)
    rep.add('U2', ft.site(asserts[0] if asserts else None), 'the number of labels must equal the number of leaves', oka, expected=f'assert len({lb}) == {nl}', found=[u(a.test) for a in asserts], stmt='label count')
    last = fn.body[-1]
    rep.account_returns('U2', ft, [last] if isinstance(last, ast.Return) else [], 'tree')
    okr = isinstance(last, ast.Return) and isinstance(last.value, ast.Call) and u(last.value.func) == 'Tree' and u(get_kw(last.value, 'root')) == f'{clades}[-1]' and is_const(get_kw(last.value, 'rooted'), True)
    rep.add('U2', ft.site(last), 'the root is the last clade created (the final merge); the tree is rooted', okr, expected=f'Tree(root={clades}[-1], rooted=True)', found=u(last), stmt='root')

    # ---- U3 / U4
    fc = m.func('gambit.cli.tree.tree_cmd')
    rep.functions.add(fc.qualname)
    cn = fc.node
    gm = guard_map(cn)
    pw = [c for c in calls_in(cn) if m.resolve_call(fc, c) == 'gambit.metric.jaccarddist_pairwise']
    hc = [c for c in calls_in(cn) if m.resolve_call(fc, c) == f'{CL}.hclust']
    lt = [c for c in calls_in(cn) if m.resolve_call(fc, c) == f'{CL}.linkage_to_bio_tree']
    wr = [c for c in calls_in(cn) if u(c.func) == 'Phylo.write']
    rep.require(len(pw) == len(hc) == len(lt) == len(wr) == 1, 'tree_cmd: expected one each of pairwise / hclust / linkage_to_bio_tree / Phylo.write')
    pst = next(s for s in cn.body if isinstance(s, ast.Assign) and s.value is pw[0])
    hst = next(s for s in cn.body if isinstance(s, ast.Assign) and s.value is hc[0])
    tst = next(s for s in cn.body if isinstance(s, ast.Assign) and s.value is lt[0])
    sigs = u(pw[0].args[0])
    rep.add('U4', fc.site(pw[0]), 'the distance matrix is the full (non-flat) pairwise matrix of the signatures, in their order', get_kw(pw[0], 'flat') is None and get_kw(pw[0], 'indices') is None and len(pw[0].args) == 1,
            expected=f'jaccarddist_pairwise({sigs})', found=u(pw[0])[:70], stmt='pairwise')
    rep.add('U4', fc.site(hc[0]), 'that matrix goes unchanged into the clustering', [u(a) for a in hc[0].args] == [u(pst.targets[0])], expected=f'hclust({u(pst.targets[0])})', found=u(hc[0]), stmt='hclust operand')
    rep.add('U4', fc.site(lt[0]), 'the linkage goes unchanged into the tree builder together with the labels', u(lt[0].args[0]) == u(hst.targets[0]), expected=f'linkage_to_bio_tree({u(hst.targets[0])}, labels)', found=u(lt[0]), stmt='tree operand')
    rep.add('U4', fc.site(wr[0]), 'the tree is printed as Newick on standard output', [u(a) for a in wr[0].args] == [u(tst.targets[0]), 'sys.stdout', "'newick'"], expected="Phylo.write(tree, sys.stdout, 'newick')", found=u(wr[0]), stmt='newick')
    # "twice the height at which UPGMA clustering of the genomes' pairwise distance matrix merges them": the matrix handed to the
    # clustering must be the true pairwise matrix - cell provenance and pairwise layout of C05, re-evaluated
    from . import c05
    rep.rule('B1', 'C05-B1 re-evaluated: every matrix cell is the unmodified kernel value, a copy of a cell, or the zero diagonal')
    rep.rule('B6', 'C05-B6 re-evaluated: pairwise row/column selection, mirror copy, zero diagonal')
    c05.check_stores(ctx)
    c05.check_pairwise(ctx)
    labels = u(lt[0].args[1])
    # per branch: labels and sigs defined from one source
    ldefs = [s for s in stmts_in(cn.body) if isinstance(s, ast.Assign) and labels in [u(e) for t in s.targets for e in (t.elts if isinstance(t, ast.Tuple) else [t])]]
    sdefs = [s for s in stmts_in(cn.body) if isinstance(s, ast.Assign) and u(s.targets[0]) == sigs]
    rep.floor('U3', 'label definitions in tree_cmd', len(ldefs), 2)
    for ld in ldefs:
        at = path_atoms(gm[ld])
        blk_sd = [s for s in sdefs if path_atoms(gm[s]) == at]
        rep.require(len(blk_sd) == 1, f'tree_cmd: no unique signature definition in the branch of {u(ld)}')
        sd = blk_sd[0]
        if isinstance(ld.targets[0], ast.Tuple):
            lroot = f'gambit.cli.common.get_sequence_files({", ".join(u(a) for a in ld.value.args)})@{ld.lineno}' if isinstance(ld.value, ast.Call) and m.resolve_call(fc, ld.value) == 'gambit.cli.common.get_sequence_files' else '?'
            sroot = align.source(m, fc, sd.value, sd)[0]
            ok = lroot == sroot and [u(e) for e in ld.targets[0].elts][0] == labels
            rep.add('U3', fc.site(sd), 'file channel: leaf labels and signatures descend from the same get_sequence_files call (ids first, files second)', ok, expected='same call', found=(lroot, sroot), stmt='file channel labels')
            okk = isinstance(sd.value, ast.Call) and isinstance(sd.value.args[0], ast.Name)
            kd = def_value(reaching_def(cn, sd.value.args[0].id, sd)) if okk else None
            okk = isinstance(kd, ast.Call) and (m.resolve_call(fc, kd) or '').endswith('kspec_from_params') and is_const(get_arg(kd, 2, 'default'), True)
            rep.add('U3', fc.site(sd), 'signatures are computed with the requested parameters or the default ones', okk, expected='kspec_from_params(k, prefix, default=True)', found=u(kd), stmt='tree kspec')
        else:
            ok = u(ld.value) == f'{sigs}.ids' and isinstance(sd.value, ast.Call) and (m.resolve_call(fc, sd.value) or '').endswith('load_signatures') and sd.lineno < ld.lineno
            rep.add('U3', fc.site(ld), 'signature-file channel: leaf labels are the stored ids of the loaded signatures', ok, expected=f'{sigs} = load_signatures(sigfile); {labels} = {sigs}.ids', found=(u(sd), u(ld)), stmt='sigfile channel labels')


from ..variants import V  # noqa: E402

_C = 'src/gambit/cluster.py'
_T = 'src/gambit/cli/tree.py'
VARIANTS = [
    V("method='single'", 'B', _C, "return linkage(sm, method='average')", "return linkage(sm, method='single')", 'U1'),
    V('right child height row off by one', 'B', _C, "link[right_i - nleaves, 2])", "link[right_i - nleaves + 1, 2])", 'U2'),
    V('left child height from the size column', 'B', _C, "link[left_i - nleaves, 2])", "link[left_i - nleaves, 3])", 'U2'),
    V('internal children treated as leaves', 'B', _C, "right.branch_length = height - (0 if right_i < nleaves else link[right_i - nleaves, 2])", "right.branch_length = height - 0", 'U2'),
    V('leaf test uses <=', 'B', _C, "(0 if left_i < nleaves else", "(0 if left_i <= nleaves else", 'U2'),
    V('labels sorted', 'B', _T, "\t\tlabels = sigs.ids\n", "\t\tlabels = sorted(sigs.ids)\n", 'U3'),
    V('tree built from a flat matrix of other data', 'B', _T, "link = hclust(dmat)", "link = hclust(dmat ** 2)", 'U4'),
    V('root is the first internal node', 'B', _C, "return Tree(root=clades[-1], rooted=True)", "return Tree(root=clades[nleaves], rooted=True)", 'U2'),
    V('children swapped into one clade twice', 'B', _C, "clades.append(Clade(clades=[left, right]))", "clades.append(Clade(clades=[left, left]))", 'U2'),
    V('leaves in reversed label order', 'B', _C, "clades = [Clade(name=name) for name in labels]", "clades = [Clade(name=name) for name in reversed(labels)]", 'U2'),
    V('optimal ordering / other option', 'B', _C, "return linkage(sm, method='average')", "return linkage(sm, method='average', metric='cityblock')", 'U1'),
    V('empty row signature fills its row with 1 (seeded C17b)', 'B', 'src/gambit/metric.py', "\t\t\tjaccarddist_array(row_sig, col_sigs, out=row_out)",
      "\t\t\tif len(row_sig) == 0:\n\t\t\t\trow_out[:] = 1\n\t\t\telse:\n\t\t\t\tjaccarddist_array(row_sig, col_sigs, out=row_out)", 'B'),
    V('E: leaf test written >=', 'E', _C, "(0 if left_i < nleaves else link[left_i - nleaves, 2])", "(link[left_i - nleaves, 2] if left_i >= nleaves else 0)"),
    V('E: positional method argument', 'E', _C, "return linkage(sm, method='average')", "return linkage(sm, 'average')"),
]
