"""C14 - signatures built with different k-mer parameters are never compared silently.

Abstract interpretation of every click command function (loop-free up to trivial reporting loops): the abstract paths
are enumerated completely (states split at branches, never joined).  Domain: None-ness of each option / local  x  a
partition of k-mer-parameter entities {DB, load:<arg>, CLI, DEFAULT} into known-equal classes.
P1 at every comparison sink, on every abstract path, all signature operands are in one class
P2 (dist) explicit -k/--prefix parameters present on the path are in the class of every sink operand
P3 kspec_from_params / signatures-create option discipline
P4 every path that took the "parameters differ" side of a comparison ends in raise click.ClickException before any sink/output
"""
import ast

from ..astutil import (u, atoms, guard_map, path_atoms, stmts_in, calls_in, callee, callee_attr, get_arg, get_kw, is_none, is_const,
                       raised_name, reaching_def, def_value, PARAM, AMBIGUOUS)
from ..report import Undecided

CLICK_ERRORS = {'click.ClickException', 'click.UsageError', 'click.BadParameter', 'click.BadOptionUsage', 'click.exceptions.ClickException'}
EXEMPT_COMMANDS = {'gambit.cli.debug.shell': 'hidden debug REPL; handles no signatures itself'}
MAX_PATHS = 200000


class Val:
    """kind + k-mer-parameter entity (`ent`) + provenance (`prov`): which sequence the value is index-aligned with / which object it is.
    prov: ('obj', <source>) the stored order of a loaded / database signature object; ('files', <options>) the file order of one
    get_sequence_files call; ('param', name) an untouched command parameter; for a record the field names."""
    __slots__ = ('kind', 'ent', 'prov')

    def __init__(self, kind, ent=None, prov=None):
        self.kind, self.ent, self.prov = kind, ent, prov

    def __repr__(self):
        return self.kind if self.ent is None else f'{self.kind}:{self.ent}'


NONE, OTHER, UNKNOWN, TRUE, FALSE = Val('none'), Val('other'), Val('unknown'), Val('true'), Val('false')


class State:
    __slots__ = ('env', 'classes', 'trail', 'mismatch', 'explicit')

    def __init__(self, env=None, classes=None, trail=(), mismatch=None, explicit=None):
        self.env = dict(env or {})
        self.classes = set(classes or ())
        self.trail = trail
        self.mismatch = mismatch      # text of the first "differ" decision taken on this path
        self.explicit = explicit      # entity of explicit CLI parameters known to be present on this path

    def copy(self, note=None):
        return State(self.env, self.classes, self.trail + ((note,) if note else ()), self.mismatch, self.explicit)

    def find(self, e):
        for c in self.classes:
            if e in c:
                return c
        return frozenset([e])

    def union(self, a, b):
        ca, cb = self.find(a), self.find(b)
        self.classes -= {ca, cb}
        self.classes.add(ca | cb)

    def same(self, a, b):
        return b in self.find(a)


NO_INLINE = {'gambit.cli.common.get_sequence_files', 'gambit.cli.common.kspec_from_params', 'gambit.cli.common.warn_duplicate_file_ids',
             'gambit.cli.common.check_params_group', 'gambit.cli.common.print_table', 'gambit.cli.common.get_revision_info',
             'gambit.cli.common.CLIContext.get_database'}     # summarised: the database object of the CLI context
RELEVANT_WORDS = ('kmerspec', 'load_signatures', 'calc_file_signatures', 'jaccarddist', 'query(', 'query_parse')


class Interp:
    def __init__(self, ctx, fi):
        self.ctx, self.fi, self.m = ctx, fi, ctx.model
        self.sinks = []       # (call, callee, ents, ok, explicit_ok, state)
        self.raises = []      # (stmt, state)
        self.outputs = []     # (call, state)
        self.paths = 0
        self.is_dist = fi.qualname.endswith('dist_cmd')
        self.frames = []      # return collectors of inlined helper calls
        self.callsites = []   # text of the helper calls being inlined (innermost last)
        self.inlined = set()
        self.loops = []       # continue / break collectors of the loops being interpreted (innermost last)
        self.receivers = {}   # id(call) -> abstract value of the receiver of an inlined method call
        self.calcs = []       # (call, parameter entity, state) of every calc_file_signatures evaluation
        self.dumps = []       # (call, [file, matrix, row ids, column ids] values, state) of every dump_dmat_csv evaluation
        self.deviations = []  # (node, text, state): a per-genome value taken from somewhere else than its own source

    # ------------------------------------------------------------------ helper inlining
    def inlinable(self, call, st=None):
        """FuncInfo of a helper defined in gambit.cli.* (function, method of the CLI context object, or def nested in the command) that
        handles signatures / parameters: its text mentions them, or a signature source / parameter value flows into it at this call."""
        target = None
        r = self.m.resolve_call(self.fi, call)
        recv = None
        record_ctor = False
        if isinstance(call.func, ast.Attribute) and st is not None and not (r in self.m.functions and self.m.functions[r].cls is None):
            # method call: followed when the receiver is the CLI context object (its class is looked up through the MRO)
            rv = self.ev(call.func.value, st)
            if rv.kind == 'ctxobj':
                mi = self.m.find_method('gambit.cli.common.CLIContext', call.func.attr)
                mi = self.m.functions.get(mi) if isinstance(mi, str) else mi
                if mi is not None and mi.qualname not in NO_INLINE and not any(isinstance(d, ast.Name) and d.id == 'property' for d in mi.decorators):
                    target, recv = mi, rv
        if target is None and r in self.m.functions and r.startswith('gambit.cli.') and r not in NO_INLINE and self.m.functions[r].cls is not None \
                and isinstance(call.func, ast.Attribute) and self.m.resolve(self.fi.module, call.func.value) == self.m.functions[r].cls.qualname:
            # Class.method(...): a classmethod (cls bound to the class) or a staticmethod of a class of the package
            decos = {d.id for d in self.m.functions[r].decorators if isinstance(d, ast.Name)}
            if decos & {'classmethod', 'staticmethod'}:
                target = self.m.functions[r]
                recv = Val('cls', target.cls.qualname) if 'classmethod' in decos else None
                if self.record_class(target.cls.qualname) is not None:
                    record_ctor = True
        if target is None and r in self.m.functions and r.startswith('gambit.cli.') and r not in NO_INLINE and self.m.functions[r].cls is None:
            target = self.m.functions[r]
        elif target is None and isinstance(call.func, ast.Name):
            for n in ast.walk(self.fi.node):
                if isinstance(n, ast.FunctionDef) and n is not self.fi.node and n.name == call.func.id:
                    from ..model import FuncInfo
                    target = FuncInfo(f'{self.fi.qualname}.<locals>.{n.name}', n, self.fi.module)
        if target is None or len(self.frames) >= 4:
            return None
        if any(isinstance(a, ast.Starred) for a in call.args) or any(k.arg is None for k in call.keywords):
            return None
        src = ast.unparse(target.node)
        relevant = any(w in src for w in RELEVANT_WORDS) or (recv is not None and recv.kind == 'ctxobj') or record_ctor
        if not relevant and st is not None:
            vals = [self.ev(a, st) for a in call.args] + [self.ev(k.value, st) for k in call.keywords]
            relevant = any(v.kind in ('sig', 'kspec', 'kspec?', 'db', 'ctxobj') or (v.kind == 'seq' and any(x.kind in ('sig', 'kspec', 'kspec?') for x in v.ent)) for v in vals)
        if not relevant:
            return None
        self.receivers[id(call)] = recv
        return target

    def inline(self, call, target, st):
        """[(return value, caller state)] for every non-raising abstract path through the helper."""
        a = target.node.args
        names = [x.arg for x in a.posonlyargs + a.args]
        bound = {}
        alias = {}
        recv = self.receivers.get(id(call))
        if recv is not None and names:
            bound[names[0]] = recv          # the method's `self`
            names = names[1:]
        for i, arg in enumerate(call.args):
            if i < len(names):
                bound[names[i]] = self.ev(arg, st)
                if isinstance(arg, ast.Name):
                    alias[names[i]] = arg.id
        for k in call.keywords:
            bound[k.arg] = self.ev(k.value, st)
            if isinstance(k.value, ast.Name):
                alias[k.arg] = k.value.id
        defaults = dict(zip(reversed([x.arg for x in a.posonlyargs + a.args]), reversed(a.defaults)))
        for n in names:
            if n not in bound:
                bound[n] = self.ev(defaults[n], st) if n in defaults else UNKNOWN
        for x, d in zip(a.kwonlyargs, a.kw_defaults):
            if x.arg not in bound:
                bound[x.arg] = self.ev(d, st) if d is not None else UNKNOWN
        callee_state = State(bound, st.classes, st.trail + (f'-> {target.name}()',), st.mismatch, st.explicit)
        frame = []
        self.frames.append(frame)
        self.callsites.append(u(call))
        self.inlined.add(target.qualname)
        saved_fi = self.fi
        from ..model import FuncInfo
        self.fi = FuncInfo(target.qualname, target.node, target.module)
        try:
            ends = self.block(target.node.body, [callee_state])
        finally:
            self.fi = saved_fi
            self.frames.pop()
            self.callsites.pop()
        frame += [(NONE, e) for e in ends]
        outs = []
        for val, cst in frame:
            st2 = State(st.env, cst.classes, cst.trail + (f'<- {target.name}()',), cst.mismatch, cst.explicit)
            for p, var in alias.items():
                v = cst.env.get(p)
                if v is not None and v is not st.env.get(var) and st.env.get(var, UNKNOWN).kind in ('unknown', 'kspec?'):
                    st2.env[var] = v          # a refinement of the caller's variable made inside the helper holds afterwards
            outs.append((val, st2))
        return outs

    # ------------------------------------------------------------------ expressions
    def resolve(self, call):
        return self.m.resolve_call(self.fi, call) or (callee(call) or '')

    def opt_tag(self, e, st):
        """how an argument identifies an input: the command parameter it is (also through helper parameters), else its text"""
        v = self.ev(e, st)
        return v.prov[1] if v.prov is not None and v.prov[0] == 'param' else None

    def record_class(self, q):
        """field names of a typing.NamedTuple class of the package, else None: field i of a constructed value is argument i"""
        ci = self.m.classes.get(q)
        if ci is None or 'typing.NamedTuple' not in ci.bases:
            return None
        return tuple(ci.annotations)

    def construct(self, q, call, st):
        fields = self.record_class(q)
        if fields is None or any(isinstance(a, ast.Starred) for a in call.args) or any(k.arg is None for k in call.keywords) or len(call.args) > len(fields):
            return None
        ci = self.m.classes[q]
        vals = {}
        for n, a in zip(fields, call.args):
            vals[n] = self.ev(a, st)
        for k in call.keywords:
            if k.arg not in fields or k.arg in vals:
                return None
            vals[k.arg] = self.ev(k.value, st)
        for n in fields:
            if n not in vals:
                d = ci.class_attrs.get(n)
                dv = getattr(d, 'value', None)
                if dv is None:
                    return None
                vals[n] = self.ev(dv, st)
        return Val('rec', tuple(vals[n] for n in fields), fields)

    def ev(self, e, st):
        if isinstance(e, ast.Constant):
            if e.value is None:
                return NONE
            if e.value is True:
                return TRUE
            if e.value is False:
                return FALSE
            return OTHER
        if isinstance(e, ast.Name):
            if self.m.resolve(self.fi.module, e) == 'gambit.kmers.DEFAULT_KMERSPEC':
                return Val('kspec', 'DEFAULT')
            return st.env.get(e.id, UNKNOWN)
        if isinstance(e, ast.Attribute):
            if self.m.resolve(self.fi.module, e) == 'gambit.kmers.DEFAULT_KMERSPEC':
                return Val('kspec', 'DEFAULT')
            base = self.ev(e.value, st)
            if base.kind == 'rec':
                if e.attr in base.prov:
                    return base.ent[base.prov.index(e.attr)]
                raise Undecided(f'{self.fi.qualname}: attribute {e.attr} of a record with fields {base.prov} at line {e.lineno}')
            if e.attr == 'ids' and base.kind == 'sig':
                return Val('ids', None, base.prov)
            if e.attr == 'kmerspec':
                if base.kind == 'sig':
                    return Val('kspec', base.ent)
                if base.kind == 'none':
                    raise Undecided(f'{self.fi.qualname}: .kmerspec of None at line {e.lineno}')
                return OTHER
            if e.attr == 'signatures' and (base.kind in ('db', 'ctxobj')):
                return Val('sig', 'DB', ('obj', 'DB'))
            if e.attr == 'obj' and base.kind == 'ctx':
                return Val('ctxobj')
            if e.attr == 'obj' and u(e.value) == 'ctx':
                return Val('ctxobj')
            return OTHER
        if isinstance(e, ast.Call):
            if ('call', id(e)) in st.env:
                return st.env[('call', id(e))]
            f = self.resolve(e)
            if isinstance(e.func, ast.Name) and st.env.get(e.func.id, UNKNOWN).kind == 'cls':
                r_ = self.construct(st.env[e.func.id].ent, e, st)           # cls(...) inside a classmethod constructor
                if r_ is not None:
                    return r_
            if f in self.m.classes:
                r_ = self.construct(f, e, st)
                if r_ is not None:
                    return r_
            if f.endswith('load_signatures'):
                tag = (self.opt_tag(e.args[0], st) or u(e.args[0])) if e.args else '?'
                if self.callsites and not (e.args and self.opt_tag(e.args[0], st)):
                    # a load inside an inlined helper is a distinct entity per call site of the helper
                    tag = f'{tag} in ' + ' > '.join(self.callsites)
                return Val('sig', f'load:{tag}', ('obj', f'load:{tag}'))
            if f == 'gambit.cli.common.check_params_group':
                names_, excl_ = get_arg(e, 1, 'names'), get_arg(e, 2, 'exclusive')
                if isinstance(names_, (ast.List, ast.Tuple)) and all(isinstance(x, ast.Constant) and isinstance(x.value, str) for x in names_.elts) and isinstance(excl_, ast.AST) and is_const(excl_, True):
                    st.env[('group', id(e))] = Val('group', tuple(x.value for x in names_.elts))     # at most one of these options is given beyond this call
            for a_ in list(e.args) + [k.value for k in e.keywords]:
                if isinstance(a_, ast.Name) and st.env.get(a_.id, UNKNOWN).kind == 'iter':
                    st.env[a_.id].prov['used'] = True                                  # consumed (partly) by this call
            if u(e.func) == 'next' and 1 <= len(e.args) <= 2 and not e.keywords:
                it_ = self.ev(e.args[0], st)
                if it_.kind == 'gen':
                    if it_.ent:
                        if isinstance(e.args[0], ast.Name):
                            st.env[e.args[0].id] = Val('gen', it_.ent[1:])          # consumed
                        return it_.ent[0]
                    if len(e.args) == 2:
                        return self.ev(e.args[1], st)
                    raise Undecided(f'{self.fi.qualname}: next() of an exhausted generator without default at line {e.lineno}')
            if f.endswith('get_database'):
                return Val('db', 'DB')
            if f == 'gambit.db.refdb.ReferenceDatabase' or f.endswith('.ReferenceDatabase'):
                sg = get_arg(e, 1, 'signatures')
                sv = self.ev(sg, st) if isinstance(sg, ast.AST) else UNKNOWN
                return Val('db', 'DB') if sv.kind == 'sig' and sv.ent == 'DB' else OTHER
            if f.endswith('kspec_from_params'):
                d = get_arg(e, 2, 'default')
                if d not in (None, Ellipsis) and is_const(d, True):
                    return Val('kspec', 'CLI')
                return Val('kspec?', 'CLI')
            if f.endswith('calc_file_signatures'):
                k = self.ev(e.args[0], st) if e.args else UNKNOWN
                if k.kind != 'kspec':
                    raise Undecided(f'{self.fi.qualname}: calc_file_signatures called with {k} at line {e.lineno}')
                self.calcs.append((e, k.ent, st))
                fa = get_arg(e, 1, 'files')
                fv = self.ev(fa, st) if isinstance(fa, ast.AST) else UNKNOWN
                return Val('sig', k.ent, fv.prov if fv.kind == 'files' else None)     # in the order of the files (C13)
            if f.endswith('AnnotatedSignatures') and e.args:
                return self.ev(e.args[0], st)
            if f.endswith('get_sequence_files'):
                tags = [self.opt_tag(a, st) or u(a) for a in e.args if not isinstance(a, ast.Starred)] + [f'{k.arg}={self.opt_tag(k.value, st) or u(k.value)}' for k in e.keywords]
                pv = ('files', ', '.join(tags))
                return Val('seq', (Val('ids', None, pv), Val('files', None, pv)))          # the aligned (ids, files) pair of one call (C08-A1)
            if f == 'gambit.seq.SequenceFile.from_paths' and e.args:
                fv = self.ev(e.args[0], st)
                return fv if fv.kind == 'files' else OTHER                                # one file object per path, in order (C08-A1)
            if u(e.func) in ('list', 'tuple') and len(e.args) == 1 and not e.keywords:
                fv = self.ev(e.args[0], st)
                if fv.kind in ('ids', 'files', 'siglist'):
                    return fv
            if u(e.func) == 'dict' and not e.keywords:
                if not e.args:
                    return Val('map', None)                                   # empty mapping
                z = e.args[0]
                if len(e.args) == 1 and isinstance(z, ast.Call) and (u(z.func) == 'zip' or self.resolve(z).endswith('zip_strict')) and len(z.args) == 2 and not z.keywords:
                    kv_, vv_ = self.ev(z.args[0], st), self.ev(z.args[1], st)
                    if kv_.kind in ('ids', 'files') and kv_.prov is not None:
                        return Val('map', vv_, ('keys', kv_.kind, kv_.prov))  # label (or file) of one side -> value of vv_ at the same position
            if u(e.func) == 'iter' and len(e.args) == 1 and not e.keywords:
                return Val('iter', self.ev(e.args[0], st), {'used': False})       # the flag is shared by every alias of the iterator
            if f == 'gambit.sigs.base.SignatureList' and e.args:
                xv = self.ev(e.args[0], st)
                ka_ = get_arg(e, 1, 'kmerspec')
                kk = self.ev(ka_, st) if isinstance(ka_, ast.AST) else UNKNOWN
                if xv.kind == 'siglist' or (xv.kind == 'seq' and not xv.ent and xv.prov is not None):
                    return Val('sig', kk.ent if kk.kind == 'kspec' else xv.ent, xv.prov)     # the given signatures, in order, declared to have these parameters
            if u(e.func) in ('sorted', 'reversed', 'set', 'frozenset') and e.args:
                fv = self.ev(e.args[0], st)
                if fv.kind in ('ids', 'files'):
                    return Val(fv.kind, None, ('reordered', f'{u(e.func)}() of {fv.prov}'))      # no longer in the order of its source
            if f == 'gambit.metric.jaccarddist_matrix':
                ops = [self.ev(get_arg(e, 0, 'queries'), st), self.ev(get_arg(e, 1, 'refs'), st)]
                self.sink(e, f, st, ops)
                return Val('mat', ('matrix', ops[0].prov, ops[1].prov))
            if f == 'gambit.metric.jaccarddist_pairwise':
                ops = [self.ev(get_arg(e, 0, 'sigs'), st)]
                self.sink(e, f, st, ops)
                return Val('mat', ('pairwise', ops[0].prov, ops[0].prov))
            if f == 'gambit.cluster.dump_dmat_csv':
                names = ['file', 'dmat', 'row_ids', 'col_ids']
                av = [get_arg(e, i, n) for i, n in enumerate(names)]
                self.dumps.append((e, [self.ev(a, st) if isinstance(a, ast.AST) else UNKNOWN for a in av], st))
            if f == 'gambit.query.query':
                self.sink(e, f, st, [Val('sig', 'DB'), self.ev(get_arg(e, 1, 'queries'), st)])
                return OTHER
            if f == 'gambit.query.query_parse':
                self.sink(e, f, st, [Val('sig', 'DB')])
                return OTHER
            if isinstance(e.func, ast.Attribute) and isinstance(e.func.value, ast.Name) and st.env.get(e.func.value.id, UNKNOWN).kind == 'seq':
                st.env[e.func.value.id] = OTHER      # e.g. xs.append(...): the literal contents are no longer the whole story
            if callee_attr(e) == 'export' or f.endswith('dump_dmat_csv') or f.endswith('dump_signatures') or f.endswith('Phylo.write'):
                self.outputs.append((e, st))
            for a in e.args:
                if not isinstance(a, ast.Starred):
                    self.ev(a, st)
            for k in e.keywords:
                self.ev(k.value, st)
            return OTHER
        if isinstance(e, ast.IfExp):
            return st.env.get(('call', id(e)), OTHER)
        if isinstance(e, ast.Subscript):
            bv = self.ev(e.value, st)
            if bv.kind in ('seq', 'rec') and isinstance(e.slice, ast.Constant) and isinstance(e.slice.value, int) and -len(bv.ent) <= e.slice.value < len(bv.ent):
                return bv.ent[e.slice.value]
            if bv.kind in ('ids', 'files', 'sig') and bv.prov is not None:
                if isinstance(e.slice, ast.Slice):
                    return Val(bv.kind, bv.ent, ('reordered', f'slice {u(e.slice)} of {bv.prov}'))      # a selection: not index-aligned with the whole
                return OTHER
            self.ev(e.slice, st) if not isinstance(e.slice, ast.Slice) else None
            return OTHER
        if isinstance(e, (ast.GeneratorExp, ast.ListComp)) and len(e.generators) == 1:
            # a comprehension over a literal sequence is the sequence of its instances (filters must be decided in this state)
            g = e.generators[0]
            src_ = self.ev(g.iter, st)
            if not (src_.kind in ('seq', 'gen') and src_.prov is None):
                r_ = self.comp_aligned(e, g, st)
                if r_ is not None:
                    return r_
            if src_.kind in ('seq', 'gen'):
                out, ok_ = [], True
                for x in src_.ent:
                    s1 = st.copy()
                    self.bind(g.target, x, s1)
                    keep = True
                    for c in g.ifs:
                        outcomes = self.cond(c, s1)
                        if len(outcomes) != 1:
                            ok_ = False
                            break
                        keep = keep and outcomes[0][0]
                        s1 = outcomes[0][1]
                    if not ok_:
                        break
                    if keep:
                        out.append(self.ev(e.elt, s1))
                if ok_:
                    return Val('gen' if isinstance(e, ast.GeneratorExp) else 'seq', tuple(out))
            return OTHER
        if isinstance(e, ast.Dict) and not e.keys:
            return Val('map', None)
        if isinstance(e, (ast.Tuple, ast.List)):
            vals = [self.ev(x.value if isinstance(x, ast.Starred) else x, st) for x in e.elts]
            if any(isinstance(x, ast.Starred) for x in e.elts):
                return OTHER
            return Val('seq', tuple(vals))      # a literal sequence: its elements are known one by one
        return OTHER

    def hoist(self, expr, st, top=True):
        """[state]: what an expression evaluates unconditionally is interpreted first, in evaluation order, and its value remembered per state
        (`ev` then finds it): helper calls are followed, a conditional expression is the two-armed `if` it abbreviates (one state per arm).
        Operands of and/or, lambdas and comprehension bodies are left to `ev`."""
        if expr is None:
            return [st]
        found = []

        def walk(n, is_top):
            if isinstance(n, (ast.Lambda, ast.BoolOp, ast.ListComp, ast.GeneratorExp, ast.SetComp, ast.DictComp)):
                return
            if isinstance(n, ast.IfExp):
                if not is_top:
                    found.append(n)
                return
            for c in ast.iter_child_nodes(n):
                walk(c, False)
            if isinstance(n, ast.Call) and not is_top:
                found.append(n)
        walk(expr, top)
        states = [st]
        for node in found:
            nxt = []
            for s0 in states:
                if isinstance(node, ast.IfExp):
                    for (tv, s1) in self.cond(node.test, s0):
                        arm = node.body if tv else node.orelse
                        for s2 in self.hoist(arm, s1, top=False):
                            s2 = s2.copy()
                            s2.env[('call', id(node))] = self.ev(arm, s2)
                            nxt.append(s2)
                    continue
                target = self.inlinable(node, s0)
                if target is None:
                    nxt.append(s0)
                    continue
                for val, s1 in self.inline(node, target, s0):
                    s1 = s1.copy()
                    s1.env[('call', id(node))] = val
                    nxt.append(s1)
            states = nxt
            if len(states) > MAX_PATHS:
                raise Undecided(f'{self.fi.qualname}: more than {MAX_PATHS} abstract paths')
        return states

    def evs(self, e, st):
        """[(value, state)]: like ev, but a conditional expression is the two-armed `if` it abbreviates (one state per arm)."""
        if isinstance(e, ast.IfExp):
            if ('call', id(e)) in st.env:
                return [(st.env[('call', id(e))], st)]        # already decided for this state
            out = []
            for (tv, s2) in self.cond(e.test, st):
                out += self.evs(e.body if tv else e.orelse, s2)
            return out
        return [(self.ev(e, st), st)]

    ALIGNED = ('ids', 'files', 'sig', 'siglist')

    def comp_aligned(self, e, g, st):
        """A comprehension over one per-genome sequence (or a zip / zip_strict of sequences aligned with each other): the value of the
        element expression is worked out for the generic position i.
          element of a source                      -> that source (all positions) / its sub-sequence (filter that depends on the position)
          next(it), it = iter(U) made for this use  -> U, provided every position takes exactly one and U is aligned with the source
          m[key], m a mapping label -> signature    -> position i holds what the mapping gives for its LABEL: unless the mapping holds this very
                                                      sequence, that is not the value computed from file i (recorded as a deviation)
        None when the form is outside this vocabulary."""
        it = g.iter
        comps = None
        if isinstance(it, ast.Call) and (u(it.func) == 'zip' or self.resolve(it).endswith('zip_strict')) and not it.keywords and isinstance(g.target, ast.Tuple) \
                and len(g.target.elts) == len(it.args) and all(isinstance(t, ast.Name) for t in g.target.elts):
            comps = [(t.id, self.ev(a, st)) for t, a in zip(g.target.elts, it.args)]
        elif isinstance(g.target, ast.Name):
            comps = [(g.target.id, self.ev(it, st))]
        if not comps or any(v.kind not in self.ALIGNED or v.prov is None for _, v in comps) or len({v.prov for _, v in comps}) != 1:
            return None
        p = comps[0][1].prov
        if ('empty', p) in st.env:
            return Val('seq', (), p)                      # no genomes on this path: the result is empty whatever the element expression is
        s1 = st.copy()
        for name, v in comps:
            s1.env[name] = Val('elem', v, p)              # the element at the generic position i of v
        some = None
        for c in g.ifs:
            outs = self.cond(c, s1)
            truths = {tv for tv, _ in outs}
            if truths == {True}:
                s1 = outs[0][1]
            elif truths == {False}:
                return Val('seq', (), p)
            else:
                some = u(c)[:50]                          # depends on the position
        cases = self.elem_cases(e.elt, s1)
        kinds = {c[0] for c in cases}
        if kinds == {'elem'} and len({id(c[1]) for c in cases}) == 1:
            v = cases[0][1]
            return v if some is None else Val(v.kind, v.ent, ('subset', v.prov, some))
        for c in cases:
            if c[0] == 'next':
                fresh = not c[1].prov['used']
                c[1].prov['used'] = True                  # whatever happens, the iterator is no longer at its start
                if not fresh:
                    return None
        if kinds == {'next'} and len({id(c[1]) for c in cases}) == 1 and some is None:
            U = cases[0][1].ent
            if U.prov == p and U.kind in self.ALIGNED:     # a fresh iterator, one element taken per position, as many elements as positions
                return Val('siglist' if U.kind == 'sig' else U.kind, U.ent, p)
            return None
        look = [c for c in cases if c[0] == 'lookup']
        if look and kinds <= {'lookup', 'next'}:
            m_ = look[0][1]
            V = m_.ent
            if V is not None and V.kind in self.ALIGNED and V.prov is not None and V.prov != p and m_.prov[1] != 'files':
                self.deviations.append((look[0][2], f'the value for the genome at position i of {p} is looked up by its LABEL in a mapping filled with the values of {V.prov} '
                                        f'(keys: the labels of {m_.prov[2]}): a genome of this side with the same label as one of the other side gets the other one\'s value, its own file is not used', st))
                return Val('siglist' if V.kind in ('sig', 'siglist') else V.kind, V.ent, ('mixed', p, V.prov))
        return None

    def elem_cases(self, x, st):
        """[(what, value, node)] the element expression can be at the generic position: ('elem', source) | ('next', underlying sequence) |
        ('lookup', mapping) | ('other', value); conditional expressions are followed on both sides unless the test is decided."""
        if isinstance(x, ast.IfExp):
            out = []
            for tv, s2 in self.cond(x.test, st):
                out += self.elem_cases(x.body if tv else x.orelse, s2)
            return out
        if isinstance(x, ast.Call) and u(x.func) == 'next' and len(x.args) == 1 and not x.keywords:
            itv = self.ev(x.args[0], st)
            if itv.kind == 'iter':
                return [('next', itv, x)]
        if isinstance(x, ast.Subscript):
            mv = self.ev(x.value, st)
            kv = self.ev(x.slice, st)
            if mv.kind == 'map' and kv.kind == 'elem':
                return [('lookup', mv, x)]
        v = self.ev(x, st)
        if v.kind == 'elem':
            return [('elem', v.ent, x)]
        return [('other', v, x)]

    def bind(self, target, val, st):
        """Bind an assignment / loop target to an abstract value (element-wise for a literal sequence of the same length)."""
        if isinstance(target, ast.Name):
            st.env[target.id] = val
        elif isinstance(target, (ast.Tuple, ast.List)):
            elts = target.elts
            if val.kind in ('seq', 'rec') and len(val.ent) == len(elts) and not any(isinstance(t, ast.Starred) for t in elts):
                for t, v in zip(elts, val.ent):
                    self.bind(t, v, st)
            else:
                for t in elts:
                    self.bind(t.value if isinstance(t, ast.Starred) else t, OTHER, st)

    def sink(self, call, f, st, vals):
        ents = []
        for v in vals:
            if v.kind != 'sig':
                raise Undecided(f'{self.fi.qualname}: operand of {f.rsplit(".", 1)[1]} is {v}, not a signature source, at line {call.lineno}')
            ents.append(v.ent)
        ok = all(st.same(ents[0], x) for x in ents[1:])
        exp_ok = True
        if self.is_dist and st.explicit is not None:
            exp_ok = all(st.same(st.explicit, x) for x in ents)
        self.sinks.append((call, f, tuple(ents), ok, exp_ok, st))

    # ------------------------------------------------------------------ conditions -> [(truth, state)]
    def cond(self, t, st):
        if isinstance(t, ast.BoolOp):
            is_and = isinstance(t.op, ast.And)
            done, cur = [], [st]
            for v in t.values:
                nxt = []
                for s in cur:
                    for (tv, s2) in self.cond(v, s):
                        if tv == is_and:
                            nxt.append(s2)
                        else:
                            done.append((tv, s2))
                cur = nxt
            return [(is_and, s) for s in cur] + done
        if isinstance(t, ast.UnaryOp) and isinstance(t.op, ast.Not):
            return [(not tv, s) for (tv, s) in self.cond(t.operand, st)]
        if isinstance(t, ast.Compare) and len(t.ops) == 1:
            op, l, r = t.ops[0], t.left, t.comparators[0]
            if is_none(r) and isinstance(op, (ast.Is, ast.IsNot)):
                v = self.ev(l, st)
                want_none = isinstance(op, ast.Is)
                if v.kind in ('unknown', 'kspec?', 'false') and isinstance(l, ast.Name):
                    a = st.copy(f'{l.id} is None')
                    a.env[l.id] = NONE
                    b = st.copy(f'{l.id} is not None')
                    if v.kind == 'kspec?':
                        b.env[l.id] = Val('kspec', v.ent)
                        b.explicit = v.ent
                    else:
                        b.env[l.id] = OTHER
                    return [(want_none, a), (not want_none, b)]
                if v.kind == 'unknown':
                    return [(True, st.copy('?' + u(t)[:40])), (False, st.copy('not ?' + u(t)[:40]))]
                isnone = v.kind == 'none'
                return [(isnone == want_none, st)]
            if isinstance(op, (ast.NotEq, ast.Eq)):
                lv, rv = self.ev(l, st), self.ev(r, st)
                if lv.kind == 'kspec' and rv.kind == 'kspec':
                    if st.same(lv.ent, rv.ent):
                        return [(isinstance(op, ast.Eq), st)]
                    eq = st.copy(f'{u(l)} == {u(r)}')
                    eq.union(lv.ent, rv.ent)
                    ne = st.copy(f'{u(l)} != {u(r)}')
                    if ne.mismatch is None:
                        ne.mismatch = f'{u(l)} != {u(r)}'
                    return [(isinstance(op, ast.Eq), eq), (isinstance(op, ast.NotEq), ne)]
                if {lv.kind, rv.kind} == {'kspec', 'none'}:
                    return [(isinstance(op, ast.NotEq), st)]        # None equals no KmerSpec
                for side, v in ((l, lv), (r, rv)):
                    if v.kind == 'kspec?' and isinstance(side, ast.Name) and 'kspec' in (lv.kind, rv.kind):
                        # an optional parameter value compared without a None test: None equals no KmerSpec; otherwise it is the value
                        a = st.copy(f'{side.id} is None')
                        a.env[side.id] = NONE
                        b = st.copy(f'{side.id} is not None')
                        b.env[side.id] = Val('kspec', v.ent)
                        b.explicit = v.ent
                        return [(isinstance(op, ast.NotEq), a)] + self.cond(t, b)
                if 'kspec' in (lv.kind, rv.kind) or 'kspec?' in (lv.kind, rv.kind):
                    raise Undecided(f'{self.fi.qualname}: comparison of k-mer parameters outside the vocabulary: {u(t)}')
        if isinstance(t, ast.Compare) and len(t.ops) == 1 and isinstance(t.ops[0], (ast.In, ast.NotIn)):
            cv = self.ev(t.comparators[0], st)
            if cv.kind == 'map' and cv.ent is None:
                self.ev(t.left, st)
                return [(isinstance(t.ops[0], ast.NotIn), st)]           # nothing is in an empty mapping
        if isinstance(t, ast.Name):
            v = st.env.get(t.id, UNKNOWN)
            if v.kind in ('none', 'false'):
                return [(False, st)]
            if v.kind in ('ids', 'files', 'siglist') and v.prov is not None and not (isinstance(v.prov, tuple) and v.prov[0] in ('subset', 'mixed')):
                if ('empty', v.prov) in st.env:
                    return [(False, st)]
                a = st.copy(f'{t.id} not empty')
                b = st.copy(f'{t.id} empty')
                b.env[('empty', v.prov)] = TRUE                          # every sequence aligned with it is empty too
                return [(True, a), (False, b)]
            if v.kind in ('true', 'sig', 'kspec', 'db'):
                return [(True, st)]
            if v.kind == 'unknown':
                a = st.copy(t.id)
                a.env[t.id] = TRUE
                b = st.copy(f'not {t.id}')
                b.env[t.id] = FALSE
                return [(True, a), (False, b)]
            if v.kind == 'kspec?':
                a = st.copy(f'{t.id} set')
                a.env[t.id] = Val('kspec', v.ent)
                a.explicit = v.ent
                b = st.copy(f'{t.id} is None')
                b.env[t.id] = NONE
                return [(True, a), (False, b)]
            return [(True, st.copy('?' + t.id)), (False, st.copy('not ?' + t.id))]
        if isinstance(t, ast.Constant):
            return [(bool(t.value), st)]
        self.ev(t, st)
        return [(True, st.copy('?' + u(t)[:40])), (False, st.copy('not ?' + u(t)[:40]))]

    # ------------------------------------------------------------------ statements
    def block(self, stmts, states):
        for s in stmts:
            nxt = []
            for st in states:
                nxt += self.stmt(s, st)
            states = nxt
            if len(states) > MAX_PATHS:
                raise Undecided(f'{self.fi.qualname}: more than {MAX_PATHS} abstract paths')
        return states

    def stmt(self, s, st):
        expr = s.test if isinstance(s, (ast.If, ast.Assert)) else s.value if isinstance(s, (ast.Assign, ast.AnnAssign, ast.Expr, ast.Return)) else None
        if expr is None:
            return self.stmt1(s, st)
        out = []
        for s0 in self.hoist(expr, st, top=isinstance(s, (ast.Assign, ast.Expr)) and isinstance(expr, ast.Call)):
            out += self.stmt1(s, s0)
        return out

    @staticmethod
    def is_test(e):
        """An expression whose value is a truth value (comparison, negation, and/or of those): may be bound to a flag."""
        if isinstance(e, ast.Compare):
            return True
        if isinstance(e, ast.UnaryOp) and isinstance(e.op, ast.Not):
            return True
        return isinstance(e, ast.BoolOp) and all(Interp.is_test(v) for v in e.values)

    def flag(self, e, st):
        """[(TRUE/FALSE, state)] for a test bound to a local: the test is decided where it is written, with everything it refines;
        one state with an unknown flag when the test teaches nothing about signatures / parameters."""
        outs = self.cond(e, st)
        if all(s2.env == st.env and s2.classes == st.classes and s2.mismatch == st.mismatch and s2.explicit == st.explicit for _, s2 in outs):
            return [(UNKNOWN, st)]
        return [(TRUE if tv else FALSE, s2) for tv, s2 in outs]

    def stmt1(self, s, st):
        if isinstance(s, ast.If):
            out = []
            for (tv, s2) in self.cond(s.test, st):
                out += self.block(s.body if tv else s.orelse, [s2])
            return out
        if isinstance(s, ast.Raise):
            self.paths += 1
            self.raises.append((s, st))
            return []
        if isinstance(s, ast.Return):
            for v, s2 in (self.evs(s.value, st) if s.value is not None else [(NONE, st)]):
                if self.frames:
                    self.frames[-1].append((v, s2))
                else:
                    self.paths += 1
            return []
        if isinstance(s, ast.Assert):
            outs = []
            for (tv, s2) in self.cond(s.test, st):
                if tv:
                    outs.append(s2)
                else:
                    self.paths += 1
            return outs
        if isinstance(s, ast.Assign):
            target = self.inlinable(s.value, st) if isinstance(s.value, ast.Call) else None
            outcomes = self.inline(s.value, target, st) if target is not None else self.flag(s.value, st) if self.is_test(s.value) else self.evs(s.value, st)
            outs = []
            for val, st1 in outcomes:
                st1 = st1.copy()
                for t in s.targets:
                    self.bind(t, val, st1)
                outs.append(st1)
            return outs
        if isinstance(s, ast.AnnAssign):
            if s.value is not None and isinstance(s.target, ast.Name):
                st = st.copy()
                st.env[s.target.id] = self.ev(s.value, st)
            return [st]
        if isinstance(s, ast.Expr):
            target = self.inlinable(s.value, st) if isinstance(s.value, ast.Call) else None
            if target is not None:
                return [st1 for _, st1 in self.inline(s.value, target, st)]
            self.ev(s.value, st)
            return [st]
        if isinstance(s, (ast.Pass, ast.Import, ast.ImportFrom, ast.FunctionDef)):
            return [st]
        if isinstance(s, (ast.Continue, ast.Break)):
            if not self.loops:
                raise Undecided(f'{self.fi.qualname}: {type(s).__name__.lower()} outside a loop at line {s.lineno}')
            self.loops[-1]['cont' if isinstance(s, ast.Continue) else 'brk'].append(st)
            return []
        if isinstance(s, ast.For):
            rows = self.ev(s.iter, st)
            if rows.kind == 'seq':
                # a loop over a literal sequence is the body repeated once per element, in order, with the targets bound to that
                # element; `continue` ends the repetition, `break` the loop (skipping its else clause)
                cur, broken = [st], []
                for row in rows.ent:
                    nxt = []
                    for s0 in cur:
                        s1 = s0.copy()
                        self.bind(s.target, row, s1)
                        self.loops.append(dict(cont=[], brk=[]))
                        try:
                            ends = self.block(s.body, [s1])
                        finally:
                            fr = self.loops.pop()
                        nxt += ends + fr['cont']
                        broken += fr['brk']
                    cur = nxt
                    if len(cur) > MAX_PATHS:
                        raise Undecided(f'{self.fi.qualname}: more than {MAX_PATHS} abstract paths')
                if s.orelse:
                    cur = self.block(s.orelse, cur)
                return cur + broken
        if isinstance(s, (ast.For, ast.While)):
            # reporting loops: body executed zero or one time (no state that matters is loop-carried: checked)
            for x in stmts_in(s.body):
                if isinstance(x, (ast.Assign, ast.AugAssign)):
                    for t in (x.targets if isinstance(x, ast.Assign) else [x.target]):
                        for n in ast.walk(t):
                            if isinstance(n, ast.Name) and st.env.get(n.id, UNKNOWN).kind in ('sig', 'kspec', 'kspec?', 'db'):
                                raise Undecided(f'{self.fi.qualname}: loop rebinds a signature/parameter variable ({n.id})')
            first = st.copy()
            if isinstance(s, ast.For):
                self.bind(s.target, OTHER, first)
            self.loops.append(dict(cont=[], brk=[]))
            try:
                once = self.block(s.body, [first])
            finally:
                fr = self.loops.pop()
            after = [st] + once + fr['cont']
            if s.orelse:
                after = self.block(s.orelse, after)
            return after + fr['brk']
        if isinstance(s, ast.With):
            for it in s.items:
                self.ev(it.context_expr, st)
            return self.block(s.body, [st])
        if isinstance(s, ast.Try):
            outs = self.block(s.body, [st.copy()])
            for h in s.handlers:
                outs += self.block(h.body, [st.copy()])
            if s.finalbody:
                outs = self.block(s.finalbody, outs)
            return outs
        raise Undecided(f'{self.fi.qualname}: unsupported statement {type(s).__name__} at line {s.lineno}')

    def run(self):
        st = State()
        for a in self.fi.node.args.args + self.fi.node.args.kwonlyargs:
            st.env[a.arg] = Val('unknown', None, ('param', a.arg))
        ends = self.block(self.fi.node.body, [st])
        self.paths += len(ends)
        return self


# ---------------------------------------------------------------------- option table of kspec_from_params (P3)
class OV:
    """Value of the option-table evaluator: none | given:<param> | const:<python value> | default (DEFAULT_KMERSPEC) |
    kmerspec:(args) | opaque (text, parameters it derives from)."""
    __slots__ = ('kind', 'v', 'deps', 'unk')

    def __init__(self, kind, v=None, deps=frozenset(), unk=False):
        # deps: the parameters the value derives from; unk: an opaque value computed from something the evaluator knew (a None, a
        # None-test, a count of them, a flag): the knowledge is lost, a test on it is not a property of the function but a gap of the domain
        self.kind, self.v, self.deps, self.unk = kind, v, frozenset(deps), unk

    def __repr__(self):
        if self.kind == 'kmerspec':
            return 'KmerSpec(' + ', '.join(map(repr, self.v)) + ')'
        if self.kind == 'const':
            return repr(self.v)
        if self.kind == 'none':
            return 'None'
        if self.kind == 'default':
            return 'DEFAULT_KMERSPEC'
        if self.kind == 'given':
            return f'<{self.v}>'
        if self.kind == 'tuple':
            return '(' + ', '.join(map(repr, self.v)) + ')'
        return f'<value from {sorted(self.deps)}>' if self.deps else '<value>'


class _OptRaise(Exception):
    """an expression that raises for these operands (None < 5, len(None), None.attr)"""

    def __init__(self, cls):
        self.cls = cls


class OptionTable:
    """Finite-domain evaluation of an option-parsing function: every parameter is None or given (flags True/False), every
    abstract path is followed (a test the domain cannot decide forks), the outcome of each path is `return <value>` or
    `raise <class>`.  Decides the rule by what the function does for each combination, not by how the tests are written."""

    def __init__(self, m, fi):
        self.m, self.fi = m, fi

    @staticmethod
    def informed(v):
        return v.unk or (v.kind in ('none', 'const', 'tuple') and bool(v.deps))

    def opaque(self, e, *vals):
        deps = set()
        for v in vals:
            deps |= v.deps
        return OV('opaque', u(e)[:40], deps, unk=any(self.informed(v) for v in vals))

    def const(self, value, *vals):
        deps = set()
        for v in vals:
            deps |= v.deps
        return OV('const', value, deps)

    def elements(self, v):
        """the element values of a literal sequence value, else None"""
        if v.kind == 'tuple':
            return list(v.v)
        if v.kind == 'const' and isinstance(v.v, tuple):
            return [OV('const', x, v.deps) for x in v.v]
        return None

    def sequence(self, vals):
        if all(v.kind == 'const' for v in vals):
            return self.const(tuple(v.v for v in vals), *vals)
        return OV('tuple', tuple(vals), set().union(*[v.deps for v in vals]) if vals else ())

    def ev(self, e, env):
        if isinstance(e, ast.Constant):
            return OV('none') if e.value is None else OV('const', e.value)
        if isinstance(e, ast.Name):
            if e.id in env:
                return env[e.id]
            if self.m.resolve(self.fi.module, e) == 'gambit.kmers.DEFAULT_KMERSPEC':
                return OV('default')
            return OV('opaque', e.id)
        if isinstance(e, ast.Attribute):
            if self.m.resolve(self.fi.module, e) == 'gambit.kmers.DEFAULT_KMERSPEC':
                return OV('default')
            b = self.ev(e.value, env)
            if b.kind == 'none':
                raise _OptRaise('AttributeError')
            return self.opaque(e, b)
        if isinstance(e, ast.UnaryOp) and isinstance(e.op, ast.Not):
            ov = self.ev(e.operand, env)
            t = self.truth(ov)
            return self.const(not t, ov) if t is not None else self.opaque(e, ov)
        if isinstance(e, ast.BoolOp):
            is_and = isinstance(e.op, ast.And)
            seen = []
            for x in e.values:
                v = self.ev(x, env)
                t = self.truth(v)
                if t is None:
                    seen.append(v)
                    continue
                if t != is_and:          # decides the whole expression unless an undecidable operand came first
                    return v if not seen else self.opaque(e, *seen, v)
            return self.opaque(e, *seen) if seen else OV('const', is_and)
        if isinstance(e, ast.Compare) and len(e.ops) == 1:
            l, r, op = self.ev(e.left, env), self.ev(e.comparators[0], env), e.ops[0]
            if isinstance(op, (ast.Is, ast.IsNot)) and 'none' in (l.kind, r.kind):
                o = r if l.kind == 'none' else l
                if o.kind != 'opaque':
                    return self.const((o.kind == 'none') == isinstance(op, ast.Is), l, r)
            if isinstance(op, (ast.Lt, ast.LtE, ast.Gt, ast.GtE)) and 'none' in (l.kind, r.kind) and 'opaque' not in (l.kind, r.kind):
                raise _OptRaise('TypeError')           # None is not ordered
            if l.kind == r.kind == 'const':
                try:
                    return self.const({ast.Eq: l.v == r.v, ast.NotEq: l.v != r.v, ast.Lt: l.v < r.v, ast.LtE: l.v <= r.v, ast.Gt: l.v > r.v, ast.GtE: l.v >= r.v,
                                        ast.Is: l.v is r.v, ast.IsNot: l.v is not r.v}[type(op)], l, r)
                except (KeyError, TypeError):
                    pass
            return self.opaque(e, l, r)
        if isinstance(e, ast.BinOp):
            l, r = self.ev(e.left, env), self.ev(e.right, env)
            if l.kind == r.kind == 'const' and isinstance(l.v, (bool, int)) and isinstance(r.v, (bool, int)) and isinstance(e.op, (ast.Add, ast.Sub, ast.Mult)):
                return self.const(l.v + r.v if isinstance(e.op, ast.Add) else l.v - r.v if isinstance(e.op, ast.Sub) else l.v * r.v, l, r)
            if 'none' in (l.kind, r.kind) and 'opaque' not in (l.kind, r.kind):
                raise _OptRaise('TypeError')
            return self.opaque(e, l, r)
        if isinstance(e, ast.IfExp):
            tv = self.ev(e.test, env)
            t = self.truth(tv)
            if t is None:
                return self.opaque(e, tv, self.ev(e.body, env), self.ev(e.orelse, env))
            return self.ev(e.body if t else e.orelse, env)
        if isinstance(e, ast.Call):
            args = [self.ev(a.value if isinstance(a, ast.Starred) else a, env) for a in e.args] + [self.ev(k.value, env) for k in e.keywords]
            f = self.m.resolve_call(self.fi, e) or ''
            if f == 'gambit.kmers.KmerSpec' and not e.keywords and not any(isinstance(a, ast.Starred) for a in e.args):
                return OV('kmerspec', tuple(args), set().union(*[a.deps for a in args]) if args else ())
            fn_ = u(e.func)
            if fn_ in ('int', 'bool', 'sum', 'len', 'any', 'all', 'min', 'max', 'tuple', 'list') and len(args) == 1 and not e.keywords:
                a = args[0]
                if fn_ == 'len' and a.kind == 'none':
                    raise _OptRaise('TypeError')
                els = self.elements(a)
                if fn_ in ('tuple', 'list') and els is not None:
                    return self.sequence(els)
                if fn_ == 'len' and els is not None:
                    return self.const(len(els))
                if a.kind == 'const':
                    try:
                        return self.const({'int': int, 'bool': bool, 'sum': sum, 'len': len, 'any': any, 'all': all, 'min': min, 'max': max}[fn_](a.v), a)
                    except Exception:
                        pass
            base = [self.ev(e.func.value, env)] if isinstance(e.func, ast.Attribute) else []
            return self.opaque(e, *args, *base)
        if isinstance(e, (ast.Tuple, ast.List)):
            vals = [self.ev(x, env) for x in e.elts if not isinstance(x, ast.Starred)]
            if len(vals) == len(e.elts):
                return self.sequence(vals)
            return self.opaque(e, *vals)
        if isinstance(e, (ast.GeneratorExp, ast.ListComp)) and len(e.generators) == 1 and isinstance(e.generators[0].target, ast.Name):
            # a comprehension over a literal sequence is the sequence of its instances
            g = e.generators[0]
            els = self.elements(self.ev(g.iter, env))
            if els is not None:
                out = []
                for x in els:
                    env2 = dict(env)
                    env2[g.target.id] = x
                    keep = [self.truth(self.ev(c, env2)) for c in g.ifs]
                    if any(k is None for k in keep):
                        out = None
                        break
                    if all(keep):
                        out.append(self.ev(e.elt, env2))
                if out is not None:
                    return self.sequence(out)
        inside = [env[n.id] for n in ast.walk(e) if isinstance(n, ast.Name) and n.id in env and isinstance(env[n.id], OV)]
        return OV('opaque', u(e)[:40], set().union(*[v.deps for v in inside]) if inside else (), unk=any(self.informed(v) for v in inside))

    @staticmethod
    def truth(v):
        if v.kind == 'none':
            return False
        if v.kind == 'const':
            return bool(v.v)
        return None      # a given option value (0, '') / an object: not decided here

    def forks(self, test, env):
        """[(truth, env)]: both ways when the domain cannot decide; a test on a value whose knowledge was lost marks the path uncertain"""
        v = self.ev(test, env)
        t = self.truth(v)
        if t is not None:
            return [(t, env)]
        if v.kind == 'opaque' and v.unk and '@unc' not in env:
            env = dict(env)
            env['@unc'] = OV('opaque', u(test)[:60])
        return [(True, env), (False, env)]

    def block(self, stmts, env):
        """[(kind, payload, env)] with kind in fall / return / raise."""
        states = [env]
        outs = []
        for s in stmts:
            nxt = []
            for e in states:
                for kind, payload, e2 in self.stmt(s, e):
                    if kind == 'fall':
                        nxt.append(e2)
                    else:
                        outs.append((kind, payload, e2))
            states = nxt
            if len(states) + len(outs) > 4096:
                raise Undecided(f'{self.fi.qualname}: too many abstract paths in the option table')
        return outs + [('fall', None, e) for e in states]

    def stmt(self, s, env):
        try:
            return self.stmt1(s, env)
        except _OptRaise as x:
            return [('raise', (x.cls, s), env)]

    def stmt1(self, s, env):
        if isinstance(s, ast.If):
            out = []
            for t, e2 in self.forks(s.test, env):
                out += self.block(s.body if t else s.orelse, dict(e2))
            return out
        if isinstance(s, ast.Return):
            v = self.ev(s.value, env) if s.value is not None else OV('none')
            if v.kind == 'opaque' and v.unk and '@unc' not in env:
                env = dict(env)
                env['@unc'] = OV('opaque', u(s.value)[:60])
            return [('return', (v, s), env)]
        if isinstance(s, ast.Raise):
            rc = None
            if s.exc is not None:
                ex = s.exc.func if isinstance(s.exc, ast.Call) else s.exc
                rc = self.m.resolve(self.fi.module, ex) or u(ex)
            return [('raise', (rc, s), env)]
        if isinstance(s, (ast.Assign, ast.AnnAssign, ast.AugAssign)):
            env = dict(env)
            if isinstance(s, ast.AugAssign):
                v = self.ev(ast.BinOp(left=ast.Name(id=u(s.target), ctx=ast.Load()), op=s.op, right=s.value), env) if isinstance(s.target, ast.Name) else OV('opaque', u(s))
                targets = [s.target]
            else:
                if s.value is None:
                    return [('fall', None, env)]
                v = self.ev(s.value, env)
                targets = s.targets if isinstance(s, ast.Assign) else [s.target]
            for t in targets:
                els = self.elements(v) if isinstance(t, (ast.Tuple, ast.List)) else None
                if isinstance(t, ast.Name):
                    env[t.id] = v
                elif els is not None and len(els) == len(t.elts) and all(isinstance(x, ast.Name) for x in t.elts):
                    for x, xv in zip(t.elts, els):
                        env[x.id] = xv
                else:
                    for n in ast.walk(t):
                        if isinstance(n, ast.Name) and isinstance(n.ctx, ast.Store):
                            env[n.id] = OV('opaque', u(s.value)[:40] if getattr(s, 'value', None) is not None else n.id, v.deps)
            return [('fall', None, env)]
        if isinstance(s, ast.Assert):
            out = []
            for t, e2 in self.forks(s.test, env):
                out.append(('fall', None, e2) if t else ('raise', ('AssertionError', s), e2))
            return out
        if isinstance(s, ast.Expr):
            self.ev(s.value, env)
            return [('fall', None, env)]
        if isinstance(s, (ast.Pass, ast.Import, ast.ImportFrom)):
            return [('fall', None, env)]
        if isinstance(s, ast.Try):
            out = []
            for kind, payload, e2 in self.block(s.body, dict(env)):
                if kind == 'fall' and s.orelse:
                    out += self.block(s.orelse, e2)
                else:
                    out.append((kind, payload, e2))
            # any call in the body may raise: every handler is entered with the bindings of the body unknown
            henv = dict(env)
            for x in stmts_in(s.body):
                for t in (x.targets if isinstance(x, ast.Assign) else []):
                    for n in ast.walk(t):
                        if isinstance(n, ast.Name):
                            henv[n.id] = OV('opaque', n.id, set().union(*[v.deps for v in env.values()]))
            for h in s.handlers:
                e3 = dict(henv)
                if h.name:
                    e3[h.name] = OV('opaque', h.name)
                out += self.block(h.body, e3)
            if s.finalbody:
                res = []
                for kind, payload, e2 in out:
                    for k2, p2, e3 in self.block(s.finalbody, e2):
                        res.append((kind, payload, e3) if k2 == 'fall' else (k2, p2, e3))
                out = res
            return out
        raise Undecided(f'{self.fi.qualname}: {type(s).__name__} statement at line {s.lineno} is outside the option-table evaluator')

    def outcomes(self, binding):
        """[(kind, payload, uncertain)] for one combination {param: OV}; falling off the end returns None.  uncertain = text of a test
        the domain could not evaluate although it depends on what the domain knows (both branches were followed), else None."""
        res = []
        for kind, payload, env in self.block(self.fi.node.body, dict(binding)):
            unc = env['@unc'].v if '@unc' in env else None
            res.append(('return', (OV('none'), None), unc) if kind == 'fall' else (kind, payload, unc))
        return res


def is_click_command(fi):
    for d in fi.decorators:
        if isinstance(d, ast.Call) and isinstance(d.func, ast.Attribute) and d.func.attr == 'command':
            return True
    return False


def check_commands(ctx, only=None):
    rep, m = ctx.rep, ctx.model
    cmds = [f for f in m.functions.values() if f.module.name.startswith('gambit.cli.') and f.cls is None and is_click_command(f)
            and (only is None or f.qualname in only)]
    analysed = 0
    total_paths = total_sinks = 0
    for fi in sorted(cmds, key=lambda f: f.qualname):
        if fi.qualname in EXEMPT_COMMANDS:
            continue
        rep.functions.add(fi.qualname)
        analysed += 1
        it = Interp(ctx, fi).run()
        total_paths += it.paths
        total_sinks += len(it.sinks)
        rep.info.setdefault('abstract_paths', {})[fi.qualname] = dict(paths=it.paths, sink_evaluations=len(it.sinks), raises=len(it.raises))
        # P1 / P2 per sink call site
        by_site = {}
        for (call, f, ents, ok, exp_ok, st) in it.sinks:
            rec = by_site.setdefault(call, dict(f=f, n=0, bad=[], badx=[]))
            rec['n'] += 1
            if not ok:
                rec['bad'].append((ents, st))
            if not exp_ok:
                rec['badx'].append((ents, st))
        for call, rec in by_site.items():
            rep.call_sites += 1
            name = rec['f'].rsplit('.', 1)[1]
            bad = rec['bad']
            ex = ''
            if bad:
                ents, st = bad[0]
                ex = f'sources {ents} not known equal on path: ' + ' ; '.join(st.trail[-7:])
            rep.add('P1', fi.site(call), f'at the {name} sink all signature operands have known-equal k-mer parameters on every abstract path ({rec["n"]} paths)', not bad,
                    expected='one equality class', found=ex or 'ok', stmt=call, construct=fi.qualname)
            if it.is_dist:
                badx = rec['badx']
                ex = ''
                if badx:
                    ents, st = badx[0]
                    ex = f'explicit -k/--prefix not known equal to {ents} on path: ' + ' ; '.join(st.trail[-7:])
                rep.add('P2', fi.site(call), f'explicit -k/--prefix present on the path agree with every operand of the {name} sink', not badx, expected='explicit parameters in the operand class',
                        found=ex or 'ok', stmt=call, construct=fi.qualname)
        # P4: mismatch paths end in a click exception
        bad_raise = []
        n_mis = 0
        for (s, st) in it.raises:
            if st.mismatch is None:
                continue
            n_mis += 1
            cls = raised_name(s)
            rc = m.resolve(fi.module, s.exc.func if isinstance(s.exc, ast.Call) else s.exc) if s.exc is not None else None
            if (cls not in CLICK_ERRORS) and (rc not in CLICK_ERRORS):
                bad_raise.append((cls, st.mismatch))
        if n_mis:
            rep.add('P4', fi.site(), f'every "parameters differ" path ({n_mis}) ends in a click exception (non-zero exit, nothing written)', not bad_raise, expected='raise click.ClickException',
                    found=bad_raise[:3] or 'ok', stmt='mismatch exits', construct=fi.qualname)
        # outputs come after sinks only on clean paths
        bad_out = [(u(c.func), st.mismatch) for (c, st) in it.outputs if st.mismatch is not None]
        if it.outputs:
            rep.add('P4', fi.site(), 'no output call is reachable on a path that saw differing parameters', not bad_out, expected='none', found=bad_out[:3] or 'ok', stmt='outputs after mismatch', construct=fi.qualname)
    rep.floor('P1', 'signature-handling commands analysed', analysed, 5 if only is None else len(only))
    rep.info['abstract_paths_total'] = total_paths
    rep.info['sink_evaluations_total'] = total_sinks
    rep.floor('P1', 'sink evaluations', total_sinks, 10 if only is None else 1)


def check_summaries(ctx):
    rep, m = ctx.rep, ctx.model
    fq = m.func('gambit.query.query_parse')
    rep.functions.add(fq.qualname)
    dbp = fq.params()[0]
    calcs = [c for c in calls_in(fq.node) if (m.resolve_call(fq, c) or callee(c) or '').endswith('calc_file_signatures')]
    ok = len(calcs) == 1 and u(calcs[0].args[0]) == f'{dbp}.signatures.kmerspec'
    rep.add('P1', fq.site(calcs[0] if calcs else None), "query_parse (summarised as single-source) computes the query signatures with the database's own parameters", ok,
            expected=f'calc_file_signatures({dbp}.signatures.kmerspec, ...)', found=[u(c)[:70] for c in calcs], stmt='query_parse kspec')
    qs = [c for c in calls_in(fq.node) if m.resolve_call(fq, c) == 'gambit.query.query']
    okq = len(qs) == 1 and u(qs[0].args[0]) == dbp
    if okq and isinstance(qs[0].args[1], ast.Name) and calcs:
        st = next(s for s in fq.node.body if any(x is qs[0] for x in ast.walk(s)))
        d = reaching_def(fq.node, qs[0].args[1].id, st)
        okq = def_value(d) is calcs[0] if d not in (None, PARAM, AMBIGUOUS) else False
    rep.add('P1', fq.site(qs[0] if qs else None), 'and queries the same database with exactly those signatures', okq, expected=f'query({dbp}, <those signatures>, ...)', found=[u(c)[:70] for c in qs], stmt='query_parse query')
    # P3 kspec_from_params
    fk = m.func('gambit.cli.common.kspec_from_params')
    rep.functions.add(fk.qualname)
    kp, pp = fk.params()[:2]
    rep.require('default' in fk.params(), 'kspec_from_params: no `default` flag parameter')
    # what the function does for each of the 2 x 2 x 2 combinations (k given?, prefix given?, default flag), every abstract path
    tab = OptionTable(m, fk)
    combos = {}
    for kg in (False, True):
        for pg in (False, True):
            for df in (False, True):
                binding = {kp: OV('given', kp, {kp}) if kg else OV('none', None, {kp}), pp: OV('given', pp, {pp}) if pg else OV('none', None, {pp}), 'default': OV('const', df, {'default'})}
                for extra in fk.params():
                    binding.setdefault(extra, OV('opaque', extra))
                combos[(kg, pg, df)] = tab.outcomes(binding)

    def show(c, o):
        kind, (v, st), unc = o
        return f'-k {"given" if c[0] else "absent"}, --prefix {"given" if c[1] else "absent"}, default={c[2]}: {kind}s {v}'

    def site_of(outs):
        st = next((o[1][1] for o in outs if o[1][1] is not None), None)
        return fk.site(st)
    gaps = []

    def decide(what, pool, is_ok, expected, stmt, empty='no such path'):
        """a deviation on a path the domain followed exactly is a violation; one that exists only beyond a test the domain could not
        evaluate is a gap of the domain (undecided, the test named); otherwise discharged"""
        bad = [(c, o) for (c, o) in pool if not is_ok(c, o)]
        sure = [(c, o) for (c, o) in bad if o[2] is None]
        if bad and not sure:
            gaps.append(f'kspec_from_params: cannot evaluate the test `{bad[0][1][2]}` ({what})')
            return
        rep.add('P3', site_of([o for _, o in (sure or pool)]), what, bool(pool) and not sure, expected=expected, found=[show(c, o) for c, o in sure][:3] or ('ok' if pool else empty), stmt=stmt)
    decide('-k and --prefix must be given together (exactly one given is an error)', [(c, o) for c, outs in combos.items() if c[0] != c[1] for o in outs],
           lambda c, o: o[0] == 'raise' and o[1][0] in CLICK_ERRORS, 'raise click.ClickException on every path with exactly one of -k / --prefix', 'both-or-neither')
    decide('no explicit parameters: None (caller decides) unless the caller asked for the default', [(c, o) for c, outs in combos.items() if not c[0] and not c[1] for o in outs],
           lambda c, o: o[0] == 'return' and o[1][0].kind == ('default' if c[2] else 'none'), 'return DEFAULT_KMERSPEC if default else None', 'no parameters')

    def is_spec(v):
        return v.kind == 'kmerspec' and len(v.v) == 2 and v.v[0].kind == 'given' and v.v[0].v == kp and v.v[1].deps == {pp} and v.v[1].kind in ('given', 'opaque')
    decide('explicit parameters become the KmerSpec of exactly that k and prefix', [(c, o) for c, outs in combos.items() if c[0] and c[1] for o in outs if o[0] == 'return'],
           lambda c, o: is_spec(o[1][0]), f'KmerSpec({kp}, <prefix bytes>)', 'explicit parameters', empty='no path returns a value')
    d = fk.param_default('default')
    rep.add('P3', fk.site(), 'callers get None, not silently the default, unless they ask', d is not None and is_const(d, False), expected='default=False', found=u(d), stmt='default flag')
    # signatures create
    fc = m.func('gambit.cli.signatures.create')
    rep.functions.add(fc.qualname)
    # decided on the abstract paths of the command (same interpreter as P1): which parameters reach the computation for each combination
    # of (--db-params given?, explicit -k/--prefix given?), however the tests are nested
    flag = 'db_params'
    rep.require(flag in fc.params(), 'signatures create: no db_params option parameter')
    it = Interp(ctx, fc).run()
    rep.require(bool(it.calcs), 'signatures create: no calc_file_signatures call is reached')

    def dbp(st):
        v = st.env.get(flag, UNKNOWN)
        return True if v.kind == 'true' else False if v.kind == 'false' else None

    def where(st):
        return f'--db-params {"given" if dbp(st) else "not consulted" if dbp(st) is None else "absent"}, -k/--prefix {"given" if st.explicit else "absent"}'
    c0 = it.calcs[0][0]
    # 1. explicit parameters together with --db-params never reach the computation; that combination ends in a click error
    bad = [(e, st) for (_, e, st) in it.calcs if st.explicit is not None and dbp(st) is not False]
    excl = [(r, st) for (r, st) in it.raises if st.explicit is not None and dbp(st) is True]
    notclick = [u(r)[:50] for (r, st) in excl if r.exc is None or m.resolve(fc.module, r.exc.func if isinstance(r.exc, ast.Call) else r.exc) not in CLICK_ERRORS]
    rep.add('P3', fc.site(excl[0][0] if excl else c0), 'signatures create: explicit -k/--prefix together with --db-params is an error', not bad and bool(excl) and not notclick,
            expected='raise click.ClickException under db_params and kspec is not None', found=[f'computes with {e} when {where(st)}' for e, st in bad][:3] or notclick or ('ok' if excl else 'no error exit for that combination'), stmt='create exclusivity')
    # 2. --db-params: the database's parameters, and only then
    with_db = [(e, st) for (_, e, st) in it.calcs if dbp(st) is True]
    bad = [(e, st) for (e, st) in with_db if e != 'DB'] + [(e, st) for (_, e, st) in it.calcs if e == 'DB' and dbp(st) is not True]
    rep.add('P3', fc.site(c0), "--db-params takes the parameters from the database's signatures", bool(with_db) and not bad, expected='kspec = ctx.obj.signatures.kmerspec under db_params',
            found=[f'computes with {e} when {where(st)}' for e, st in bad][:3] or ('ok' if with_db else 'no path computes signatures under --db-params'), stmt='create db params')
    # 3. the default only when nothing else was asked for
    plain = [(e, st) for (_, e, st) in it.calcs if dbp(st) is False and st.explicit is None]
    bad = [(e, st) for (e, st) in plain if e != 'DEFAULT'] + [(e, st) for (_, e, st) in it.calcs if e == 'DEFAULT' and not (dbp(st) is False and st.explicit is None)]
    rep.add('P3', fc.site(c0), 'the default parameters are used only when neither explicit parameters nor --db-params are given', bool(plain) and not bad, expected='elif kspec is None: kspec = DEFAULT_KMERSPEC',
            found=[f'computes with {e} when {where(st)}' for e, st in bad][:3] or ('ok' if plain else 'no path for that combination'), stmt='create default')
    # 4. explicit parameters are the ones used
    expl = [(e, st) for (_, e, st) in it.calcs if st.explicit is not None]
    bad = [(e, st) for (e, st) in expl if e != st.explicit]
    rep.add('P3', fc.site(c0), 'signatures are computed with the reconciled parameters', bool(expl) and not bad, expected='calc_file_signatures(kspec, ...)',
            found=[f'computes with {e} when {where(st)}' for e, st in bad][:3] or ('ok' if expl else 'no path computes with explicit parameters'), stmt='create compute')
    rep.require(not gaps, gaps[0] if gaps else '')

def check(ctx):
    rep = ctx.rep
    rep.rule('P1', 'sink rule: abstract interpretation (None-ness x equality classes) of every click command, all abstract paths enumerated')
    rep.rule('P2', 'dist: explicit -k/--prefix present on a path are in the class of every sink operand')
    rep.rule('P3', 'option discipline: -k/--prefix together; --db-params exclusive; defaults only without a source')
    rep.rule('P4', 'every differ-path ends in raise click.ClickException; no output call on such a path')
    rep.trusted += ['click turns ClickException into a non-zero exit status and prints the message', 'KmerSpec equality compares (k, prefix) (C20-X7)']
    rep.assumptions += ['Library functions query()/jaccarddist_matrix() themselves do not check parameters; the property is about the command line (statement).']
    check_commands(ctx)
    check_summaries(ctx)


from ..variants import V  # noqa: E402

_D = 'src/gambit/cli/dist.py'
_Q = 'src/gambit/cli/query.py'
_S = 'src/gambit/cli/signatures.py'
_CM = 'src/gambit/cli/common.py'
_G1 = """		if query_sigs is not None and ref_sigs is not None and query_sigs.kmerspec != ref_sigs.kmerspec:
			raise click.ClickException(
				f'K-mer search parameters of query signatures ({fmt_kspec(query_sigs.kmerspec)}) do '
				f'not match those of reference signatures ({fmt_kspec(ref_sigs.kmerspec)}).'
			)
"""
_G2 = """		if query_sigs is not None and query_sigs.kmerspec != kspec:
			raise click.ClickException(
				f'K-mer search parameters from command line options ({fmt_kspec(kspec)}) do not '
				f'match those of query signatures ({fmt_kspec(query_sigs.kmerspec)}).')
"""
_G3 = """		if ref_sigs is not None and ref_sigs.kmerspec != kspec:
			raise click.ClickException(
				f'K-mer search parameters from command line options ({fmt_kspec(kspec)}) do not '
				f'match those of reference signatures ({fmt_kspec(ref_sigs.kmerspec)}).')
"""
_CHAIN = "\t\tif query_sigs is not None:\n\t\t\tkspec = query_sigs.kmerspec\n\t\telif ref_sigs is not None:\n\t\t\tkspec = ref_sigs.kmerspec\n\t\telse:\n\t\t\tkspec = DEFAULT_KMERSPEC\n"
_KFP = "\tif prefix is None and k is None:\n\t\treturn DEFAULT_KMERSPEC if default else None\n\n\tif prefix is None or k is None:\n\t\traise click.ClickException('Must specify values for both -k and --prefix arguments.')\n"
_HOOK = "################################################################################\n# Sequence file input\n"
_HELPER = ("def check_kspecs(kspec1, source1, kspec2, source2):\n\tif kspec1 == kspec2:\n\t\treturn\n\n"
           "\traise click.ClickException(f'K-mer search parameters {source1} do not match those of {source2}.')\n\n\n")
_RECON = "\tif kspec is None:\n" + _G1 + _CHAIN + "\n\telse:\n" + _G2 + _G3
_WALK = ("\texplicit = kspec is not None\n\n\tif query_sigs is not None:\n\t\tif not explicit:\n\t\t\tkspec = query_sigs.kmerspec\n\t\telif query_sigs.kmerspec != kspec:\n"
         "\t\t\traise click.ClickException('K-mer search parameters from command line options do not match those of query signatures.')\n\n"
         "\tif ref_sigs is not None:\n\t\tif kspec is None:\n\t\t\tkspec = ref_sigs.kmerspec\n\t\telif ref_sigs.kmerspec != kspec:\n\t\t\tif explicit:\n"
         "\t\t\t\traise click.ClickException('K-mer search parameters from command line options do not match those of reference signatures.')\n"
         "\t\t\traise click.ClickException('K-mer search parameters of query signatures do not match those of reference signatures.')\n\n"
         "\tif kspec is None:\n\t\tkspec = DEFAULT_KMERSPEC\n")
_CREATE = ("\tif db_params:\n\t\tif kspec is None:\n\t\t\tctxobj = ctx.obj  # type: common.CLIContext\n\t\t\tctxobj.require_signatures()\n\t\t\tkspec = ctx.obj.signatures.kmerspec\n"
           "\t\telse:\n\t\t\traise click.ClickException('The -k/--prefix and --db-params options are mutually exclusive.')\n\n\telif kspec is None:\n\t\tkspec = DEFAULT_KMERSPEC\n")
_CREATE2 = ("\tif db_params and kspec is not None:\n\t\traise click.ClickException('The -k/--prefix and --db-params options are mutually exclusive.')\n\n"
            "\tif kspec is None:\n\t\tif db_params:\n\t\t\tctxobj = ctx.obj\n\t\t\tkspec = ctxobj.get_signatures().kmerspec\n\t\telse:\n\t\t\tkspec = DEFAULT_KMERSPEC\n")
_GETDB = "\tdef get_database(self) -> ReferenceDatabase:\n"
_GETSIG = "\tdef get_signatures(self):\n\t\tself.require_signatures()\n\t\treturn self.signatures\n\n"
_IMP = "from typing import Optional, TextIO\n"
_RECCLS = ("class SideInput(NamedTuple):\n\tids: list\n\tfiles: Optional[list]\n\tsigs: Optional[object]\n\n\t@classmethod\n\tdef from_signatures(cls, sigs):\n\t\treturn cls(sigs.ids, None, sigs)\n\n"
           "\t@classmethod\n\tdef from_files(cls, explicit, listfile, listfile_dir):\n\t\tids, files = common.get_sequence_files(explicit, listfile, listfile_dir)\n\t\treturn cls(ids, files, None)\n\n\n")
_QSEL = ("\tif qs is not None:\n\t\tquery_sigs = load_signatures(qs)\n\t\tquery_ids = query_sigs.ids\n\t\tquery_files = None\n\telse:\n\t\tquery_ids, query_files = common.get_sequence_files(q, ql, qdir)\n\t\tquery_sigs = None\n")
_QREC = "\tif qs is not None:\n\t\tquery = SideInput.from_signatures(load_signatures(qs))\n\telse:\n\t\tquery = SideInput.from_files(q, ql, qdir)\n\tquery_ids, query_files, query_sigs = query\n"
_RSEL = ("\tif rs is not None:\n\t\tref_sigs = load_signatures(rs)\n\t\tref_ids = ref_sigs.ids\n\t\tref_files = None\n\telif use_db:\n\t\tctxobj = ctx.obj  # type: common.CLIContext\n\t\tctxobj.require_signatures()\n\t\tref_sigs = ctxobj.signatures\n\t\tref_ids = ref_sigs.ids\n\t\tref_files = None\n"
         "\telif square:\n\t\tref_ids = query_ids\n\t\tref_files = ref_sigs = None\n\telse:\n\t\tref_ids, ref_files = common.get_sequence_files(r, rl, rdir)\n\t\tref_sigs = None\n")
_RREC = ("\tif rs is not None:\n\t\tref = SideInput.from_signatures(load_signatures(rs))\n\telif use_db:\n\t\tctxobj = ctx.obj\n\t\tctxobj.require_signatures()\n\t\tref = SideInput.from_signatures(ctxobj.signatures)\n"
         "\telif square:\n\t\tref = SideInput(query.ids, None, None)\n\telse:\n\t\tref = SideInput.from_files(r, rl, rdir)\n\tref_ids, ref_files, ref_sigs = ref\n")
_CMDDEC = "@cli.command(name='dist', no_args_is_help=True)\n"


def _rec(qrec=_QREC, rrec=_RREC, cls=_RECCLS, extra=()):
    """edits turning the six parallel locals of dist_cmd into one NamedTuple per side (first edit = (file, old, new) of the V itself)"""
    return [(_D, _RSEL, rrec), (_D, _IMP, "from typing import Optional, TextIO, NamedTuple\n"), (_D, _CMDDEC, cls + _CMDDEC)] + list(extra)


VARIANTS = [
    V('query -s guard removed (the repaired defect)', 'B', _Q, "\t\tif sigs.kmerspec != db.signatures.kmerspec:\n", "\t\tif False:\n", 'P1'),
    V('dist guard 1 removed', 'B', _D, _G1, "", 'P1'),
    V('dist guard 2 removed', 'B', _D, _G2, "", 'P'),
    V('dist guard 3 removed', 'B', _D, _G3, "", 'P'),
    V('dist guard 3 compares the wrong pair', 'B', _D, "if ref_sigs is not None and ref_sigs.kmerspec != kspec:", "if ref_sigs is not None and ref_sigs.kmerspec != ref_sigs.kmerspec:", 'P'),
    V('kspec taken from the reference first', 'B', _D, "\t\tif query_sigs is not None:\n\t\t\tkspec = query_sigs.kmerspec\n\t\telif ref_sigs is not None:\n\t\t\tkspec = ref_sigs.kmerspec\n",
      "\t\tif ref_sigs is not None:\n\t\t\tkspec = ref_sigs.kmerspec\n\t\telif query_sigs is not None:\n\t\t\tkspec = query_sigs.kmerspec\n", None, also=[(_D, _G1, "")]),
    V('mismatch downgraded to a warning', 'B', _D, _G1, "\t\tif query_sigs is not None and ref_sigs is not None and query_sigs.kmerspec != ref_sigs.kmerspec:\n\t\t\tclick.echo('warning: parameters differ', err=True)\n", 'P1'),
    V('mismatch raises a plain exception type', 'B', _D, "\t\t\traise click.ClickException(\n\t\t\t\tf'K-mer search parameters of query signatures", "\t\t\traise SystemExit(\n\t\t\t\tf'K-mer search parameters of query signatures", 'P4'),
    V('default kspec used although query signatures exist', 'B', _D, "\t\tif query_sigs is not None:\n\t\t\tkspec = query_sigs.kmerspec\n\t\telif ref_sigs is not None:", "\t\tif False:\n\t\t\tkspec = query_sigs.kmerspec\n\t\telif ref_sigs is not None:", 'P1'),
    V('one of -k/--prefix accepted alone', 'B', _CM, "\tif prefix is None or k is None:\n\t\traise click.ClickException('Must specify values for both -k and --prefix arguments.')\n", "\tif prefix is None:\n\t\tprefix = DEFAULT_KMERSPEC.prefix_str\n\tif k is None:\n\t\tk = DEFAULT_KMERSPEC.k\n", 'P3'),
    V('create: --db-params silently wins over -k', 'B', _S, "\t\telse:\n\t\t\traise click.ClickException('The -k/--prefix and --db-params options are mutually exclusive.')\n", "\t\telse:\n\t\t\tkspec = ctx.obj.signatures.kmerspec\n", 'P3'),
    V('query_parse computes with default parameters', 'B', 'src/gambit/query.py', "query_sigs = calc_file_signatures(db.signatures.kmerspec, files, **parse_kw)", "query_sigs = calc_file_signatures(DEFAULT_KMERSPEC, files, **parse_kw)", 'P1',
      also=[('src/gambit/query.py', "from gambit.seq import SequenceFile\n", "from gambit.seq import SequenceFile\nfrom gambit.kmers import DEFAULT_KMERSPEC\n")]),
    V('E: guards reordered', 'E', _D, _G2 + _G3, _G3 + _G2),
    V('E: comparison operands commuted', 'E', _D, "if ref_sigs is not None and ref_sigs.kmerspec != kspec:", "if ref_sigs is not None and kspec != ref_sigs.kmerspec:"),
    V('E: guard 1 as nested ifs', 'E', _D, "\t\tif query_sigs is not None and ref_sigs is not None and query_sigs.kmerspec != ref_sigs.kmerspec:\n\t\t\traise click.ClickException(\n\t\t\t\tf'K-mer search parameters of query signatures ({fmt_kspec(query_sigs.kmerspec)}) do '\n\t\t\t\tf'not match those of reference signatures ({fmt_kspec(ref_sigs.kmerspec)}).'\n\t\t\t)\n",
      "\t\tif query_sigs is not None and ref_sigs is not None:\n\t\t\tif not (query_sigs.kmerspec == ref_sigs.kmerspec):\n\t\t\t\traise click.ClickException('K-mer search parameters differ')\n"),
    # ---- idioms accepted since the refactoring round, each with its broken twin
    V('E: explicit-option guards as one loop over the literal (name, signatures) pairs with continue', 'E', _D, _G2 + _G3,
      "\t\tfor which, sigs in [('query', query_sigs), ('reference', ref_sigs)]:\n\t\t\tif sigs is None or sigs.kmerspec == kspec:\n\t\t\t\tcontinue\n"
      "\t\t\traise click.ClickException(f'K-mer search parameters from command line options ({fmt_kspec(kspec)}) do not match those of {which} signatures ({fmt_kspec(sigs.kmerspec)}).')\n"),
    V('loop over the pairs stops at the first absent source (break for continue): reference unchecked', 'B', _D, _G2 + _G3,
      "\t\tfor which, sigs in [('query', query_sigs), ('reference', ref_sigs)]:\n\t\t\tif sigs is None:\n\t\t\t\tbreak\n\t\t\tif sigs.kmerspec == kspec:\n\t\t\t\tcontinue\n"
      "\t\t\traise click.ClickException(f'K-mer search parameters from command line options ({fmt_kspec(kspec)}) do not match those of {which} signatures ({fmt_kspec(sigs.kmerspec)}).')\n", 'P'),
    V('loop over the pairs lists the query signatures twice', 'B', _D, _G2 + _G3,
      "\t\tfor which, sigs in [('query', query_sigs), ('reference', query_sigs)]:\n\t\t\tif sigs is None or sigs.kmerspec == kspec:\n\t\t\t\tcontinue\n"
      "\t\t\traise click.ClickException(f'K-mer search parameters from command line options ({fmt_kspec(kspec)}) do not match those of {which} signatures ({fmt_kspec(sigs.kmerspec)}).')\n", 'P'),
    V('E: pairs bound to a local first, loop with a guard clause', 'E', _D, _G2 + _G3,
      "\t\tloaded = (query_sigs, ref_sigs)\n\t\tfor sigs in loaded:\n\t\t\tif sigs is not None and sigs.kmerspec != kspec:\n"
      "\t\t\t\traise click.ClickException(f'K-mer search parameters from command line options ({fmt_kspec(kspec)}) do not match those of signatures ({fmt_kspec(sigs.kmerspec)}).')\n"),
    V('E: fall-back chain as nested conditional expressions', 'E', _D, _CHAIN, "\t\tkspec = query_sigs.kmerspec if query_sigs is not None else (DEFAULT_KMERSPEC if ref_sigs is None else ref_sigs.kmerspec)\n"),
    V('conditional-expression fall-back forgets the reference signatures', 'B', _D, _CHAIN, "\t\tkspec = query_sigs.kmerspec if query_sigs is not None else DEFAULT_KMERSPEC\n", 'P1'),
    V('E: kspec_from_params counts the missing options', 'E', _CM, _KFP, "\tnmissing = (k is None) + (prefix is None)\n\tif nmissing == 2:\n\t\tif default:\n\t\t\treturn DEFAULT_KMERSPEC\n\t\treturn None\n\n\tif nmissing == 1:\n"
      "\t\traise click.ClickException('Must specify values for both -k and --prefix arguments.')\n"),
    V('counted missing options: the error test is off by one (never true for exactly one)', 'B', _CM, _KFP, "\tnmissing = (k is None) + (prefix is None)\n\tif nmissing == 2:\n\t\tif default:\n\t\t\treturn DEFAULT_KMERSPEC\n\t\treturn None\n\n\tif nmissing > 1:\n"
      "\t\traise click.ClickException('Must specify values for both -k and --prefix arguments.')\n", 'P3'),
    V('counted missing options: default returned without being asked for', 'B', _CM, _KFP, "\tnmissing = (k is None) + (prefix is None)\n\tif nmissing == 2:\n\t\tif default is not None:\n\t\t\treturn DEFAULT_KMERSPEC\n\t\treturn None\n\n\tif nmissing == 1:\n"
      "\t\traise click.ClickException('Must specify values for both -k and --prefix arguments.')\n", 'P3'),
    V('E: result returned from the else clause of the try', 'E', _CM, "\t\traise click.ClickException(f'Invalid nucleotide codes in prefix: {prefix}')\n\n\treturn KmerSpec(k, prefix_bytes)\n",
      "\t\traise click.ClickException(f'Invalid nucleotide codes in prefix: {prefix}')\n\telse:\n\t\treturn KmerSpec(k, prefix_bytes)\n"),
    V('invalid prefix swallowed: the handler falls back to the default parameters', 'B', _CM, "\t\traise click.ClickException(f'Invalid nucleotide codes in prefix: {prefix}')\n\n\treturn KmerSpec(k, prefix_bytes)\n",
      "\t\treturn DEFAULT_KMERSPEC\n\telse:\n\t\treturn KmerSpec(k, prefix_bytes)\n", 'P3'),
    # ---- second refactoring round
    V('E: one shared helper in cli/common.py compares two parameter sets (early return on equality), called under the None guards', 'E', _D, _G2 + _G3,
      "\t\tif query_sigs is not None:\n\t\t\tcommon.check_kspecs(kspec, 'from command line options', query_sigs.kmerspec, 'query signatures')\n"
      "\t\tif ref_sigs is not None:\n\t\t\tcommon.check_kspecs(kspec, 'from command line options', ref_sigs.kmerspec, 'reference signatures')\n", also=[(_CM, _HOOK, _HELPER + _HOOK)]),
    V('shared helper: test inverted (returns on a mismatch, raises on equality)', 'B', _D, _G2 + _G3,
      "\t\tif query_sigs is not None:\n\t\t\tcommon.check_kspecs(kspec, 'from command line options', query_sigs.kmerspec, 'query signatures')\n"
      "\t\tif ref_sigs is not None:\n\t\t\tcommon.check_kspecs(kspec, 'from command line options', ref_sigs.kmerspec, 'reference signatures')\n", 'P',
      also=[(_CM, _HOOK, _HELPER.replace("if kspec1 == kspec2:", "if kspec1 != kspec2:") + _HOOK)]),
    V('shared helper: the reference call site compares the options with themselves', 'B', _D, _G2 + _G3,
      "\t\tif query_sigs is not None:\n\t\t\tcommon.check_kspecs(kspec, 'from command line options', query_sigs.kmerspec, 'query signatures')\n"
      "\t\tif ref_sigs is not None:\n\t\t\tcommon.check_kspecs(kspec, 'from command line options', kspec, 'reference signatures')\n", 'P', also=[(_CM, _HOOK, _HELPER + _HOOK)]),
    V('E: None test of the options kept in a flag; each source checks itself or establishes the parameters; default last', 'E', _D, _RECON, _WALK),
    V('flag with the wrong polarity: explicit options are overwritten by the query parameters unchecked', 'B', _D, _RECON, _WALK.replace("explicit = kspec is not None", "explicit = kspec is None"), 'P'),
    V('walk over the sources: the reference branch establishes instead of checking', 'B', _D, _RECON, _WALK.replace("\t\tif kspec is None:\n\t\t\tkspec = ref_sigs.kmerspec\n\t\telif ref_sigs.kmerspec != kspec:\n", "\t\tif kspec is None or not explicit:\n\t\t\tkspec = ref_sigs.kmerspec\n\t\telif ref_sigs.kmerspec != kspec:\n"), 'P1'),
    V('E: optional parameters compared before their None test', 'E', _D, _RECON,
      "\tif query_sigs is not None and query_sigs.kmerspec != kspec and kspec is not None:\n\t\traise click.ClickException('K-mer search parameters from command line options do not match those of query signatures.')\n"
      "\tif ref_sigs is not None and ref_sigs.kmerspec != kspec and kspec is not None:\n\t\traise click.ClickException('K-mer search parameters from command line options do not match those of reference signatures.')\n"
      "\tif kspec is None:\n" + _G1 + _CHAIN),
    V('optional parameters compared, then the None test the wrong way round', 'B', _D, _RECON,
      "\tif query_sigs is not None and query_sigs.kmerspec != kspec and kspec is not None:\n\t\traise click.ClickException('K-mer search parameters from command line options do not match those of query signatures.')\n"
      "\tif ref_sigs is not None and ref_sigs.kmerspec != kspec and kspec is None:\n\t\traise click.ClickException('K-mer search parameters from command line options do not match those of reference signatures.')\n"
      "\tif kspec is None:\n" + _G1 + _CHAIN, 'P'),
    V('E: database signatures through a method of the CLI context; create: exclusivity as a guard clause, then one if', 'E', _S, _CREATE, _CREATE2, also=[(_CM, _GETDB, _GETSIG + _GETDB),
      (_D, "\t\tctxobj.require_signatures()\n\t\tref_sigs = ctxobj.signatures\n", "\t\tref_sigs = ctxobj.get_signatures()\n")]),
    V('create restructured: the exclusivity guard is gone (explicit options silently win over --db-params)', 'B', _S, _CREATE,
      _CREATE2.replace("\tif db_params and kspec is not None:\n\t\traise click.ClickException('The -k/--prefix and --db-params options are mutually exclusive.')\n\n", ""), 'P3', also=[(_CM, _GETDB, _GETSIG + _GETDB)]),
    V('create restructured: the database parameters are taken whenever no options are given', 'B', _S, _CREATE, _CREATE2.replace("\t\tif db_params:\n", "\t\tif db_params or True:\n"), 'P3', also=[(_CM, _GETDB, _GETSIG + _GETDB)]),
    V('dist: database signatures through a context method, but the explicit-option check skips them', 'B', _D, "\t\tctxobj.require_signatures()\n\t\tref_sigs = ctxobj.signatures\n", "\t\tref_sigs = ctxobj.get_signatures()\n", 'P',
      also=[(_CM, _GETDB, _GETSIG + _GETDB), (_D, "\t\tif ref_sigs is not None and ref_sigs.kmerspec != kspec:", "\t\tif rs is not None and ref_sigs.kmerspec != kspec:")]),
    # ---- third refactoring round
    V('E: missing options counted with sum() over a comprehension of the literal pair', 'E', _CM, _KFP, "\tnmissing = sum(value is None for value in (k, prefix))\n\tif nmissing == 2:\n\t\treturn DEFAULT_KMERSPEC if default else None\n\n\tif nmissing == 1:\n"
      "\t\traise click.ClickException('Must specify values for both -k and --prefix arguments.')\n"),
    V('count over the pair lists k twice: a lone --prefix (or lone -k) is not reported', 'B', _CM, _KFP, "\tnmissing = sum(value is None for value in (k, k))\n\tif nmissing == 2:\n\t\treturn DEFAULT_KMERSPEC if default else None\n\n\tif nmissing == 1:\n"
      "\t\traise click.ClickException('Must specify values for both -k and --prefix arguments.')\n", 'P3'),
    V('count of the GIVEN options compared as if it were the missing ones', 'B', _CM, _KFP, "\tngiven = len([value for value in (k, prefix) if value is not None])\n\tif ngiven == 2:\n\t\treturn DEFAULT_KMERSPEC if default else None\n\n\tif ngiven == 1:\n"
      "\t\traise click.ClickException('Must specify values for both -k and --prefix arguments.')\n", 'P3'),
    V('E: prefix validated by a set test instead of try/except', 'E', _CM, "\ttry:\n\t\tvalidate_dna_seq_bytes(prefix_bytes)\n\texcept ValueError:\n\t\traise click.ClickException(f'Invalid nucleotide codes in prefix: {prefix}')\n",
      "\tif not frozenset(b'ACGT').issuperset(prefix_bytes):\n\t\traise click.ClickException(f'Invalid nucleotide codes in prefix: {prefix}')\n"),
    V('set test: an invalid prefix silently falls back to the default parameters', 'B', _CM, "\ttry:\n\t\tvalidate_dna_seq_bytes(prefix_bytes)\n\texcept ValueError:\n\t\traise click.ClickException(f'Invalid nucleotide codes in prefix: {prefix}')\n",
      "\tif not frozenset(b'ACGT').issuperset(prefix_bytes):\n\t\treturn DEFAULT_KMERSPEC\n", 'P3'),
    V('E: one NamedTuple per side with classmethod constructors; fall-back chain as next() over a generator of the loaded sources', 'E', _D, _QSEL, _QREC,
      also=_rec(extra=[(_D, _CHAIN, "\t\tprecomputed = (sigs.kmerspec for sigs in (query_sigs, ref_sigs) if sigs is not None)\n\t\tkspec = next(precomputed, DEFAULT_KMERSPEC)\n")])),
    V('records + next(): the generator looks at the query signatures only (default parameters although reference signatures are loaded)', 'B', _D, _QSEL, _QREC, 'P1',
      also=_rec(extra=[(_D, _CHAIN, "\t\tprecomputed = (sigs.kmerspec for sigs in (query_sigs,) if sigs is not None)\n\t\tkspec = next(precomputed, DEFAULT_KMERSPEC)\n")])),
    V('records: the database record is built without its signatures (explicit options never compared with the database)', 'B', _D, _QSEL, _QREC, 'P',
      also=_rec(rrec=_RREC.replace("ref = SideInput.from_signatures(ctxobj.signatures)", "ref = SideInput(ctxobj.signatures.ids, None, None)\n\t\tdb_sigs = ctxobj.signatures"),
                extra=[(_D, "\t\t\tref_sigs = calc_file_signatures(kspec, ref_sigfiles, progress=ref_pconf)\n", "\t\t\tref_sigs = db_sigs if use_db else calc_file_signatures(kspec, ref_sigfiles, progress=ref_pconf)\n")])),
]
