"""C20 - signature collections index like NumPy sequences and compare by content.

X1 index dispatch exhaustive (every branch ends in return/raise; right handler under the right test)
X2 no in-place write through anything that may alias a caller's index (may-alias forward analysis over the CFG)
X3 _check_index arithmetic and bounds   X4 contiguous-slice / element / length arithmetic (affine)
X5 sub-collections keep kmerspec and dtype   X6 SignatureList mutators delegate to the list; nobody else mutates
X7 equality = kmerspec equal and all signatures equal
"""
import ast

from ..affine import Aff, sym
from ..astutil import (u, atoms, guard_map, path_atoms, stmts_in, calls_in, callee, callee_attr, reaching_def, def_value,
                       PARAM, AMBIGUOUS, get_arg, get_kw, is_none, is_const, assigns_to, block_path, raised_name, always_exits)
from ..astutil import binds, binds_deep
from ..cfg import CFG, solve
from ..report import Undecided
import copy
import re

IDX = 'gambit.util.indexing.AdvancedIndexingMixin'
BASE = 'gambit.sigs.base'

ALIAS, FRESH = 'alias', 'fresh'
FRESH_CALLS = {'np.empty', 'np.zeros', 'np.ones', 'np.arange', 'np.flatnonzero', 'np.where', 'np.array', 'np.copy', 'np.cumsum', 'np.diff',
               'np.fromiter', 'np.concatenate', 'list', 'sorted', 'len', 'int', 'range', 'np.nonzero', 'np.full'}
ALIAS_CALLS = {'np.asarray', 'np.asanyarray', 'np.ascontiguousarray', 'np.atleast_1d', 'np.ravel', 'np.squeeze', 'memoryview', 'np.frombuffer'}
ALIAS_METHODS = {'view', 'reshape', 'ravel', 'squeeze', 'transpose', '__array__'}
FRESH_METHODS = {'copy', 'astype_copy', 'tolist', 'any', 'all', 'sum', 'nonzero', 'flatten'}
INPLACE_METHODS = {'sort', 'fill', 'resize', 'put', 'itemset', 'partition', 'byteswap_inplace', 'setfield'}
INPLACE_FUNCS = {'np.put', 'np.copyto', 'np.place', 'np.putmask', 'np.fill_diagonal'}


def _root(e):
    while isinstance(e, (ast.Subscript, ast.Attribute)):
        e = e.value
    return e.id if isinstance(e, ast.Name) else None


# ---------------------------------------------------------------------- value flow inside one function
#
# The rules below speak about VALUES (which expression is tested, which expression is sliced), not about the names a value
# happens to be parked in.  `Flow.resolve` replaces a local by its defining expression when that is provably the value it has
# at the point of use; `Flow.atoms_at` gives the path condition of a statement over such resolved expressions.

PURE_CALLS = {'len', 'isinstance'}
_COMP = (ast.ListComp, ast.SetComp, ast.DictComp, ast.GeneratorExp)
K = '_k_'           # the iteration counter of a modelled loop / quantifier


def _pure(e):
    """Evaluating the expression has no effect and depends only on the current value of its free names."""
    for n in ast.walk(e):
        if isinstance(n, ast.Call):
            if not (isinstance(n.func, ast.Name) and n.func.id in PURE_CALLS and not n.keywords):
                return False
        elif isinstance(n, _COMP + (ast.Lambda, ast.Await, ast.Yield, ast.YieldFrom, ast.NamedExpr, ast.Starred)):
            return False
    return True


def _loads(e):
    return {n.id for n in ast.walk(e) if isinstance(n, ast.Name) and isinstance(n.ctx, ast.Load)}


def module_constants(module):
    """Module-level names bound exactly once, at module level, to a literal / tuple of names (e.g. a tuple of types given a
    name) and never declared global in a function: a function reading such a name reads that value."""
    stores, out = {}, {}

    def walk(body):
        for s in body:
            if isinstance(s, (ast.FunctionDef, ast.AsyncFunctionDef, ast.ClassDef)):
                stores[s.name] = stores.get(s.name, 0) + 1
                continue
            for n in ast.walk(s):
                if isinstance(n, ast.Name) and isinstance(n.ctx, (ast.Store, ast.Del)):
                    stores[n.id] = stores.get(n.id, 0) + 1
                elif isinstance(n, ast.alias):
                    nm = (n.asname or n.name).split('.')[0]
                    stores[nm] = stores.get(nm, 0) + 1
    tree = getattr(module, 'tree', None)
    if tree is None:
        return out
    walk(tree.body)
    glob = {nm for n in ast.walk(tree) if isinstance(n, (ast.Global, ast.Nonlocal)) for nm in n.names}
    for s in tree.body:
        if isinstance(s, ast.Assign) and len(s.targets) == 1 and isinstance(s.targets[0], ast.Name):
            nm, v = s.targets[0].id, s.value
            simple = all(isinstance(x, (ast.Tuple, ast.Name, ast.Attribute, ast.Constant, ast.Load)) for x in ast.walk(v))
            if stores.get(nm) == 1 and nm not in glob and simple:
                out[nm] = v
    return out


class Flow:
    def __init__(self, fn, consts=None):
        self.fn = fn
        self.consts = consts or {}
        self.gm = guard_map(fn)
        self.order = {}
        self.test_owner = {}
        for k, s in enumerate(stmts_in(fn.body)):
            self.order[id(s)] = k
            if isinstance(s, (ast.If, ast.While, ast.Assert)):
                self.test_owner[id(s.test)] = s
        # statements that may change the content of an object in place, with the root names they write through
        self.mutations = []
        for s in stmts_in(fn.body):
            roots = set()
            tg = []
            if isinstance(s, ast.Assign):
                tg = [t for t in s.targets if isinstance(t, (ast.Subscript, ast.Attribute))]
            elif isinstance(s, ast.AugAssign):
                tg = [s.target]
            elif isinstance(s, ast.Delete):
                tg = [t for t in s.targets if isinstance(t, (ast.Subscript, ast.Attribute))]
            for t in tg:
                roots.add(_root(t))
            hdr = [s] if not isinstance(s, (ast.If, ast.For, ast.While, ast.With, ast.Try)) else \
                ([s.test] if isinstance(s, (ast.If, ast.While)) else [s.iter] if isinstance(s, ast.For) else [i.context_expr for i in s.items] if isinstance(s, ast.With) else [])
            for h in hdr:
                for x in ast.walk(h):
                    if isinstance(x, ast.Call):
                        f = u(x.func).replace('numpy.', 'np.')
                        out = get_kw(x, 'out')
                        if out is not None and not is_none(out):
                            roots.add(_root(out))
                        if f in INPLACE_FUNCS and x.args:
                            roots.add(_root(x.args[0]))
                        if isinstance(x.func, ast.Attribute) and x.func.attr in INPLACE_METHODS | {'append', 'extend', 'insert', 'pop', 'remove', 'clear', 'update'}:
                            roots.add(_root(x.func.value))
            roots.discard(None)
            if roots:
                self.mutations.append((s, roots))

    # ----- which statement last bound `name` before `stmt` (a simple statement, an enclosing / preceding compound one, PARAM, None)
    def binder(self, name, stmt):
        path = block_path(self.fn, stmt)
        if path is None:
            return AMBIGUOUS
        for block, idx, owner in reversed(path):
            for s in reversed(block[:idx]):
                if binds(s, name) or binds_deep(s, name):
                    return s
            if isinstance(owner, (ast.For, ast.While, ast.AsyncFor)):
                if isinstance(owner, (ast.For, ast.AsyncFor)) and binds(owner, name):
                    return owner
                if any(binds_deep(s, name) for s in block[idx:]):
                    return owner            # reaches over the back edge
            if isinstance(owner, (ast.With, ast.AsyncWith)) and binds(owner, name):
                return owner
            if isinstance(owner, ast.Try):
                for h in owner.handlers:
                    if h.name == name and block is h.body:
                        return owner
        a = self.fn.args
        if name in [x.arg for x in a.posonlyargs + a.args + a.kwonlyargs] or (a.vararg and a.vararg.arg == name) or (a.kwarg and a.kwarg.arg == name):
            return PARAM
        return None

    def _common_loop(self, a, b):
        pa, pb = block_path(self.fn, a) or [], block_path(self.fn, b) or []
        la = [o for (_, _, o) in pa if isinstance(o, (ast.For, ast.While))]
        lb = {id(o) for (_, _, o) in pb if isinstance(o, (ast.For, ast.While))}
        return [o for o in la if id(o) in lb]

    def _unchanged(self, value, d, at):
        """Every free name of `value` has the same binding at the definition `d` and at the use `at`, and nothing that may run
        in between writes through one of them."""
        return self._unchanged_names(_loads(value), d, at)

    def _unchanged_names(self, names, d, at, binding=True):
        for x in (names if binding else ()):
            b1, b2 = self.binder(x, d), self.binder(x, at)
            if b1 is AMBIGUOUS or b1 is not b2:
                return False
        loops = self._common_loop(d, at)
        od, oa = self.order.get(id(d), -1), self.order.get(id(at), 1 << 30)
        for s, roots in self.mutations:
            if not roots & names or s is d:
                continue
            k = self.order.get(id(s), 0)
            inside = any(any(x is s for x in stmts_in(lp.body)) for lp in loops)
            if inside or od < k < oa:
                return False
        return True

    def definition(self, name, at):
        """(defining statement, value) when `name` has ONE simple definition `name = value` reaching `at`, else (binder, None)."""
        d = self.binder(name, at)
        if isinstance(d, ast.AST):
            v = def_value(d)
            if v is not None and not isinstance(d, ast.AugAssign):
                # an object that is changed in place after its definition (xs = []; xs.append(..)) is not its defining expression
                if not self._unchanged_names({name}, d, at, binding=False):
                    return d, None
                return d, v
            # `if c: name = A else: name = B` is the conditional expression `A if c else B`
            if isinstance(d, ast.If) and len(d.body) == 1 and len(d.orelse) == 1:
                a, b = def_value(d.body[0]), def_value(d.orelse[0])
                if a is not None and b is not None and binds(d.body[0], name) and binds(d.orelse[0], name) and isinstance(d.body[0], ast.Assign) and isinstance(d.orelse[0], ast.Assign):
                    return d, ast.copy_location(ast.IfExp(test=d.test, body=a, orelse=b), d)
        return d, None

    def resolve(self, e, at, _depth=0, trace=None):
        """Copy of expression `e` (evaluated at statement `at`) with locals replaced by their pure defining expressions.
        `trace` collects the definition statements looked through (where the sub-expressions are actually evaluated)."""
        flow = self

        class T(ast.NodeTransformer):
            def __init__(self):
                self.bound = []

            def _comp(self, node):
                names = set()
                for g in node.generators:
                    names |= {n.id for n in ast.walk(g.target) if isinstance(n, ast.Name)}
                self.bound.append(names)
                self.generic_visit(node)
                self.bound.pop()
                return node
            visit_ListComp = visit_SetComp = visit_DictComp = visit_GeneratorExp = _comp

            def visit_Lambda(self, node):
                return node

            def visit_Name(self, node):
                if not isinstance(node.ctx, ast.Load) or any(node.id in b for b in self.bound) or _depth > 12:
                    return node
                d, v = flow.definition(node.id, at)
                if v is not None and _pure(v) and flow._unchanged(v, d, at):
                    if trace is not None:
                        trace.append(d)
                    return flow.resolve(v, d, _depth + 1, trace)
                if d is None and node.id in flow.consts:
                    return copy.deepcopy(flow.consts[node.id])      # a named module-level constant
                return node
        return T().visit(copy.deepcopy(e))

    def deref(self, e, at):
        """The expression a name stands for (any expression, evaluated once, nothing in between touching its inputs); else `e`."""
        seen = 0
        while isinstance(e, ast.Name) and seen < 8:
            d, v = self.definition(e.id, at)
            if v is None or not self._unchanged(v, d, at):
                break
            uses = [n for n in ast.walk(self.fn) if isinstance(n, ast.Name) and n.id == e.id and isinstance(n.ctx, ast.Load)]
            if not _pure(v) and len(uses) != 1:
                break
            e, at = v, d
            seen += 1
        return e

    def value(self, e, at):
        """What the expression stands for at `at`: a name parked in a local is looked through (deref), pure locals inside are resolved."""
        seen = 0
        while isinstance(e, ast.Name) and seen < 8:
            d, v = self.definition(e.id, at)
            if v is None or not self._unchanged(v, d, at):
                break
            uses = [n for n in ast.walk(self.fn) if isinstance(n, ast.Name) and n.id == e.id and isinstance(n.ctx, ast.Load)]
            if not _pure(v) and len(uses) != 1:
                break
            e, at = v, d
            seen += 1
        return self.resolve(e, at)

    def atoms_at(self, stmt):
        """Path condition of `stmt` as atoms over resolved expressions (each test resolved where it is evaluated)."""
        out = set()
        for t, p in self.gm[stmt]:
            owner = self.test_owner.get(id(t))
            # (a loop test is evaluated again after the body ran: names in it are left as written)
            a = atoms(self.resolve(t, owner) if owner is not None and not isinstance(owner, ast.While) else t, p)
            if a:
                out |= a
        return out

    def quantified(self, stmt):
        """Existential facts in the path condition of `stmt`: `not all(P(v) for v in it)` / `any(P(v) for v in it)` hold
        -> [(iterable, target name, atoms that hold for some element)]."""
        out = []
        for t0, p in self.gm[stmt]:
            owner = self.test_owner.get(id(t0))
            t = self.resolve(t0, owner) if owner is not None and not isinstance(owner, ast.While) else t0
            while isinstance(t, ast.UnaryOp) and isinstance(t.op, ast.Not):
                t, p = t.operand, not p
            if not (isinstance(t, ast.Call) and isinstance(t.func, ast.Name) and t.func.id in ('all', 'any') and len(t.args) == 1 and not t.keywords):
                continue
            g = t.args[0]
            if not (isinstance(g, (ast.GeneratorExp, ast.ListComp)) and len(g.generators) == 1 and isinstance(g.generators[0].target, ast.Name)):
                continue
            if (t.func.id == 'all') == p:
                continue                    # a universal fact: says nothing about one offending element
            gen = g.generators[0]
            a = atoms(g.elt, t.func.id == 'any')
            if a is None:
                continue
            ok = True
            for c in gen.ifs:
                ca = atoms(c, True)
                if ca is None:
                    ok = False
                    break
                a = a | ca
            if ok:
                out.append((gen.iter, gen.target.id, a))
        return out


def _subst_names(e, mapping):
    class T(ast.NodeTransformer):
        def visit_Name(self, node):
            if node.id in mapping and isinstance(node.ctx, ast.Load):
                return copy.deepcopy(mapping[node.id])
            return node
    return T().visit(copy.deepcopy(e))


def _kth(x, off=0):
    idx = ast.Name(id=K, ctx=ast.Load()) if off == 0 else ast.BinOp(left=ast.Name(id=K, ctx=ast.Load()), op=ast.Add(), right=ast.Constant(value=off))
    return ast.Subscript(value=copy.deepcopy(x), slice=idx, ctx=ast.Load())


_LISTS = {}      # while a function is modelled: local list name -> (k-th element, iterable it was accumulated over)


def _norm_getitem(e):
    """X.__getitem__(i) is X[i]."""
    class T(ast.NodeTransformer):
        def visit_Call(self, node):
            self.generic_visit(node)
            if isinstance(node.func, ast.Attribute) and node.func.attr == '__getitem__' and len(node.args) == 1 and not node.keywords:
                return ast.Subscript(value=node.func.value, slice=node.args[0], ctx=ast.Load())
            return node
    return ast.fix_missing_locations(T().visit(copy.deepcopy(e)))


def _comp_parts(x):
    return x.generators[0] if isinstance(x, (ast.ListComp, ast.GeneratorExp)) and len(x.generators) == 1 and not x.generators[0].ifs and not x.generators[0].is_async else None


def _element(x):
    """k-th element produced by iterating `x` (a sequence): x[k]; for x = e[a:] / e[:-b] / e[a:-b] it is e[a + k]."""
    if isinstance(x, ast.Name) and x.id in _LISTS:
        return copy.deepcopy(_LISTS[x.id][0])
    if isinstance(x, ast.Call) and isinstance(x.func, ast.Name) and x.func.id in ('list', 'tuple', 'iter') and len(x.args) == 1 and not x.keywords:
        return _element(x.args[0])
    g = _comp_parts(x)
    if g is not None:
        mp = {}
        if _bind_target(g.target, _element(g.iter), mp):
            return _subst_names(x.elt, mp)
    if isinstance(x, ast.Call) and isinstance(x.func, ast.Name) and x.func.id == 'zip' and not x.keywords:
        return ast.Tuple(elts=[_element(a) for a in x.args], ctx=ast.Load())
    if isinstance(x, ast.Call) and isinstance(x.func, ast.Name) and x.func.id == 'enumerate' and len(x.args) == 1 and not x.keywords:
        return ast.Tuple(elts=[ast.Name(id=K, ctx=ast.Load()), _element(x.args[0])], ctx=ast.Load())
    if isinstance(x, ast.Call) and isinstance(x.func, ast.Name) and x.func.id == 'range' and len(x.args) == 1 and not x.keywords:
        return ast.Name(id=K, ctx=ast.Load())
    if isinstance(x, ast.Call) and isinstance(x.func, ast.Name) and x.func.id == 'map' and len(x.args) >= 2 and not x.keywords:
        # lazy map: the k-th item is f applied to the k-th items, computed when the item is requested
        return ast.Call(func=copy.deepcopy(x.args[0]), args=[_element(a) for a in x.args[1:]], keywords=[])
    if isinstance(x, ast.Subscript) and isinstance(x.slice, ast.Slice) and x.slice.step is None:
        lo = x.slice.lower
        if lo is None:
            return _kth(x.value)
        if isinstance(lo, ast.Constant) and isinstance(lo.value, int) and lo.value >= 0:
            return _kth(x.value, lo.value)
    return _kth(x)


def _length(x, env):
    """Number of elements iterating `x` yields, as an affine form over len(...) symbols (None: unknown)."""
    if isinstance(x, ast.Name) and x.id in _LISTS:
        return _length(_LISTS[x.id][1], env)
    if isinstance(x, ast.Call) and isinstance(x.func, ast.Name) and x.func.id in ('list', 'tuple', 'iter') and len(x.args) == 1 and not x.keywords:
        return _length(x.args[0], env)
    if _comp_parts(x) is not None:
        return _length(_comp_parts(x).iter, env)
    if isinstance(x, ast.Call) and isinstance(x.func, ast.Name) and not x.keywords:
        if x.func.id == 'zip' and x.args:
            ls = [_length(a, env) for a in x.args]
            if any(l is None for l in ls):
                return None
            best = ls[0]
            for l in ls[1:]:
                d = l.sub(best)
                if not d.is_const():
                    return None
                if d.const < 0:
                    best = l
            return best
        if x.func.id == 'enumerate' and len(x.args) == 1:
            return _length(x.args[0], env)
        if x.func.id == 'map' and len(x.args) >= 2:
            return _length(ast.Call(func=ast.Name(id='zip', ctx=ast.Load()), args=x.args[1:], keywords=[]), env)
        if x.func.id == 'range' and len(x.args) == 1:
            a = Aff.try_of(x.args[0])
            return a.subst(env) if a is not None else None
        return None
    if isinstance(x, ast.Subscript) and isinstance(x.slice, ast.Slice):
        if x.slice.step is not None:
            return None
        base = _length(x.value, env)
        lo, hi = x.slice.lower, x.slice.upper
        cut = 0
        for b, neg in ((lo, False), (hi, True)):
            if b is None:
                continue
            v = b.value if isinstance(b, ast.Constant) else (-b.operand.value if isinstance(b, ast.UnaryOp) and isinstance(b.op, ast.USub) and isinstance(b.operand, ast.Constant) else None)
            if not isinstance(v, int) or (v < 0) != neg:
                return None
            cut += abs(v)
        return base.plus(-cut) if base is not None else None
    if isinstance(x, (ast.Name, ast.Attribute)):
        a = Aff.try_of(ast.Call(func=ast.Name(id='len', ctx=ast.Load()), args=[x], keywords=[]))
        return a.subst(env) if a is not None else None
    return None


def _bind_target(target, elem, mapping):
    """Bind the loop target structure to the element structure; False when they do not fit."""
    if isinstance(target, ast.Name):
        mapping[target.id] = elem
        return True
    if isinstance(target, (ast.Tuple, ast.List)) and isinstance(elem, ast.Tuple) and len(target.elts) == len(elem.elts):
        return all(_bind_target(t, e, mapping) for t, e in zip(target.elts, elem.elts))
    return False


def alias_analysis(ctx, fi, rule='X2'):
    """Forward may-alias analysis: which locals may share memory with a (non-self) parameter at each in-place write."""
    rep = ctx.rep
    fn = fi.node
    cfg = CFG(fn)
    params = [p for p in fi.params() if p not in ('self', 'cls')]
    init = tuple(sorted((p, frozenset([ALIAS])) for p in params))

    def val(e, st):
        if isinstance(e, ast.Name):
            return st.get(e.id, frozenset([FRESH]))
        if isinstance(e, ast.Constant):
            return frozenset([FRESH])
        if isinstance(e, ast.Subscript):
            return val(e.value, st)          # basic indexing gives a view; advanced gives a copy: may-alias
        if isinstance(e, ast.Attribute):
            if e.attr in ('T', 'real', 'imag', 'flat', 'base', 'data'):
                return val(e.value, st)
            return frozenset([FRESH]) if _root(e) in ('self', 'cls', 'np') else val(e.value, st)
        if isinstance(e, ast.IfExp):
            return val(e.body, st) | val(e.orelse, st)
        if isinstance(e, (ast.BinOp, ast.UnaryOp, ast.Compare, ast.BoolOp, ast.List, ast.Tuple, ast.ListComp, ast.Dict, ast.Set, ast.JoinedStr, ast.GeneratorExp)):
            return frozenset([FRESH])
        if isinstance(e, ast.Call):
            f = u(e.func).replace('numpy.', 'np.')
            if f in ALIAS_CALLS:
                out = frozenset()
                for a in e.args[:1]:
                    out |= val(a, st)
                return out or frozenset([FRESH])
            if f == 'np.array':
                cp = get_kw(e, 'copy')
                if cp is not None and not is_const(cp, True):
                    return val(e.args[0], st) if e.args else frozenset([FRESH])
                return frozenset([FRESH])
            if f in FRESH_CALLS:
                return frozenset([FRESH])
            if isinstance(e.func, ast.Attribute):
                if e.func.attr in ALIAS_METHODS:
                    return val(e.func.value, st)
                if e.func.attr == 'astype':
                    cp = get_kw(e, 'copy')
                    if cp is not None and not is_const(cp, True):
                        return val(e.func.value, st)
                    return frozenset([FRESH])
                if e.func.attr in FRESH_METHODS:
                    return frozenset([FRESH])
                if _root(e.func) in ('self', 'cls', 'np', 'SignatureArray', 'SignatureList'):
                    return frozenset([FRESH])
                # unknown method of a possibly-aliasing object: may return a view of it
                return val(e.func.value, st)
            return frozenset([FRESH])
        return frozenset([FRESH])

    def assign(st, target, v):
        if isinstance(target, ast.Name):
            st[target.id] = v
        elif isinstance(target, (ast.Tuple, ast.List)):
            for t in target.elts:
                assign(st, t, v)

    def transfer(n, state):
        st = dict(state)
        s = n.stmt
        if n.kind == 'stmt':
            if isinstance(s, ast.Assign):
                v = val(s.value, st)
                for t in s.targets:
                    assign(st, t, v)
            elif isinstance(s, ast.AnnAssign) and s.value is not None:
                assign(st, s.target, val(s.value, st))
        elif n.kind == 'for':
            assign(st, s.target, val(s.iter, st))
        elif n.kind == 'with':
            for it in s.items:
                if it.optional_vars is not None:
                    assign(st, it.optional_vars, val(it.context_expr, st))
        return tuple(sorted(st.items()))

    def refine(n, lab, state):
        return state

    def join(a, b):
        da, db = dict(a), dict(b)
        return tuple(sorted((k, da.get(k, frozenset([FRESH])) | db.get(k, frozenset([FRESH]))) for k in set(da) | set(db)))

    IN = solve(cfg, init, transfer, refine, join)
    writes = 0
    for n in cfg.nodes:
        if n.id not in IN or n.stmt is None:
            continue
        st = dict(IN[n.id])
        targets = []
        s = n.stmt
        nodes = []
        if n.kind in ('stmt', 'return', 'raise'):
            nodes = list(ast.walk(s))
        elif n.kind == 'cond':
            nodes = list(ast.walk(s))
        elif n.kind == 'for':
            nodes = list(ast.walk(s.iter))
        for x in nodes:
            if isinstance(x, ast.Call):
                f = u(x.func).replace('numpy.', 'np.')
                out = get_kw(x, 'out')
                if out is not None and not is_none(out):
                    targets.append((out, f'out= of {f}'))
                if f in INPLACE_FUNCS and x.args:
                    targets.append((x.args[0], f'destination of {f}'))
                if isinstance(x.func, ast.Attribute) and x.func.attr in INPLACE_METHODS:
                    targets.append((x.func.value, f'.{x.func.attr}()'))
        if n.kind == 'stmt' and isinstance(s, ast.AugAssign):
            targets.append((s.target, 'augmented assignment'))
        if n.kind == 'stmt' and isinstance(s, ast.Assign):
            for t in s.targets:
                if isinstance(t, ast.Subscript):
                    targets.append((t, 'subscript store'))
        for tgt, how in targets:
            root = _root(tgt)
            if root in (None, 'self', 'cls'):
                continue
            if isinstance(tgt, ast.Name) and how == 'augmented assignment' and st.get(root, frozenset([FRESH])) == frozenset([FRESH]):
                writes += 1
                rep.add(rule, fi.site(s), f'in-place write ({how}) targets memory that cannot alias a caller argument', True, found=f'{root}: fresh', stmt=s)
                continue
            v = st.get(root, frozenset([FRESH]))
            writes += 1
            rep.add(rule, fi.site(s), f'in-place write ({how}) targets memory that cannot alias a caller argument', ALIAS not in v,
                    expected=f'{root} is a fresh copy on every path', found=f'{root} may alias a parameter (np.asarray / views share memory; an identity test does not rule that out)' if ALIAS in v else f'{root}: fresh',
                    stmt=s)
    return writes


CONTROL_BAD = """
def control(self, index):
    input_index = index
    index = np.asarray(index)
    isneg = index < 0
    if isneg.any():
        if index is input_index:
            index = index.copy()
        np.add(index, len(self), out=index, where=isneg)
    return index
"""
CONTROL_GOOD = """
def control(self, index):
    index = np.asarray(index)
    isneg = index < 0
    if isneg.any():
        index = index.copy()
        np.add(index, len(self), out=index, where=isneg)
    return index
"""


def _ret_atoms(fl, r):
    return fl.atoms_at(r)


# ---------------------------------------------------------------------- path-by-path symbolic execution of small functions
#
# Constructors and other straight-line decision code are judged by what they DO in each situation, not by how the decisions
# are written: the function is executed symbolically once per combination of truth values of the atomic tests it consults
# (`x is None`, isinstance(x, C), emptiness, a comparison), and the outcome of every run (attributes stored, calls made in
# order, value returned, exception raised) is compared with the specified outcome for that situation.

class _Fork(Exception):
    def __init__(self, key):
        self.key = key


SX_PURE = {'len', 'isinstance', 'range', 'int', 'type', 'enumerate', 'zip', 'map', 'iter'}


def _call_ref(n):
    return ast.Name(id=f'@{n}', ctx=ast.Load())


class Sx:
    """One symbolic run of `fn` under `scenario` (dict test-key -> bool).  Terms are expressions over the function's inputs;
    the result of an effectful call is a reference `@n` into `self.calls` (evaluation order)."""

    def __init__(self, fn, scenario, consts=None, what='', model=None, fi=None, recv_cls=None):
        self.fn, self.scenario, self.consts, self.what = fn, scenario, consts or {}, what or fn.name
        self.model, self.fi, self.depth = model, fi, 0
        self.recv_cls = recv_cls or (fi.cls.qualname if fi is not None and fi.cls is not None else None)   # class whose MRO resolves self.<method>
        self.top_first = fi.params()[0] if fi is not None and fi.params() else None
        self.types = {}          # term text -> class it was tested to be an instance of (on this path)
        self.top_cls = self.recv_cls
        self.env, self.attrs = {}, {}
        self.calls = []          # call terms, in evaluation order
        self.effects = []        # ('call', n) | ('store', target text, term) | ('setitem', target term, term) | ('loop', For node)
        self.read = []           # test keys consulted, in order
        self.outcome = None      # ('return', term | None) | ('raise', name) | ('fall', None)

    # ----- terms
    def expand(self, t):
        sx = self

        class T(ast.NodeTransformer):
            def visit_Name(self, node):
                if node.id.startswith('@'):
                    return self.visit(copy.deepcopy(sx.calls[int(node.id[1:])]))
                return node
        return T().visit(copy.deepcopy(t))

    def text(self, t, sc=None):
        """Text of a term for comparison with the specification (inputs known to be None in situation `sc` read None)."""
        return None if t is None else u(_canon_term(self.expand(t), self.scenario if sc is None else sc))

    def ktext(self, t):
        return u(_canon_term(self.expand(t), {}))

    def ev(self, e):
        if isinstance(e, ast.Constant):
            return e
        if isinstance(e, ast.Name):
            if e.id in self.env:
                return copy.deepcopy(self.env[e.id])
            if e.id in self.consts:
                return copy.deepcopy(self.consts[e.id])
            return ast.Name(id=e.id, ctx=ast.Load())
        if isinstance(e, ast.Attribute):
            node = ast.Attribute(value=self.ev(e.value), attr=e.attr, ctx=ast.Load())
            k = u(self.expand(node))
            return copy.deepcopy(self.attrs[k]) if k in self.attrs else node
        if isinstance(e, ast.Subscript):
            return ast.Subscript(value=self.ev(e.value), slice=self.ev(e.slice), ctx=ast.Load())
        if isinstance(e, ast.Slice):
            return ast.Slice(lower=self.ev(e.lower) if e.lower else None, upper=self.ev(e.upper) if e.upper else None, step=self.ev(e.step) if e.step else None)
        if isinstance(e, (ast.Tuple, ast.List)):
            return type(e)(elts=[self.ev(x) for x in e.elts], ctx=ast.Load())
        if isinstance(e, ast.IfExp):
            return self.ev(e.body) if self.truth(self.ev(e.test)) else self.ev(e.orelse)
        if isinstance(e, ast.BoolOp):
            return ast.BoolOp(op=e.op, values=[self.ev(v) for v in e.values])
        if isinstance(e, ast.UnaryOp):
            return ast.UnaryOp(op=e.op, operand=self.ev(e.operand))
        if isinstance(e, ast.BinOp):
            return ast.BinOp(left=self.ev(e.left), op=e.op, right=self.ev(e.right))
        if isinstance(e, ast.Compare):
            return ast.Compare(left=self.ev(e.left), ops=e.ops, comparators=[self.ev(c) for c in e.comparators])
        if isinstance(e, ast.Call):
            if any(isinstance(a, ast.Starred) for a in e.args) or any(k.arg is None for k in e.keywords):
                raise Undecided(f'{self.what}: star arguments in {u(e)[:60]}')
            h = self._helper(e)
            if h is not None:
                return self._run_helper(h, e)
            call = ast.Call(func=self.ev(e.func) if isinstance(e.func, ast.Attribute) else e.func, args=[self.ev(a) for a in e.args],
                            keywords=[ast.keyword(arg=k.arg, value=self.ev(k.value)) for k in e.keywords])
            if isinstance(e.func, ast.Name) and e.func.id in SX_PURE and e.func.id not in self.env:
                return call
            self.calls.append(call)
            self.effects.append(('call', len(self.calls) - 1))
            return _call_ref(len(self.calls) - 1)
        if isinstance(e, _COMP):
            return self._subst(e)
        if isinstance(e, (ast.JoinedStr, ast.Lambda)):
            return e
        raise Undecided(f'{self.what}: expression {u(e)[:60]} is outside what the path evaluation understands')

    # ----- calls to helpers that are not part of the reference tree (extracted code): their body is run in place
    def _helper(self, e):
        """(helper FuncInfo, receiver term or None, class whose MRO applies inside it) for a call the evaluation can run in place."""
        from ..inline import known_symbols
        if self.model is None or self.fi is None or self.depth >= 4:
            return None
        f, m = e.func, self.model
        h = recv = cls_in = None
        if isinstance(f, ast.Attribute):
            if isinstance(f.value, ast.Call) and u(f.value) == 'super()' and self.fi.cls is not None and self.recv_cls is not None:
                mro = m.mro(self.recv_cls)
                after = mro[mro.index(self.fi.cls.qualname) + 1:] if self.fi.cls.qualname in mro else []
                h = next((m.classes[c].methods[f.attr] for c in after if c in m.classes and f.attr in m.classes[c].methods), None)
                recv, cls_in = self.env.get(self.fi.params()[0], ast.Name(id=self.fi.params()[0], ctx=ast.Load())), self.recv_cls
            elif isinstance(f.value, (ast.Name, ast.Attribute)):
                r = self.ev(f.value)
                if isinstance(r, ast.Name) and r.id == self.top_first and r.id in ('self', 'cls') and self.top_cls is not None:
                    h, recv, cls_in = m.find_method(self.top_cls, f.attr), r, self.top_cls
                elif self.ktext(r) in self.types:
                    cq = self.types[self.ktext(r)]
                    h, recv, cls_in = m.find_method(cq, f.attr), r, cq
                    if h is not None and h.qualname not in known_symbols():
                        over = [c.qualname for c in m.subclasses(cq) if f.attr in c.methods]
                        if over:
                            raise Undecided(f'{self.what}: {u(f)}() is called on an object only known to be a {cq.rsplit(".", 1)[-1]}, and {over[0]} overrides it')
        elif isinstance(f, ast.Name) and f.id not in self.env:
            h = self.fi.module.functions.get(f.id)
        if h is None or h.qualname in known_symbols() or h.node is self.fn:
            return None
        a = h.node.args
        if a.vararg or a.kwarg or isinstance(h.node, ast.AsyncFunctionDef) or any(isinstance(n, (ast.Yield, ast.YieldFrom)) for n in ast.walk(h.node)):
            return None
        return (h, recv, cls_in)

    def _run_helper(self, hr, e):
        h, recv, cls_in = hr
        a = h.node.args
        params = [x.arg for x in a.posonlyargs + a.args]
        decos = {u(d) for d in h.node.decorator_list}
        if decos - {'staticmethod', 'classmethod'}:
            raise Undecided(f'{self.what}: helper {h.qualname} is decorated ({sorted(decos)}): its effect cannot be evaluated')
        bound = {}
        if h.cls is not None and 'staticmethod' not in decos:
            bound[params[0]] = copy.deepcopy(recv) if recv is not None else ast.Name(id=params[0], ctx=ast.Load())
            params = params[1:]
        if len(e.args) > len(params):
            raise Undecided(f'{self.what}: call of helper {h.qualname} does not fit its parameters')
        for p_, v in zip(params, e.args):
            bound[p_] = self.ev(v)
        for k in e.keywords:
            bound[k.arg] = self.ev(k.value)
        defaults = dict(zip([x.arg for x in a.posonlyargs + a.args][-len(a.defaults):] if a.defaults else [], a.defaults))
        defaults.update({x.arg: d for x, d in zip(a.kwonlyargs, a.kw_defaults) if d is not None})
        for p_ in params + [x.arg for x in a.kwonlyargs]:
            if p_ not in bound:
                if p_ not in defaults:
                    raise Undecided(f'{self.what}: call of helper {h.qualname} does not fit its parameters')
                bound[p_] = defaults[p_]
        saved = (self.env, self.outcome, self.fn, self.fi, self.recv_cls)
        self.env, self.outcome, self.fn, self.fi = bound, None, h.node, h
        self.recv_cls = cls_in or self.recv_cls
        self.depth += 1
        try:
            self.run([x for x in h.node.body if not (isinstance(x, ast.Expr) and isinstance(x.value, ast.Constant))])
            out = self.outcome
        finally:
            self.depth -= 1
            self.env, self.fn, self.fi, self.recv_cls = saved[0], saved[2], saved[3], saved[4]
        if out is not None and out[0] == 'raise':
            self.outcome = out           # propagates
            return ast.Constant(value=None)
        self.outcome = saved[1]
        return out[1] if out is not None and out[0] == 'return' and out[1] is not None else ast.Constant(value=None)

    def _subst(self, e, keep=()):
        """Copy of `e` with locals replaced by their terms (names bound inside `e` or listed in `keep` are left alone)."""
        sx = self

        class T(ast.NodeTransformer):
            def __init__(self):
                self.bound = [set(keep)]

            def _comp(self, node):
                names = set()
                for g in node.generators:
                    names |= {n.id for n in ast.walk(g.target) if isinstance(n, ast.Name)}
                self.bound.append(names)
                self.generic_visit(node)
                self.bound.pop()
                return node
            visit_ListComp = visit_SetComp = visit_DictComp = visit_GeneratorExp = _comp

            def visit_Lambda(self, node):
                return node

            def visit_Name(self, node):
                if isinstance(node.ctx, ast.Load) and not any(node.id in b for b in self.bound) and node.id in sx.env:
                    return copy.deepcopy(sx.env[node.id])
                return node

            def visit_Attribute(self, node):
                self.generic_visit(node)
                k = u(sx.expand(node))
                return copy.deepcopy(sx.attrs[k]) if k in sx.attrs and isinstance(node.ctx, ast.Load) else node
        return T().visit(copy.deepcopy(e))

    # ----- tests
    def ask(self, key):
        if key not in self.scenario:
            raise _Fork(key)
        self.read.append(key)
        return self.scenario[key]

    def truth(self, t):
        if isinstance(t, ast.Constant):
            return bool(t.value)
        if isinstance(t, ast.UnaryOp) and isinstance(t.op, ast.Not):
            return not self.truth(t.operand)
        if isinstance(t, ast.BoolOp):
            if isinstance(t.op, ast.And):
                return all(self.truth(v) for v in t.values)
            return any(self.truth(v) for v in t.values)
        if isinstance(t, ast.Call) and isinstance(t.func, ast.Name) and t.func.id == 'isinstance' and len(t.args) == 2:
            ans = self.ask(('isinstance', self.ktext(t.args[0]), self.ktext(t.args[1])))
            if ans and self.model is not None and self.fi is not None and isinstance(t.args[1], (ast.Name, ast.Attribute)):
                q = self.model.resolve(self.fi.module, t.args[1])
                if q in self.model.classes:
                    self.types[self.ktext(t.args[0])] = q
            return ans
        if isinstance(t, ast.Compare):
            res, left = True, t.left
            for op, right in zip(t.ops, t.comparators):
                res = res and self._cmp(left, op, right)
                if not res:
                    return False
                left = right
            return res
        if isinstance(t, (ast.Tuple, ast.List)):
            return bool(t.elts)
        return self.ask(('truthy', self.ktext(t)))

    def _cmp(self, l, op, r):
        if isinstance(op, (ast.Is, ast.IsNot, ast.Eq, ast.NotEq)) and (is_none(l) or is_none(r)):
            o = r if is_none(l) else l
            v = is_none(o) if isinstance(o, ast.Constant) else self.ask(('none', self.ktext(o)))
            return v if isinstance(op, (ast.Is, ast.Eq)) else not v
        a = atoms(ast.Compare(left=l, ops=[op], comparators=[r]), True, key=self.ktext)
        if not a or len(a) != 1:
            raise Undecided(f'{self.what}: comparison {self.ktext(l)} {type(op).__name__} {self.ktext(r)} cannot be put in normal form')
        (kind, x, y), = a
        # lengths are never negative: comparisons of len(...) with 0 / 1 are emptiness tests
        def ln(z):
            return z[4:-1] if z.startswith('len(') and z.endswith(')') and z.count('(') == z.count(')') else None
        if kind in ('eq', 'ne') and '0' in (x, y) and ln(y if x == '0' else x):
            v = self.ask(('truthy', ln(y if x == '0' else x)))
            return (not v) if kind == 'eq' else v
        if kind in ('lt', 'le'):
            if ln(y) and x in ('0', '1', '-1'):              # c < len / c <= len
                c = int(x) + (1 if kind == 'lt' else 0)       # len >= c
                return True if c <= 0 else self.ask(('truthy', ln(y))) if c == 1 else self.ask(('lt', x, y) if kind == 'lt' else ('le', x, y))
            if ln(x) and y in ('0', '1', '-1'):              # len < c / len <= c
                c = int(y) - (1 if kind == 'lt' else 0)       # len <= c
                return False if c < 0 else (not self.ask(('truthy', ln(x)))) if c == 0 else self.ask(('lt', x, y) if kind == 'lt' else ('le', x, y))
        if kind == 'ne':
            return not self.ask(('eq', x, y))
        if kind == 'le':
            return not self.ask(('lt', y, x))
        if kind in ('notin', 'isnot'):
            return not self.ask(({'notin': 'in', 'isnot': 'is'}[kind], x, y))
        return self.ask((kind, x, y))

    # ----- statements
    def bind(self, target, v):
        if isinstance(target, ast.Name):
            self.env[target.id] = v
        elif isinstance(target, (ast.Tuple, ast.List)):
            if isinstance(v, (ast.Tuple, ast.List)) and len(v.elts) == len(target.elts):
                for t, x in zip(target.elts, v.elts):
                    self.bind(t, x)
            else:
                for k, t in enumerate(target.elts):
                    self.bind(t, ast.Subscript(value=copy.deepcopy(v), slice=ast.Constant(value=k), ctx=ast.Load()))
        elif isinstance(target, ast.Attribute):
            k = u(self.expand(ast.Attribute(value=self.ev(target.value), attr=target.attr, ctx=ast.Load())))
            self.attrs[k] = v
            self.effects.append(('store', k, v))
        elif isinstance(target, ast.Subscript):
            self.effects.append(('setitem', ast.Subscript(value=self.ev(target.value), slice=self.ev(target.slice), ctx=ast.Load()), v))
        else:
            raise Undecided(f'{self.what}: assignment target {u(target)[:40]}')

    def run(self, stmts):
        for s in stmts:
            if self.outcome is not None:
                return
            if isinstance(s, ast.Expr) and isinstance(s.value, ast.Constant) or isinstance(s, ast.Pass):
                continue
            if isinstance(s, ast.Assign):
                v = self.ev(s.value)
                for t in s.targets:
                    self.bind(t, v)
            elif isinstance(s, ast.AnnAssign):
                if s.value is not None:
                    self.bind(s.target, self.ev(s.value))
            elif isinstance(s, ast.AugAssign) and isinstance(s.target, ast.Name):
                self.env[s.target.id] = ast.BinOp(left=self.ev(ast.Name(id=s.target.id, ctx=ast.Load())), op=s.op, right=self.ev(s.value))
            elif isinstance(s, ast.Expr):
                self.ev(s.value)
            elif isinstance(s, ast.If):
                self.run(s.body if self.truth(self.ev(s.test)) else s.orelse)
            elif isinstance(s, ast.For) and not s.orelse:
                stored = {n.id for n in ast.walk(s) if isinstance(n, ast.Name) and isinstance(n.ctx, ast.Store)}
                if any(isinstance(x, (ast.Return, ast.Break)) for x in ast.walk(s)):
                    raise Undecided(f'{self.what}: loop with return / break: {u(s)[:60]}')
                loop = ast.For(target=s.target, iter=self._subst(s.iter), body=[self._subst(b, keep=stored) for b in s.body], orelse=[])
                self.effects.append(('loop', ast.fix_missing_locations(ast.copy_location(loop, s))))
                for nme in stored:
                    self.env[nme] = ast.Name(id=f'?{nme}', ctx=ast.Load())
            elif isinstance(s, ast.Return):
                self.outcome = ('return', None if s.value is None else self.ev(s.value))
            elif isinstance(s, ast.Raise):
                self.outcome = ('raise', raised_name(s))
            else:
                raise Undecided(f'{self.what}: statement `{u(s)[:60]}` is outside what the path evaluation understands')

    def top_effects(self):
        """Effects that are not just the computation of a value used by a later effect / the result."""
        used = set()

        def refs(t):
            if isinstance(t, ast.AST):
                for n in ast.walk(t):
                    if isinstance(n, ast.Name) and n.id.startswith('@'):
                        used.add(int(n.id[1:]))
        for c in self.calls:
            refs(c)
        for e in self.effects:
            if e[0] in ('store', 'setitem'):
                refs(e[2])
                refs(e[1])
            elif e[0] == 'loop':
                refs(e[1])
        if self.outcome and self.outcome[0] == 'return':
            refs(self.outcome[1])
        return [e for e in self.effects if not (e[0] == 'call' and e[1] in used)]


def _canon_term(t, scenario):
    """Normal form of a term for comparison: an input known to be None in this situation reads None; [f(x) for x in X] is
    list(map(f, X))."""
    nones = {k[1] for k, v in scenario.items() if k[0] == 'none' and v}

    class T(ast.NodeTransformer):
        def generic_visit(self, node):
            if isinstance(node, ast.expr) and not isinstance(node, ast.Constant) and nones:
                try:
                    if u(node) in nones:
                        return ast.Constant(value=None)
                except Exception:
                    pass
            return super().generic_visit(node)

        def visit_ListComp(self, node):
            self.generic_visit(node)
            if len(node.generators) == 1 and not node.generators[0].ifs and isinstance(node.generators[0].target, ast.Name) and isinstance(node.elt, ast.Call) \
                    and isinstance(node.elt.func, (ast.Name, ast.Attribute)) and not node.elt.keywords and len(node.elt.args) == 1 \
                    and isinstance(node.elt.args[0], ast.Name) and node.elt.args[0].id == node.generators[0].target.id \
                    and node.generators[0].target.id not in {n.id for n in ast.walk(node.elt.func) if isinstance(n, ast.Name)}:
                return ast.Call(func=ast.Name(id='list', ctx=ast.Load()), args=[ast.Call(func=ast.Name(id='map', ctx=ast.Load()), args=[node.elt.func, node.generators[0].iter], keywords=[])], keywords=[])
            return node
    return ast.fix_missing_locations(T().visit(copy.deepcopy(t)))


def sx_paths(fi, consts=None, limit=256, model=None, recv_cls=None):
    """Every path of the function: [(scenario, Sx)] - one run per combination of the tests it consults."""
    body = [s for s in fi.node.body if not (isinstance(s, ast.Expr) and isinstance(s.value, ast.Constant))]
    out, todo = [], [{}]
    while todo:
        sc = todo.pop()
        if len(out) + len(todo) > limit:
            raise Undecided(f'{fi.qualname}: more than {limit} paths')
        sx = Sx(fi.node, sc, consts, fi.qualname, model, fi, recv_cls)
        try:
            sx.run(body)
        except _Fork as f:
            todo.append({**sc, f.key: False})
            todo.append({**sc, f.key: True})
            continue
        if sx.outcome is None:
            sx.outcome = ('fall', None)
        out.append((sc, sx))
    return out


def sx_complete(paths, keys, fi):
    """Paths split further on specification keys they did not consult (same outcome for both values); a path that consults
    a test the specification does not know makes the function undecidable for the rule."""
    out = []
    for sc, sx in paths:
        extra = [k for k in sc if k not in keys]
        if extra:
            raise Undecided(f'{fi.qualname}: the outcome depends on the test {extra[0]}, which the specification of the rule does not mention')
        scs = [dict(sc)]
        for k in keys:
            if k not in sc:
                scs = [{**x, k: v} for x in scs for v in (True, False)]
        out += [(x, sx) for x in scs]
    return out


def _cases(fl, t, pol, at, _depth=0):
    """Disjunctive normal form of `t` having truth value `pol` when evaluated at statement `at`: a list of atom sets (each
    joined with the path condition of the assignment it comes from when `t` is a flag variable).  None: cannot be evaluated."""
    if _depth > 6 or at is None:
        return None
    if isinstance(t, ast.UnaryOp) and isinstance(t.op, ast.Not):
        return _cases(fl, t.operand, not pol, at, _depth)
    if isinstance(t, ast.Constant):
        return [set()] if bool(t.value) == pol else []
    if isinstance(t, ast.BoolOp):
        parts = [_cases(fl, v, pol, at, _depth) for v in t.values]
        if any(x is None for x in parts):
            return None
        if isinstance(t.op, ast.And) == pol:        # all parts hold
            out = [set()]
            for ps in parts:
                out = [a | b for a in out for b in ps]
            return out
        return [c for ps in parts for c in ps]
    if isinstance(t, ast.Name):
        d, v = fl.definition(t.id, at)
        if v is not None and fl._unchanged(v, d, at):
            return _cases(fl, v, pol, d, _depth + 1)
        if not isinstance(d, ast.AST):
            return None
        # a flag assigned on several branches of the statement that last bound it
        sites = [x for x in [d] + list(stmts_in([d])) if isinstance(x, ast.Assign) and binds(x, t.id)]
        if not sites or any(def_value(x) is None for x in sites) or any(isinstance(x, (ast.For, ast.While, ast.AugAssign)) and binds(x, t.id) for x in stmts_in([d])):
            return None
        base = fl.atoms_at(d)
        out = []
        for x in sites:
            v = fl.resolve(def_value(x), x)
            if not fl._unchanged_names(_loads(v), x, at):        # what the flag was computed from is still the same at the test
                return None
            cs = _cases(fl, v, pol, x, _depth + 1)
            if cs is None:
                return None
            here = fl.atoms_at(x) - base
            out += [c | here for c in cs]
        return out
    if isinstance(t, ast.Call) and not (isinstance(t.func, ast.Name) and t.func.id in PURE_CALLS):
        return None
    a = atoms(fl.resolve(t, at), pol)
    return None if a is None else [a]


def _all_in_range(case, ip):
    """The facts show every element of the index array `ip` to be a valid (possibly negative) position: the array is empty, or
    its minimum is >= -len(self) and its maximum is < len(self)."""
    if ('eq', '0', f'{ip}.size') in case or ('eq', '0', f'len({ip})') in case:
        return True
    mins = {f'{ip}.min()', f'int({ip}.min())', f'np.min({ip})', f'int(np.min({ip}))', f'min({ip})'}
    maxs = {f'{ip}.max()', f'int({ip}.max())', f'np.max({ip})', f'int(np.max({ip}))', f'max({ip})'}
    n = sym('len(self)')

    def aff(txt):
        try:
            return Aff.try_of(ast.parse(txt, mode='eval').body)
        except SyntaxError:
            return None
    lo = any(f[0] in ('le', 'lt') and f[2] in mins and aff(f[1]) == (n.scale(-1) if f[0] == 'le' else n.scale(-1).plus(-1)) for f in case if len(f) == 3)
    hi = any(f[0] in ('le', 'lt') and f[1] in maxs and aff(f[2]) == (n if f[0] == 'lt' else n.plus(-1)) for f in case if len(f) == 3)
    return lo and hi


def check_dispatch(ctx):
    rep, m = ctx.rep, ctx.model
    fi = m.func(f'{IDX}.__getitem__')
    rep.functions.add(fi.qualname)
    fn = fi.node
    fl = Flow(fn, module_constants(fi.module))
    gm = fl.gm
    ip = fi.params()[1]
    rets = [s for s in stmts_in(fn.body) if isinstance(s, ast.Return)]
    raises = [s for s in stmts_in(fn.body) if isinstance(s, ast.Raise)]
    # the index may only be rebound to something the rules can evaluate (array conversion / copy / arithmetic), not to the
    # result of a call they cannot look into
    opaque = []
    for s in stmts_in(fn.body):
        if isinstance(s, ast.Assign) and any(u(t) == ip for t in s.targets) and isinstance(s.value, ast.Call):
            f = u(s.value.func).replace('numpy.', 'np.')
            if not (f in FRESH_CALLS | ALIAS_CALLS or (isinstance(s.value.func, ast.Attribute) and _root(s.value.func) == ip)):
                opaque.append(f)

    def ret_calling(name):
        return [r for r in rets if isinstance(r.value, ast.Call) and u(r.value.func) == f'self.{name}']

    def isinst(types):
        return [('true', f'isinstance({ip}, {t})') for t in types]
    # int
    r = ret_calling('_getitem_int')
    at = _ret_atoms(fl, r[0]) if r else set()
    okint = len(r) == 1 and any(a in at for a in isinst(['(int, np.integer)', '(np.integer, int)'])) and len(r[0].value.args) == 1 and u(fl.value(r[0].value.args[0], r[0])) == f'self._check_index({ip})'
    rep.add('X1', fi.site(r[0] if r else fn), 'an integer index (Python or NumPy) is bounds-checked, normalised and delegated', okint, expected=f'_getitem_int(_check_index({ip})) under isinstance({ip}, (int, np.integer))',
            found=(u(r[0].value) if r else None, sorted(at)), stmt='int dispatch')
    # slice
    r = ret_calling('_getitem_slice')
    at = _ret_atoms(fl, r[0]) if r else set()
    oks = len(r) == 1 and ('true', f'isinstance({ip}, slice)') in at and ('ne', '0', f'{ip}.step') in at and [u(fl.value(a, r[0])) for a in r[0].value.args] == [ip]
    rep.add('X1', fi.site(r[0] if r else fn), 'a slice with non-zero step is delegated unchanged', oks, expected=f'_getitem_slice({ip}) under isinstance(slice) and step != 0', found=(u(r[0].value) if r else None, sorted(at)),
            stmt='slice dispatch')
    zr = [x for x in raises if ('eq', '0', f'{ip}.step') in fl.atoms_at(x)]
    rep.add('X1', fi.site(zr[0] if zr else fn), 'a zero step raises ValueError (like a list)', len(zr) == 1 and raised_name(zr[0]) == 'ValueError', expected='raise ValueError', found=[raised_name(x) for x in zr],
            stmt='zero step')
    tr = [x for x in raises if raised_name(x) == 'TypeError']
    okt = False
    comps = sorted([f'{ip}.start', f'{ip}.stop', f'{ip}.step'])

    def offending(at, lv):
        # the element is neither None nor an integer
        return ('isnot', 'None', lv) in at and any(a[0] == 'false' and a[1].startswith(f'isinstance({lv}, ') and 'int' in a[1] for a in at)
    for x in tr:
        # raised for SOME component that is neither None nor an integer: inside a loop over the components, or under an
        # existential condition over them (`not all(ok(c) for c in ...)`, `any(bad(c) for c in ...)`)
        bp = block_path(fn, x)
        loop = next((o for (_, _, o) in bp if isinstance(o, ast.For)), None)
        if loop is not None and sorted(u(e) for e in getattr(fl.resolve(loop.iter, loop), 'elts', [])) == comps and isinstance(loop.target, ast.Name):
            okt = okt or offending(fl.atoms_at(x), u(loop.target))
        for it, lv, qa in fl.quantified(x):
            if sorted(u(e) for e in getattr(it, 'elts', [])) == comps:
                okt = okt or offending(qa, lv)
    rep.add('X1', fi.site(tr[0] if tr else fn), 'non-integer slice components raise TypeError', okt, expected='raise TypeError for each of start/stop/step that is neither None nor an integer', found=[u(x)[:50] for x in tr],
            stmt='slice component types')
    # arrays
    r = ret_calling('_getitem_bool_array')
    at = _ret_atoms(fl, r[0]) if r else set()
    okb = len(r) == 1 and ('eq', "'b'", f'{ip}.dtype.kind') in at and ('eq', f'len({ip})', 'len(self)') in at and ('eq', '1', f'{ip}.ndim') in at
    rep.add('X1', fi.site(r[0] if r else fn), 'a boolean mask of the right length and dimension is delegated', okb, expected="kind == 'b', ndim == 1, len(index) == len(self)", found=sorted(at), stmt='bool dispatch')
    r = ret_calling('_getitem_int_array')
    at = _ret_atoms(fl, r[0]) if r else set()
    oki = len(r) == 1 and any(a[0] == 'in' and a[1] == f'{ip}.dtype.kind' and a[2] in ("'iu'", "'ui'") for a in at) and ('eq', '1', f'{ip}.ndim') in at
    rep.add('X1', fi.site(r[0] if r else fn), 'an integer array of dimension one is delegated', oki, expected="kind in 'iu', ndim == 1", found=sorted(at), stmt='int-array dispatch')
    if r:
        # every element bounds-checked before the delegation
        loops = [s for s in stmts_in(fn.body) if isinstance(s, ast.For) and u(s.iter) == ip and fl.order[id(s)] < fl.order[id(r[0])]]
        loops = [lp for lp in loops if len(lp.body) == 1 and isinstance(lp.body[0], ast.Expr) and u(lp.body[0].value) == f'self._check_index({u(lp.target)})']
        # The per-element check runs on every path to the delegation, except under conditions that themselves show every
        # element to be in range (an array-wide test -len(self) <= min, max < len(self), or an empty array).
        okc, found, unknown = False, [u(lp)[:60] for lp in loops], None
        for lp in loops:
            shared = gm[r[0]]
            extra = [(t, p) for (t, p) in gm[lp] if not any(t is t2 and p == p2 for (t2, p2) in shared)]
            extra = [(t, p) for (t, p) in extra if not ((a := atoms(fl.resolve(t, fl.test_owner.get(id(t))), p)) is not None and a <= at)]
            bad = []
            for t, p in extra:
                cs = _cases(fl, t, not p, fl.test_owner.get(id(t)))          # when the loop is skipped
                if cs is None:
                    unknown = u(t)
                    continue
                bad += [sorted(c) for c in cs if not _all_in_range(c, ip)]
            if not bad and unknown is None:
                okc = True
                break
            found = [u(lp)[:60] + ' ... skipped when ' + str(b) for b in bad] or found
        rep.require(okc or unknown is None or not loops, f'__getitem__: the per-element bounds check is skipped under `{unknown}`, a condition the rule cannot evaluate '
                    '(not built from comparisons / flags assigned from comparisons in this function)')
        rep.add('X1', fi.site(loops[0] if loops else r[0]), 'every element of an integer index array is bounds-checked before use', okc, expected=f'for i in {ip}: self._check_index(i) (skipped only when all elements are shown in range)', found=found,
                stmt='element bounds check')
    deleg = [r_ for r_ in rets if isinstance(r_.value, ast.Call) and u(r_.value.func) in ('self._getitem_int', 'self._getitem_slice', 'self._getitem_bool_array', 'self._getitem_int_array')]
    rep.account_returns('X1', fi, deleg, 'selection')
    ir = [x for x in raises if raised_name(x) == 'IndexError']
    conds = {frozenset(fl.atoms_at(x)) for x in ir}
    nd = any(('ne', '1', f'{ip}.ndim') in c for c in conds)
    ln = any(('ne', f'len({ip})', 'len(self)') in c for c in conds)
    rep.add('X1', fi.site(), 'multi-dimensional index arrays and masks of the wrong length raise IndexError', nd and ln, expected='ndim != 1 / length mismatch -> IndexError', found=[sorted(c) for c in conds], stmt='array shape errors')
    last = fn.body[-1]
    exhaustive = always_exits([last]) if isinstance(last, ast.If) else isinstance(last, (ast.Return, ast.Raise))
    rep.add('X1', fi.site(last), 'the dispatch is exhaustive: every path ends in a return or a raise (other dtypes raise IndexError)', exhaustive, expected='final else: raise IndexError', found=u(last)[:40], stmt='exhaustive')
    # empty-sequence special case keeps integer dtype
    emp = [s for s in stmts_in(fn.body) if isinstance(s, ast.Assign) and u(s.targets[0]) == ip and isinstance(s.value, ast.Call) and u(s.value.func) == 'np.empty']
    oke = len(emp) == 1 and ('eq', '0', f'len({ip})') in fl.atoms_at(emp[0]) and u(get_arg(emp[0].value, 1, 'dtype')) == 'int' \
        and u(get_arg(emp[0].value, 0, 'shape')) in ('0', '(0,)', '[0]')
    if oke or not opaque:
        rep.add('X1', fi.site(emp[0] if emp else fn), 'an empty index sequence selects nothing (integer dtype forced)', oke, expected='np.empty(0, dtype=int) under len(index) == 0', found=[u(e) for e in emp], stmt='empty sequence')
    conv = [c for c in calls_in(fn) if u(c.func) in ('np.asarray', 'np.array')]
    okv = False
    for c in conv:
        st = next(s for s in stmts_in(fn.body) if any(x is c for x in ast.walk(s)) and isinstance(s, ast.Assign))
        bp = block_path(fn, st)
        tr_ = next((o for (_, _, o) in bp if isinstance(o, ast.Try)), None)
        okv = okv or (tr_ is not None and any(any(isinstance(x, ast.Raise) and raised_name(x) == 'IndexError' for x in h.body) for h in tr_.handlers))
    if okv or not opaque:
        rep.add('X1', fi.site(conv[0] if conv else fn), 'an object that cannot be interpreted as an index array raises IndexError', okv, expected='np.asarray failure -> IndexError', found=[u(c) for c in conv], stmt='conversion error')
    undecided = (not oke or not okv) and opaque
    # conversion applies to everything that is not yet an array, and only to that (an array passes through as the same object)
    convs = emp + [st_ for st_ in stmts_in(fn.body) if isinstance(st_, ast.Assign) and u(st_.targets[0]) == ip and isinstance(st_.value, ast.Call) and u(st_.value.func) in ('np.asarray', 'np.array')]
    if convs and not opaque:
        okg = all(('false', f'isinstance({ip}, np.ndarray)') in fl.atoms_at(c) for c in convs)
        rep.add('X1', fi.site(convs[0]), 'only an index that is not already an array is converted to one', okg, expected=f'conversion under not isinstance({ip}, np.ndarray)', found=[sorted(fl.atoms_at(c)) for c in convs], stmt='conversion guard')
    # negative conversion adds len(self) exactly where negative
    adds = [c for c in calls_in(fn) if u(c.func) == 'np.add'] + [c for c in calls_in(fn) if u(c.func) == 'np.where']
    okn = False
    negname = None
    for c in adds:
        if u(c.func) == 'np.add':
            cst_ = next((s_ for s_ in stmts_in(fn.body) if not isinstance(s_, (ast.If, ast.For, ast.While, ast.With, ast.Try)) and any(x is c for x in ast.walk(s_))), None)
            okn = okn or ([u(a) for a in c.args[:1]] + [u(fl.resolve(a, cst_)) for a in c.args[1:]] == [ip, 'len(self)'] and isinstance(get_kw(c, 'where'), ast.Name)
                          and get_kw(c, 'out') is not None and u(get_kw(c, 'out')) == ip)          # in place: without out= the sum is discarded (and undefined where the mask is False)
            negname = u(get_kw(c, 'where')) if get_kw(c, 'where') is not None else negname
        else:
            okn = okn or (len(c.args) == 3 and isinstance(c.args[0], ast.Name) and u(c.args[1]) in (f'{ip} + len(self)', f'len(self) + {ip}') and u(c.args[2]) == ip)
            negname = u(c.args[0]) if c.args else negname
    isn = [s for s in stmts_in(fn.body) if isinstance(s, ast.Assign) and u(s.targets[0]) == negname]
    okn = okn and len(isn) == 1 and atoms(isn[0].value) == {('lt', ip, '0')}
    rep.add('X1', fi.site(adds[0] if adds else fn), 'negative entries are converted by adding len(self), others untouched', okn, expected='index + len(self) where index < 0', found=[u(c) for c in adds], stmt='negative conversion')
    # ... and the conversion happens whenever there IS a negative entry: on the way to the delegation it is unconditional or
    # skipped only when no entry is negative (`mask.any()` false for mask = index < 0)
    r = ret_calling('_getitem_int_array')
    if adds and r and len(isn) == 1:
        cst = next((s_ for s_ in stmts_in(fn.body) if not isinstance(s_, (ast.If, ast.For, ast.While, ast.With, ast.Try)) and any(x is adds[0] for x in ast.walk(s_))), None)
        rep.require(cst is not None, '__getitem__: the negative-index conversion is not a simple statement')
        shared = gm[r[0]]
        extra = [(t, p) for (t, p) in gm[cst] if not any(t is t2 and p == p2 for (t2, p2) in shared)]
        anyneg = {f'{negname}.any()', f'np.any({negname})', f'any({negname})', f'({ip} < 0).any()', f'np.any({ip} < 0)', f'np.count_nonzero({negname})', f'{negname}.sum()'}
        okw, odd = True, None
        for t, p in extra:
            while isinstance(t, ast.UnaryOp) and isinstance(t.op, ast.Not):
                t, p = t.operand, not p
            if u(t) in anyneg:
                okw = okw and p             # skipped exactly when there is nothing to convert
            elif isinstance(t, ast.Constant):
                okw = okw and bool(t.value) == p
            else:
                odd = u(t)
        rep.require(odd is None or not okw, f'__getitem__: the negative-index conversion is guarded by `{odd}`, a condition the rule cannot relate to "some entry is negative"')
        rep.add('X1', fi.site(cst), 'the conversion is applied whenever some entry is negative', okw, expected=f'unconditional, or under {negname}.any()', found=[(u(t), p) for t, p in extra], stmt='negative conversion guard')
    rep.require(not undecided, f'__getitem__: the index is replaced by the result of {", ".join(opaque)}(...), a call the dispatch rules cannot look into '
                '(helper not expanded): the empty-sequence / conversion-error handling cannot be located')


def check_alias(ctx):
    rep, m = ctx.rep, ctx.model
    total = 0
    fams = [f'{IDX}.__getitem__', f'{IDX}._getitem_slice', f'{IDX}._getitem_bool_array', f'{IDX}._check_index',
            f'{BASE}.ConcatenatedSignatureArray._getitem_slice', f'{BASE}.ConcatenatedSignatureArray._getitem_int_array',
            f'{BASE}.ConcatenatedSignatureArray._getitem_int', f'{BASE}.SignatureList._getitem_int_array', f'{BASE}.SignatureList._getitem_int',
            f'{BASE}.AnnotatedSignatures.__getitem__']
    for q in fams:
        fi = m.func(q)
        rep.functions.add(fi.qualname)
        total += alias_analysis(ctx, fi)
    # positive control: the rule must fire on the (repaired) defective shape and stay quiet on the copy-first shape
    from ..report import Report
    bad = m.snippet_func(CONTROL_BAD)
    good = m.snippet_func(CONTROL_GOOD)
    shadow = type(ctx)(m, Report('C20'), ctx.tier)
    alias_analysis(shadow, bad)
    fired = any(not o.ok for o in shadow.rep.obs)
    shadow2 = type(ctx)(m, Report('C20'), ctx.tier)
    alias_analysis(shadow2, good)
    quiet = all(o.ok for o in shadow2.rep.obs) and bool(shadow2.rep.obs)
    rep.require(fired and quiet, f'X2 positive control failed (fires on bad shape: {fired}, quiet on good shape: {quiet})')
    rep.info['x2_positive_control'] = dict(fires_on_identity_guarded_copy=fired, quiet_on_unconditional_copy=quiet)
    rep.info['inplace_write_sites'] = total


def _implies_lt(at, a, b):
    """The path condition `at` implies a < b (affine forms): some fact x < y / x <= y with (b - a) - (y - x) a large enough constant."""
    if a is None or b is None:
        return False
    gap = b.sub(a)
    if gap.is_const():
        return gap.const >= 1
    for f in at:
        if f[0] in ('lt', 'le') and len(f) == 3:
            try:
                x, y = Aff.try_of(ast.parse(f[1], mode='eval').body), Aff.try_of(ast.parse(f[2], mode='eval').body)
            except SyntaxError:
                continue
            if x is None or y is None:
                continue
            d = gap.sub(y.sub(x))
            if d.is_const() and d.const >= (0 if f[0] == 'lt' else 1):
                return True
    return False


def _aff_ast(a):
    terms = sorted(a.terms.items())
    if len(terms) == 1 and terms[0][1] == 1 and '(' not in terms[0][0] and '[' not in terms[0][0]:
        base = ast.parse(terms[0][0], mode='eval').body
        if a.const == 0:
            return base
        return ast.BinOp(left=base, op=ast.Add() if a.const > 0 else ast.Sub(), right=ast.Constant(value=abs(int(a.const))))
    return None


def _sections(e, at, inrange):
    """Rewrite the ends of a section of the bounds array: self.bounds[a:b][0] -> self.bounds[a], self.bounds[a:b][-1] ->
    self.bounds[b - 1].  Valid only for a non-empty section that is not clipped: a < b follows from the path condition `at`,
    and a and b - 1 are normalised positions (results of slice.indices(len(self)) with a positive step, so within
    0..len(self), the valid positions of the bounds array).  Anything else is left as written."""
    class T(ast.NodeTransformer):
        def visit_Subscript(self, node):
            self.generic_visit(node)
            inner = node.value
            if isinstance(inner, ast.Subscript) and isinstance(inner.slice, ast.Slice) and inner.slice.step is None and u(inner.value) == 'self.bounds' \
                    and inner.slice.lower is not None and inner.slice.upper is not None and not isinstance(node.slice, ast.Slice):
                k = Aff.try_of(node.slice)
                a, b = Aff.try_of(inner.slice.lower), Aff.try_of(inner.slice.upper)
                if k is None or not k.is_const() or k.const not in (0, -1) or a is None or b is None:
                    return node
                last = b.plus(-1)
                if not (_implies_lt(at, a, b) and str(a) in inrange and str(last) in inrange):
                    return node
                pos = _aff_ast(a if k.const == 0 else last)
                if pos is None:
                    return node
                return ast.Subscript(value=inner.value, slice=pos, ctx=ast.Load())
            return node
    return ast.fix_missing_locations(T().visit(e)) if e is not None else None


def check_arith(ctx):
    rep, m = ctx.rep, ctx.model
    # X3
    fi = m.func(f'{IDX}._check_index')
    rep.functions.add(fi.qualname)
    ip = fi.params()[1]
    fl = Flow(fi.node)
    defs = [s for s in fi.node.body if isinstance(s, ast.Assign)]
    rets = [s for s in stmts_in(fi.node.body) if isinstance(s, ast.Return)]
    rep.require(len(rets) == 1, '_check_index: expected one return')
    # the returned VALUE, with locals (len(self) read once, the sign test bound to a name, ...) replaced by what they stand for
    if isinstance(rets[0].value, ast.Name):
        d, v = fl.definition(rets[0].value.id, rets[0])
        rep.require(v is not None or d in (PARAM, None), f'_check_index: the returned name {rets[0].value.id} is not defined by one assignment (conditional / augmented rebinding): conversion cannot be evaluated')
    conv = fl.resolve(rets[0].value, rets[0])
    rv = u(conv)
    okc = isinstance(conv, ast.IfExp) and atoms(conv.test) == {('lt', ip, '0')} and Aff.try_of(conv.body) == sym(ip).add(sym('len(self)')) and u(conv.orelse) == ip
    rep.add('X3', fi.site(defs[0] if defs else rets[0]), 'a negative index counts from the end: i + len(self) when i < 0', okc, expected=f'{ip} + len(self) if {ip} < 0 else {ip}', found=u(conv), stmt='negative index')
    at = fl.atoms_at(rets[0])
    rep.add('X3', fi.site(rets[0]), 'the normalised index is returned only when 0 <= i2 < len(self)', at == {('le', '0', rv), ('lt', rv, 'len(self)')}, expected=f'0 <= {rv} < len(self)', found=sorted(at), stmt='bounds')
    rs = [s for s in stmts_in(fi.node.body) if isinstance(s, ast.Raise)]
    rep.add('X3', fi.site(rs[0] if rs else rets[0]), 'anything else raises IndexError', len(rs) == 1 and raised_name(rs[0]) == 'IndexError', expected='raise IndexError', found=[raised_name(r) for r in rs], stmt='out of range')
    # X4
    C = f'{BASE}.ConcatenatedSignatureArray'
    fl = m.func(f'{C}.__len__')
    body = [s for s in fl.node.body if isinstance(s, ast.Return)]
    rep.add('X4', fl.site(), 'len == len(bounds) - 1', len(body) == 1 and Aff.try_of(body[0].value) == sym('len(self.bounds)').plus(-1), expected='len(self.bounds) - 1', found=u(body[0].value) if body else None, stmt='length')
    fg = m.func(f'{C}._getitem_int')
    ip = fg.params()[1]
    body = [s for s in fg.node.body if isinstance(s, ast.Return)]
    v = body[0].value if body else None
    okg = isinstance(v, ast.Subscript) and u(v.value) == 'self.values' and isinstance(v.slice, ast.Slice) and v.slice.step is None \
        and u(v.slice.lower) == f'self.bounds[{ip}]' and isinstance(v.slice.upper, ast.Subscript) and u(v.slice.upper.value) == 'self.bounds' \
        and Aff.try_of(v.slice.upper.slice) == sym(ip).plus(1)
    rep.add('X4', fg.site(), 'element i is values[bounds[i] : bounds[i+1]]', okg, expected=f'self.values[self.bounds[{ip}]:self.bounds[{ip} + 1]]', found=u(v), stmt='element')
    fs = m.func(f'{C}.sizeof')
    rets = [s for s in fs.node.body if isinstance(s, ast.Return)]
    iv = None
    for s in fs.node.body:
        if isinstance(s, ast.Assign) and isinstance(s.value, ast.Call) and u(s.value.func) == 'self._check_index':
            iv = u(s.targets[0])
    v = rets[0].value if rets else None
    oks = iv is not None and isinstance(v, ast.BinOp) and isinstance(v.op, ast.Sub) and isinstance(v.left, ast.Subscript) and isinstance(v.right, ast.Subscript) \
        and u(v.left.value) == 'self.bounds' and u(v.right.value) == 'self.bounds' and Aff.try_of(v.left.slice) == sym(iv).plus(1) and Aff.try_of(v.right.slice) == sym(iv)
    rep.add('X4', fs.site(), 'sizeof(i) == bounds[i+1] - bounds[i] of the checked index', oks, expected='self.bounds[i + 1] - self.bounds[i]', found=u(v), stmt='sizeof')
    fsl = m.func(f'{C}._getitem_slice')
    rep.functions.update({fl.qualname, fg.qualname, fs.qualname, fsl.qualname})
    sp = fsl.params()[1]
    gms = guard_map(fsl.node)
    unpack = [s for s in fsl.node.body if isinstance(s, ast.Assign) and isinstance(s.targets[0], ast.Tuple)]
    fls0 = Flow(fsl.node)
    oku = len(unpack) == 1 and u(fls0.resolve(unpack[0].value, unpack[0])) == f'{sp}.indices(len(self))' and len(unpack[0].targets[0].elts) == 3
    rep.add('X4', fsl.site(unpack[0] if unpack else None), 'slice bounds are normalised by slice.indices(len(self))', oku, expected=f'start, stop, step = {sp}.indices(len(self))', found=[u(x) for x in unpack], stmt='slice normalisation')
    rep.require(oku, 'ConcatenatedSignatureArray._getitem_slice: slice normalisation not found')
    start, stop, step = (u(e) for e in unpack[0].targets[0].elts)
    rets = [s for s in stmts_in(fsl.node.body) if isinstance(s, ast.Return)]
    fast = [r for r in rets if isinstance(r.value, ast.Call) and u(r.value.func).endswith('from_arrays')]
    slow = [r for r in rets if r not in fast]
    rep.require(len(fast) == 1, 'ConcatenatedSignatureArray._getitem_slice: fast path not found')
    at = path_atoms(gms[fast[0]])
    rep.add('X4', fsl.site(fast[0]), 'the view fast path is taken only for a non-empty unit-step slice', at == {('eq', '1', step), ('lt', start, stop)}, expected=f'{step} == 1 and {stop} > {start}', found=sorted(at), stmt='fast path condition')
    # ... either by delegating to the generic implementation or by doing what it does (X4 generic slice): the positions
    # np.arange(start, stop, step) of the normalised slice handed to _getitem_int_array
    direct = f'self._getitem_int_array(np.arange({start}, {stop}, {step}))'
    oksl = len(slow) == 1 and (u(slow[0].value) == f'super()._getitem_slice({sp})' or u(fls0.value(slow[0].value, slow[0])) == direct
                               or (isinstance(slow[0].value, ast.Call) and u(slow[0].value.func) == 'self._getitem_int_array' and len(slow[0].value.args) == 1
                                   and u(fls0.value(slow[0].value.args[0], slow[0])) == f'np.arange({start}, {stop}, {step})'))
    # (start / stop / step must still be the normalised values there)
    oksl = oksl and all(fls0.binder(nm, slow[0]) is unpack[0] for nm in (start, stop, step)) if slow and oksl and not u(slow[0].value).startswith('super()') else oksl
    rep.add('X4', fsl.site(slow[0] if slow else None), 'every other slice goes through the generic index-array path', oksl, expected=f'super()._getitem_slice({sp})', found=[u(r.value) for r in slow], stmt='slow path')
    args = fast[0].value.args
    fls = Flow(fsl.node)
    # the VALUES handed to from_arrays: locals replaced by what they stand for (an offset read once, a section of the bounds
    # array read once and then indexed at its ends)
    inrange = {start, stop} if ('eq', '1', step) in at else set()
    vv = bv = None
    if len(args) >= 2:
        out2 = []
        for a in args[:2]:
            seen = []
            r = fls.resolve(a, fast[0], trace=seen)
            # facts that hold wherever a part of the value is computed (a local may be computed outside the guarded branch)
            facts = set(at)
            for d in seen:
                facts &= path_atoms(gms[d])
            out2.append(_sections(r, facts, inrange))
        vv, bv = out2
    okv = isinstance(vv, ast.Subscript) and u(vv.value) == 'self.values' and isinstance(vv.slice, ast.Slice) and vv.slice.step is None \
        and u(vv.slice.lower) == f'self.bounds[{start}]' and u(vv.slice.upper) == f'self.bounds[{stop}]'
    rep.add('X4', fsl.site(fast[0]), 'values of the sub-collection are values[bounds[start] : bounds[stop]]', okv, expected=f'self.values[self.bounds[{start}]:self.bounds[{stop}]]', found=u(vv), stmt='slice values')
    okb = isinstance(bv, ast.BinOp) and isinstance(bv.op, ast.Sub) and isinstance(bv.left, ast.Subscript) and u(bv.left.value) == 'self.bounds' \
        and isinstance(bv.left.slice, ast.Slice) and bv.left.slice.step is None and u(bv.left.slice.lower) == start \
        and Aff.try_of(bv.left.slice.upper) == sym(stop).plus(1) and u(bv.right) == f'self.bounds[{start}]'
    rep.add('X4', fsl.site(fast[0]), 'bounds of the sub-collection are bounds[start : stop+1] - bounds[start]', okb, expected=f'self.bounds[{start}:{stop} + 1] - self.bounds[{start}]', found=u(bv), stmt='slice bounds')
    # generic paths
    g1 = m.func(f'{IDX}._getitem_slice')
    body = [s for s in g1.node.body if not (isinstance(s, ast.Expr) and isinstance(s.value, ast.Constant))]
    fg1 = Flow(g1.node)
    rets1 = [s for s in stmts_in(g1.node.body) if isinstance(s, ast.Return)]
    okg = False
    if len(rets1) == 1 and rets1[0] is g1.node.body[-1] and isinstance(rets1[0].value, ast.Call) and u(rets1[0].value.func) == 'self._getitem_int_array' and len(rets1[0].value.args) == 1:
        # the positions handed on: np.arange over the three numbers slice.indices(len(self)) yields, in its order
        pos = fg1.value(rets1[0].value.args[0], rets1[0])
        want = f'{g1.params()[1]}.indices(len(self))'
        if isinstance(pos, ast.Call) and u(pos.func) == 'np.arange' and not pos.keywords:
            if len(pos.args) == 1 and isinstance(pos.args[0], ast.Starred):
                okg = u(fg1.value(pos.args[0].value, rets1[0])) == want
            elif len(pos.args) == 3 and all(isinstance(a, ast.Name) for a in pos.args):
                d = fg1.binder(pos.args[0].id, rets1[0])
                okg = isinstance(d, ast.Assign) and len(d.targets) == 1 and isinstance(d.targets[0], ast.Tuple) and [u(e) for e in d.targets[0].elts] == [a.id for a in pos.args] \
                    and all(fg1.binder(a.id, rets1[0]) is d for a in pos.args) and u(fg1.resolve(d.value, d)) == want
    rep.add('X4', g1.site(), 'generic slice = the positions range(*slice.indices(len)) as an index array', okg, expected='self._getitem_int_array(np.arange(start, stop, step))', found=[u(s) for s in body], stmt='generic slice')
    g2 = m.func(f'{IDX}._getitem_bool_array')
    body = [s for s in stmts_in(g2.node.body) if isinstance(s, ast.Return)]
    fg2 = Flow(g2.node)
    okm = len(body) == 1 and isinstance(body[0].value, ast.Call) and u(body[0].value.func) == 'self._getitem_int_array' and len(body[0].value.args) == 1 and not body[0].value.keywords \
        and u(fg2.value(body[0].value.args[0], body[0])) == f'np.flatnonzero({g2.params()[1]})'
    rep.add('X4', g2.site(), 'a mask selects the positions of its True entries, ascending (on every path: no special-case return)', okm, expected='np.flatnonzero(mask)',
            found=[u(b.value) for b in body], stmt='mask')
    rep.functions.update({g1.qualname, g2.qualname})
    # a selection is a new collection: no handler hands back the receiver itself (mutable collections use the same handlers)
    n = 0
    for q, fi in sorted(m.functions.items()):
        if fi.cls is None or not (fi.name.startswith('_getitem_') or fi.name == '__getitem__') or not (q.startswith(IDX + '.') or q.startswith(BASE + '.')):
            continue
        n += 1
        selfname = fi.params()[0] if fi.params() else 'self'
        ident = [r for r in stmts_in(fi.node.body) if isinstance(r, ast.Return) and r.value is not None and u(r.value) == selfname]
        rep.add('X4', fi.site(ident[0] if ident else None), f'{fi.cls.node.name}.{fi.name} never returns the collection itself as the selected sub-collection', not ident, expected='a new collection / element',
                found=[f'return {u(r.value)} under {sorted(path_atoms(guard_map(fi.node)[r]))}' for r in ident] or 'no identity return', stmt=f'{fi.cls.node.name}.{fi.name} identity')
    rep.floor('X4', 'selection handlers', n, 6)


def _accumulators(fn, fl):
    """Lists built by one append per iteration: `xs = []` ... `for v in it: <simple assignments>; xs.append(e)`.
    -> ({name: (k-th element, iterable)}, [the loops]).  Only top-level statements of the function; a list that is touched in any
    other way is not modelled."""
    body = fn.body
    inits = {}
    for s in body:
        if isinstance(s, ast.Assign) and len(s.targets) == 1 and isinstance(s.targets[0], ast.Name) \
                and ((isinstance(s.value, ast.List) and not s.value.elts) or (isinstance(s.value, ast.Call) and u(s.value.func) == 'list' and not s.value.args and not s.value.keywords)):
            inits[s.targets[0].id] = s
    out, loops = {}, []
    for lp in body:
        if not isinstance(lp, ast.For) or lp.orelse or not inits:
            continue
        mapping, found, ok = {}, {}, _bind_target(lp.target, _element(fl.resolve(lp.iter, lp)), {})
        _bind_target(lp.target, _element(fl.resolve(lp.iter, lp)), mapping)
        for st in lp.body:
            if isinstance(st, ast.Assign) and len(st.targets) == 1 and all(isinstance(n, (ast.Name, ast.Tuple, ast.Store, ast.Load)) for n in ast.walk(st.targets[0])):
                v = _subst_names(st.value, mapping)
                t = st.targets[0]
                if isinstance(t, ast.Name):
                    mapping[t.id] = v
                elif isinstance(v, ast.Tuple):
                    ok = ok and _bind_target(t, v, mapping)
                else:
                    ok = False
            elif isinstance(st, ast.Expr) and isinstance(st.value, ast.Call) and isinstance(st.value.func, ast.Attribute) and st.value.func.attr == 'append' \
                    and isinstance(st.value.func.value, ast.Name) and st.value.func.value.id in inits and len(st.value.args) == 1 and not st.value.keywords \
                    and st.value.func.value.id not in found:
                found[st.value.func.value.id] = _subst_names(st.value.args[0], mapping)
            else:
                ok = False
        if not ok or not found:
            continue
        # the lists are used nowhere else before / inside the loop
        for name in found:
            uses = [n for x in body[:body.index(lp) + 1] for n in ast.walk(x) if isinstance(n, ast.Name) and n.id == name]
            if len(uses) != 2 or fl.order[id(inits[name])] > fl.order[id(lp)]:
                ok = False
        if ok:
            loops.append(lp)
            for name, e in found.items():
                out[name] = (e, fl.resolve(lp.iter, lp))
    return out, loops


def _plus_one(e):
    if isinstance(e, ast.BinOp) and isinstance(e.op, ast.Add):
        if is_const(e.right, 1):
            return e.left
        if is_const(e.left, 1):
            return e.right
    return None


def _is_size_of(e, ip):
    """`e` is the size of the signature at the k-th requested position: self.sizeof(ip[k]), or the difference of the two bounds
    around the checked position (what sizeof computes - X4 sizeof)."""
    pos = f'{ip}[{K}]'
    if u(e) == f'self.sizeof({pos})':
        return True
    if isinstance(e, ast.BinOp) and isinstance(e.op, ast.Sub) and all(isinstance(x, ast.Subscript) and u(x.value) == 'self.bounds' and not isinstance(x.slice, ast.Slice) for x in (e.left, e.right)):
        hi = _plus_one(e.left.slice)
        return hi is not None and u(hi) == u(e.right.slice) == f'self._check_index({pos})'
    return False


def _is_element_of(e, ip):
    """`e` is the signature at the k-th requested position: self._getitem_int(p) or self.values[self.bounds[p] : self.bounds[p + 1]]
    (X4 element) for p the k-th requested index, as given or bounds-checked."""
    ps = (f'{ip}[{K}]', f'self._check_index({ip}[{K}])')
    if isinstance(e, ast.Call) and u(e.func) == 'self._getitem_int' and len(e.args) == 1 and not e.keywords:
        return u(e.args[0]) in ps
    if isinstance(e, ast.Subscript) and u(e.value) == 'self.values' and isinstance(e.slice, ast.Slice) and e.slice.step is None and e.slice.lower is not None and e.slice.upper is not None:
        lo, hi = e.slice.lower, e.slice.upper
        if all(isinstance(x, ast.Subscript) and u(x.value) == 'self.bounds' and not isinstance(x.slice, ast.Slice) for x in (lo, hi)):
            h = _plus_one(hi.slice)
            return h is not None and u(h) == u(lo.slice) and u(lo.slice) in ps
    return False


def _constructs_cls(m, cls_q, name, _depth=0):
    """The classmethod `name` of class `cls_q` returns an instance of the class it is called on (cls(...), cls.__new__(cls), or
    another such classmethod)."""
    f = m.find_method(cls_q, name)
    if f is None or _depth > 3 or not any(u(d) == 'classmethod' for d in f.node.decorator_list) or not f.params():
        return False
    c = f.params()[0]
    rets = [r for r in stmts_in(f.node.body) if isinstance(r, ast.Return)]
    if not rets:
        return False
    for r in rets:
        v = r.value
        if isinstance(v, ast.Name):
            ds = [x for x in assigns_to(f.node, v.id)]
            v = def_value(ds[0]) if len(ds) == 1 else None
        if not isinstance(v, ast.Call):
            return False
        fn_ = v.func
        if u(fn_) == c or (u(fn_) == f'{c}.__new__' and [u(a) for a in v.args] == [c]):
            continue
        if isinstance(fn_, ast.Attribute) and u(fn_.value) == c and _constructs_cls(m, cls_q, fn_.attr, _depth + 1):
            continue
        return False
    return True


def _method_loop(m, fia, fla, out_name, out_cls, rep):
    """Fill loop that lives in a method called on the fresh result: [loop with receiver and arguments substituted] or []."""
    calls = [s for s in fia.node.body if isinstance(s, ast.Expr) and isinstance(s.value, ast.Call) and isinstance(s.value.func, ast.Attribute)
             and u(s.value.func.value) == out_name]
    if len(calls) != 1:
        return []
    st, call = calls[0], calls[0].value
    meth = m.find_method(out_cls, call.func.attr)
    rep.require(meth is not None, f'_getitem_int_array: `{u(call.func)}` is not a method the analysis can find in {out_cls}')
    body = [x for x in meth.node.body if not (isinstance(x, ast.Expr) and isinstance(x.value, ast.Constant))]
    a = meth.node.args
    plain = not (a.vararg or a.kwarg or a.kwonlyargs or a.defaults or meth.node.decorator_list) and not call.keywords and not any(isinstance(x, ast.Starred) for x in call.args)
    params = [x.arg for x in a.posonlyargs + a.args]
    rep.require(plain and len(body) == 1 and isinstance(body[0], ast.For) and len(params) == len(call.args) + 1,
                f'_getitem_int_array: the result is filled by {meth.qualname}, whose body is not a single loop over its arguments: cannot be evaluated')
    args = [fla.value(x, st) for x in call.args]
    stored = {n.id for n in ast.walk(body[0]) if isinstance(n, ast.Name) and isinstance(n.ctx, ast.Store)}
    free = set()
    for x in args:
        free |= _loads(x)
    rep.require(not stored & (free | {out_name}), f'_getitem_int_array: locals of {meth.qualname} shadow names of the call arguments')
    mapping = {params[0]: ast.Name(id=out_name, ctx=ast.Load())}
    mapping.update(dict(zip(params[1:], args)))
    rep.functions.add(meth.qualname)
    return [ast.fix_missing_locations(ast.copy_location(_subst_names(body[0], mapping), st))]


def check_subcollections(ctx):
    rep, m = ctx.rep, ctx.model
    C = f'{BASE}.ConcatenatedSignatureArray'
    fsl = m.func(f'{C}._getitem_slice')
    fast = [c for c in calls_in(fsl.node) if u(c.func).endswith('from_arrays')]
    rep.add('X5', fsl.site(fast[0] if fast else None), 'a contiguous slice keeps the k-mer parameters (dtype follows the sliced values)', len(fast) == 1 and u(get_arg(fast[0], 2, 'kmerspec')) == 'self.kmerspec',
            expected='from_arrays(values, bounds, self.kmerspec)', found=[u(c) for c in fast], stmt='slice kmerspec')
    fia = m.func(f'{C}._getitem_int_array')
    rep.functions.add(fia.qualname)
    ip = fia.params()[1]
    un = [c for c in calls_in(fia.node) if u(c.func).endswith('uninitialized')]
    oku = len(un) == 1 and u(get_arg(un[0], 1, 'kmerspec')) == 'self.kmerspec' and u(get_arg(un[0], 2, 'dtype')) in ('self.values.dtype', 'self.dtype')
    rep.add('X5', fia.site(un[0] if un else None), 'an index-array selection keeps k-mer parameters and integer type', oku, expected='uninitialized(sizes, self.kmerspec, dtype=self.values.dtype)', found=[u(c) for c in un], stmt='int-array kmerspec/dtype')
    fla = Flow(fia.node)
    out_name = u(next((s.targets[0] for s in fia.node.body if isinstance(s, ast.Assign) and un and s.value is un[0]), None)) if un else None
    _LISTS.clear()
    lists, acc_loops = _accumulators(fia.node, fla)
    _LISTS.update(lists)
    if un:
        un_stmt = next((s for s in stmts_in(fia.node.body) if any(x is un[0] for x in ast.walk(s)) and not isinstance(s, (ast.If, ast.For, ast.While, ast.With, ast.Try))), None)
        sizes = get_arg(un[0], 0, 'lengths')
        if un_stmt is not None and sizes is not None and sizes is not Ellipsis and not (isinstance(sizes, ast.Name) and sizes.id in lists):
            sizes = fla.deref(sizes, un_stmt)       # the list may be bound to a local first
        # the k-th size, whatever builds the list (comprehension, map, a list filled by one append per iteration)
        oks, fsz = False, u(sizes)
        if sizes is not None and sizes is not Ellipsis and (_comp_parts(sizes) is not None or isinstance(sizes, (ast.Name, ast.Call))):
            el = _norm_getitem(_element(sizes))
            cn = _length(sizes, {f'len({ip})': sym('n')})
            oks = _is_size_of(el, ip) and cn == sym('n')
            fsz = dict(size=u(el), entries=str(cn))
        rep.add('X5', fia.site(un[0]), 'slot k of the result is sized for the k-th requested signature', oks, expected=f'[self.sizeof(i) for i in {ip}]', found=fsz, stmt='result sizes')
    loops = [s for s in fia.node.body if isinstance(s, ast.For) and not any(s is a for a in acc_loops)]
    okl, why = False, None
    out_cls = None
    if un and isinstance(un[0].func, ast.Attribute):
        # the result is built by a constructor classmethod of a known class: its slots are that class's elements
        q = m.resolve(fia.module, un[0].func.value)
        out_cls = q if q in m.classes and _constructs_cls(m, q, un[0].func.attr) else None
    if not loops and out_name is not None and out_cls is not None:
        # the fill loop may live in a method of the result's class, called once on the fresh result (the copy loop shared with
        # the constructor): look at the loop it runs, with the receiver and the arguments put in place of its parameters
        loops = _method_loop(m, fia, fla, out_name, out_cls, rep)
    rep.require(len(loops) <= 1, f'_getitem_int_array: {len(loops)} loops besides the modelled list accumulations (`{u(loops[0])[:50]}` ...): the rule cannot tell which one fills the result')
    if len(loops) == 1 and out_name is not None and not loops[0].orelse:
        # Model of the fill loop: in iteration k every loop variable is an expression in k (enumerate / zip / range / direct
        # iteration; e[a:] yields e[a + k]).  Slot k of the result is out[k] = out.values[out.bounds[k] : out.bounds[k + 1]]
        # (X4 element); it must receive self._getitem_int(<k-th requested index>), and the loop must run over every slot.
        lp = loops[0]
        it = fla.resolve(lp.iter, lp)
        mapping = {}
        fits = _bind_target(lp.target, _element(it), mapping)
        cps = [c for c in calls_in(lp) if u(c.func) == 'np.copyto']
        if fits and len(cps) == 1 and len(cps[0].args) >= 2:
            cst = next((s for s in lp.body if isinstance(s, ast.Expr) and s.value is cps[0]), None)
            rep.require(cst is not None and not any(isinstance(x, (ast.Break, ast.Continue, ast.Return)) for x in ast.walk(lp)),
                        '_getitem_int_array: the copy into the result is not an unconditional statement of the fill loop (conditional copy / break / continue)')
            dst = _subst_names(fla.resolve(cps[0].args[0], cst), mapping)
            src = _subst_names(fla.resolve(cps[0].args[1], cst), mapping)
            kk = sym(K)

            def bound_at(e, off):
                return isinstance(e, ast.Subscript) and u(e.value) == f'{out_name}.bounds' and not isinstance(e.slice, ast.Slice) and Aff.try_of(e.slice) == kk.plus(off)
            okd = isinstance(dst, ast.Subscript) and ((u(dst.value) == out_name and not isinstance(dst.slice, ast.Slice) and Aff.try_of(dst.slice) == kk)
                                                      or (u(dst.value) == f'{out_name}.values' and isinstance(dst.slice, ast.Slice) and dst.slice.step is None
                                                          and bound_at(dst.slice.lower, 0) and bound_at(dst.slice.upper, 1)))
            if isinstance(dst, ast.Call) and u(dst.func) == f'{out_name}._getitem_int' and len(dst.args) == 1 and not dst.keywords:
                # the element hook of the result's class, without the (here redundant) bounds check: it is slot k when that
                # hook is the X4 element accessor values[bounds[k] : bounds[k + 1]]
                hook = m.find_method(out_cls, '_getitem_int') if out_cls else None
                rep.require(hook is not None, f'_getitem_int_array: cannot resolve the class of `{out_name}` to find its _getitem_int')
                okd = hook.qualname == f'{C}._getitem_int' and Aff.try_of(dst.args[0]) == kk
            oksrc = _is_element_of(_norm_getitem(src), ip)
            # every slot is visited: the loop runs len(indices) times (the result has one slot per index, one more bound)
            n = sym('n')
            env = {f'len({ip})': n, f'len({out_name})': n, f'len({out_name}.bounds)': n.plus(1)}
            cnt = _length(it, env)
            okl = okd and oksrc and cnt == n
            why = dict(slot=u(dst), value=u(src), iterations=str(cnt))
            rep.require(not (okd and oksrc) or cnt is not None, f'_getitem_int_array: cannot determine how many times the fill loop `for ... in {u(lp.iter)[:60]}` runs')
    rep.add('X5', fia.site(loops[0] if loops else None), 'slot k receives the signature at the k-th requested index (order and repeats preserved)', okl, expected=f'in iteration k: copyto(out[k], self._getitem_int({ip}[k])), k = 0 .. len({ip}) - 1',
            found=why or [u(l)[:80] for l in loops], stmt='fill order')
    _LISTS.clear()
    fia_rets = [s for s in stmts_in(fia.node.body) if isinstance(s, ast.Return)]
    rep.account_returns('X5', fia, [r for r in fia_rets if u(r.value) == out_name and r is fia.node.body[-1]], 'index-array selection')
    rep.account_returns('X4', fsl, [s for s in stmts_in(fsl.node.body) if isinstance(s, ast.Return) and (any(x in fast for x in ast.walk(s)) or u(s.value).startswith('super()._getitem_slice(') or u(s.value).startswith('self._getitem_int_array('))], 'slice selection')
    fl = m.func(f'{BASE}.SignatureList._getitem_int_array')
    rep.functions.add(fl.qualname)
    ipl = fl.params()[1]
    rets = [s for s in fl.node.body if isinstance(s, ast.Return)]
    v = rets[0].value if rets else None
    okv = isinstance(v, ast.Call) and u(v.func) == 'SignatureList' and u(get_arg(v, 1, 'kmerspec')) == 'self.kmerspec' and u(get_arg(v, 2, 'dtype')) == 'self.dtype'
    rep.account_returns('X5', fl, rets[:1], 'list-backed selection')
    rep.add('X5', fl.site(rets[0] if rets else None), 'a list-backed selection keeps k-mer parameters and integer type', okv, expected='SignatureList([...], self.kmerspec, self.dtype)', found=u(v), stmt='list kmerspec/dtype')
    if isinstance(v, ast.Call) and v.args:
        lc = v.args[0]
        # whatever iterable is handed to the constructor (which makes a list of it - X8): its k-th item is the stored signature at
        # the k-th requested position, and it has one item per requested position
        lc = Flow(fl.node).value(lc, rets[0])
        el = _norm_getitem(_element(lc))
        cn = _length(lc, {f'len({ipl})': sym('n')})
        okc = u(el) == f'self._list[{ipl}[{K}]]' and cn == sym('n')
        rep.require(okc or cn is not None or u(el) != f'self._list[{ipl}[{K}]]', f'SignatureList._getitem_int_array: cannot determine how many items `{u(lc)[:60]}` yields')
        rep.add('X5', fl.site(rets[0]), 'the selected signatures are taken in index order', okc, expected=f'[self._list[i] for i in {ipl}]', found=dict(item=u(el), items=str(cn)), stmt='list selection')
    # indexing hooks overridden beyond the ones analysed above are further selection paths: each is decided or named
    allowed = {f'{C}': {'_getitem_int', '_getitem_slice', '_getitem_int_array'}, f'{BASE}.SignatureArray': set(), f'{BASE}.SignatureList': {'_getitem_int', '_getitem_int_array'}}
    for cq, names in allowed.items():
        for name, fo in sorted(m.cls(cq).methods.items()):
            if not (name.startswith('_getitem_') or name == '__getitem__') or name in names:
                continue
            vo = None
            ro = [r for r in stmts_in(fo.node.body) if isinstance(r, ast.Return)]
            if cq.endswith('.SignatureList') and name == '_getitem_slice' and len(ro) == 1 and len(fo.params()) == 2:
                vo = Flow(fo.node).value(ro[0].value, ro[0])
            rep.require(isinstance(vo, ast.Call) and u(vo.func) == 'SignatureList' and len(vo.args) >= 1, f'{cq}.{name}: an indexing hook is overridden in a way no rule evaluates (selection path outside the analysed ones)')
            rep.functions.add(fo.qualname)
            oko = u(Flow(fo.node).value(vo.args[0], ro[0])) == f'self._list[{fo.params()[1]}]' and u(get_arg(vo, 1, 'kmerspec')) == 'self.kmerspec' and u(get_arg(vo, 2, 'dtype')) == 'self.dtype'
            rep.add('X5', fo.site(ro[0]), 'a list-backed slice is the slice of the stored list (a new collection with the same k-mer parameters and integer type)', oko,
                    expected=f'SignatureList(self._list[{fo.params()[1]}], self.kmerspec, self.dtype)', found=u(vo), stmt='list slice')
    fli = m.func(f'{BASE}.SignatureList._getitem_int')
    rets = [s for s in fli.node.body if isinstance(s, ast.Return)]
    rep.add('X5', fli.site(), 'a list-backed element is the stored array', len(rets) == 1 and u(rets[0].value) == f'self._list[{fli.params()[1]}]', expected='self._list[i]', found=[u(r.value) for r in rets], stmt='list element')
    fa = m.func(f'{BASE}.AnnotatedSignatures.__getitem__')
    rets = [s for s in fa.node.body if isinstance(s, ast.Return)]
    rep.add('X5', fa.site(), 'the annotated wrapper indexes its wrapped collection', len(rets) == 1 and u(rets[0].value) == f'self.signatures[{fa.params()[1]}]', expected='self.signatures[index]', found=[u(r.value) for r in rets], stmt='wrapper')
    # from_arrays stores what it is given
    ff = m.func(f'{BASE}.SignatureArray._init_from_arrays')
    sets = {u(s.targets[0]): u(s.value) for s in ff.node.body if isinstance(s, ast.Assign)}
    p = ff.params()
    rep.add('X5', ff.site(), 'from_arrays stores values, bounds and kmerspec as given', sets == {'self.values': p[1], 'self.bounds': p[2], 'self.kmerspec': p[3]}, expected='self.values/bounds/kmerspec', found=sets, stmt='from_arrays')
    rep.functions.update({fli.qualname, fa.qualname, ff.qualname})
    for nm, want in (('__len__', 'len(self.signatures)'), ('__iter__', 'iter(self.signatures)')):
        fw = m.func(f'{BASE}.AnnotatedSignatures.{nm}')
        rw = [r for r in stmts_in(fw.node.body) if isinstance(r, ast.Return)]
        rep.functions.add(fw.qualname)
        rep.add('X5', fw.site(), f'the annotated wrapper takes its {"length" if nm == "__len__" else "iteration order"} from the wrapped collection', len(rw) == 1 and u(rw[0].value) == want, expected=want, found=[u(r.value) for r in rw], stmt=f'wrapper {nm}')
    fsl_len = m.func(f'{BASE}.SignatureList.__len__')
    rl = [r for r in stmts_in(fsl_len.node.body) if isinstance(r, ast.Return)]
    rep.functions.add(fsl_len.qualname)
    rep.add('X5', fsl_len.site(), 'a list-backed collection is as long as its list', len(rl) == 1 and u(rl[0].value) == 'len(self._list)', expected='len(self._list)', found=[u(r.value) for r in rl], stmt='list length')
    # construction arithmetic (X8): every sub-collection built above goes through it (C05 / C12 re-evaluate it with this function)
    check_construction(ctx)
    check_hierarchy(ctx, ('_check_index', '_getitem_int', '_getitem_slice', '_getitem_int_array', '_getitem_bool_array', '__len__', 'sizeof', 'sizes'), 'X5')


def _ct(txt, sc):
    """Canonical text of an expected expression in situation `sc`."""
    return u(_canon_term(ast.parse(txt, mode='eval').body, sc))


def _sc_text(sc):
    def one(k, v):
        if k[0] == 'none':
            return f'{k[1]} is {"" if v else "not "}None'
        if k[0] == 'isinstance':
            return f'{"" if v else "not "}isinstance({k[1]}, {k[2]})'
        if k[0] == 'truthy':
            return f'{k[1]} {"non-empty" if v else "empty"}'
        return f'{"" if v else "not "}{k}'
    return ', '.join(one(k, v) for k, v in sorted(sc.items(), key=str)) or 'always'


def _judge(rep, fi, keys, spec, consts=None, consistent=None, rule='X8'):
    """Run the function in every situation (truth values of `keys`) and compare with spec(sc, sx) -> [(aspect, description,
    ok, expected, found)]; one obligation per aspect, violated when some situation deviates."""
    rep.functions.add(fi.qualname)
    raw = sx_paths(fi, consts, model=getattr(rep, '_model', None))
    # a type test whose "class" is one of the function's own arguments has its operands the wrong way round
    crossed = sorted({k for sc, _ in raw for k in sc if k[0] == 'isinstance' and k not in keys and k[2] in fi.params()})
    if crossed:
        rep.add(rule, fi.site(), 'type tests are made on the argument, against a class', False, expected='isinstance(<argument>, <class>)', found=[f'isinstance({k[1]}, {k[2]})' for k in crossed],
                stmt=f'{fi.cls.node.name if fi.cls else ""}.{fi.name} type test')
        return {}
    paths = sx_complete(raw, keys, fi)
    agg = {}
    for sc, sx in paths:
        if consistent is not None and not consistent(sc):
            continue
        for aspect, desc, ok, exp, found in spec(sc, sx):
            a = agg.setdefault(aspect, dict(desc=desc, ok=True, exp=exp, found=None, n=0))
            a['n'] += 1
            if not ok and a['ok']:
                a.update(ok=False, exp=exp, found=f'{found}   [when {_sc_text(sc)}]')
    for aspect, a in agg.items():
        rep.add(rule, fi.site(), a['desc'], a['ok'], expected=a['exp'], found=a['found'] if not a['ok'] else f'holds in all {a["n"]} situations', stmt=f'{fi.cls.node.name if fi.cls else ""}.{fi.name} {aspect}')
    return agg


def _outcome_plain(sx):
    return sx.outcome[0] in ('fall',) or (sx.outcome[0] == 'return' and (sx.outcome[1] is None or is_none(sx.outcome[1])))


def _copy_loop(sx, lp, sc, dst_obj, src_seq, elem_q, m, cls_q):
    """The loop copies, for every k < len(src_seq), element k of `src_seq` into slot k of `dst_obj` (np.copyto(dst_obj[k], src_seq[k]))."""
    mapping = {}
    if not _bind_target(lp.target, _element(lp.iter), mapping):
        return False, 'loop target does not fit what the iterable yields'
    cps = [c for c in calls_in(lp) if u(c.func) == 'np.copyto']
    st = [x for x in lp.body if isinstance(x, ast.Expr) and cps and x.value is cps[0]]
    if len(cps) != 1 or not st or len(cps[0].args) < 2 or any(isinstance(x, (ast.Continue, ast.Break)) for x in ast.walk(lp)):
        return False, 'no single unconditional np.copyto in the loop'
    dst = _subst_names(cps[0].args[0], mapping)
    src = _subst_names(cps[0].args[1], mapping)
    kk = sym(K)

    def bound_at(e, off):
        return isinstance(e, ast.Subscript) and u(e.value) == f'{dst_obj}.bounds' and not isinstance(e.slice, ast.Slice) and Aff.try_of(e.slice) == kk.plus(off)
    okd = isinstance(dst, ast.Subscript) and ((u(dst.value) == dst_obj and not isinstance(dst.slice, ast.Slice) and Aff.try_of(dst.slice) == kk)
                                              or (u(dst.value) == f'{dst_obj}.values' and isinstance(dst.slice, ast.Slice) and dst.slice.step is None
                                                  and bound_at(dst.slice.lower, 0) and bound_at(dst.slice.upper, 1)))
    if isinstance(dst, ast.Call) and u(dst.func) == f'{dst_obj}._getitem_int' and len(dst.args) == 1 and not dst.keywords:
        hook = m.find_method(cls_q, '_getitem_int')
        okd = hook is not None and hook.qualname == elem_q and Aff.try_of(dst.args[0]) == kk
    oks = isinstance(src, ast.Subscript) and u(src.value) == src_seq and not isinstance(src.slice, ast.Slice) and Aff.try_of(src.slice) == kk
    n = sym('n')
    cnt = _length(lp.iter, {f'len({src_seq})': n, f'len({dst_obj})': n, f'len({dst_obj}.bounds)': n.plus(1)})
    if okd and oks and cnt is None:
        raise Undecided(f'{sx.what}: cannot determine how many times the copy loop `for ... in {u(lp.iter)[:50]}` runs')
    return okd and oks and cnt == n, dict(slot=u(dst), value=u(src), iterations=str(cnt))


def check_construction(ctx):
    """X8: the construction arithmetic every sub-collection and every loaded / converted collection goes through."""
    rep, m = ctx.rep, ctx.model
    rep._model = m
    rep.rules.setdefault('X8', 'construction: bounds = [0, cumsum(lengths)], values sized by the last bound; constructors store / copy what they are given, slot i <- signature i; '
                         'defaults (kmerspec, dtype, ids, meta) decided per situation by path-by-path evaluation')
    SA = f'{BASE}.SignatureArray'
    C = f'{BASE}.ConcatenatedSignatureArray'
    consts = module_constants(m.module(BASE))

    # ---- _uninit_arrays: the arithmetic
    fu = m.func(f'{SA}._uninit_arrays')
    rep.functions.add(fu.qualname)
    cp, lp_, dp = fu.params()[:3]
    paths = sx_complete(sx_paths(fu, consts, model=m), [], fu)
    rep.require(len(paths) == 1, '_uninit_arrays: expected straight-line code')
    sx = paths[0][1]
    nlen = sym(f'len({lp_})')
    alloc = [k for k, c in enumerate(sx.calls) if u(c.func) in ('np.zeros', 'np.empty') and c.args and Aff.try_of(sx.expand(c.args[0])) is not None
             and Aff.try_of(sx.expand(c.args[0])).sub(nlen).is_const()]
    ret = sx.outcome[1] if sx.outcome[0] == 'return' else None
    rep.require(isinstance(ret, ast.Tuple) and len(ret.elts) == 2 and all(isinstance(e, ast.Name) and e.id.startswith('@') for e in ret.elts),
                '_uninit_arrays: does not return a pair of freshly created arrays (values, bounds): construction cannot be evaluated')
    vref, bref = (int(e.id[1:]) for e in ret.elts)
    swapped = bref not in alloc and vref in alloc
    rep.add('X8', fu.site(), '_uninit_arrays returns the pair (values, bounds) in that order', not swapped, expected='(values, bounds)', found=u(sx.expand(ret))[:120], stmt='_uninit_arrays result order')
    if swapped:
        vref, bref = bref, vref         # judge the content of what is the bounds array all the same
    rep.require(bref in alloc, f'_uninit_arrays: the bounds array returned is `{u(sx.expand(ret.elts[1]))[:70]}`, not an array allocated with a length derived from len({lp_}): its content cannot be evaluated')
    bc = sx.calls[bref]
    btxt = f'@{bref}'
    okl = Aff.try_of(sx.expand(bc.args[0])) == nlen.plus(1)
    okt = u(get_arg(bc, 1, 'dtype')) == 'BOUNDS_DTYPE'
    rep.add('X8', fu.site(), 'the bounds array has one entry more than there are signatures, of the bounds dtype', okl and okt, expected=f'len({lp_}) + 1 entries, dtype=BOUNDS_DTYPE', found=u(sx.expand(_call_ref(bref))), stmt='_uninit_arrays bounds allocation')
    # content: events on the bounds array in order
    zero0 = u(bc.func) == 'np.zeros'
    tail, tail_pos, others = None, None, []
    for pos, e in enumerate(sx.effects):
        if e[0] == 'setitem' and u(e[1].value) == btxt:
            sl = e[1].slice
            if not isinstance(sl, ast.Slice) and Aff.try_of(sl) == Aff(const=0):
                zero0 = is_const(e[2], 0)
            elif isinstance(e[2], ast.Name) and e[2].id.startswith('@') and u(sx.calls[int(e[2].id[1:])].func) == 'np.cumsum':
                tail, tail_pos = (sl, sx.calls[int(e[2].id[1:])]), pos
            else:
                others.append(f'{u(sx.expand(e[1]))} = {u(sx.expand(e[2]))}')
        elif e[0] == 'call' and u(sx.calls[e[1]].func) == 'np.cumsum':
            o = get_kw(sx.calls[e[1]], 'out')
            if o is not None and isinstance(o, ast.Subscript) and u(o.value) == btxt:
                tail, tail_pos = (o.slice, sx.calls[e[1]]), pos
    rep.add('X8', fu.site(), 'bounds[0] is 0', zero0 and not others, expected='np.zeros(...) or bounds[0] = 0', found=(u(bc.func), others), stmt='_uninit_arrays first bound')
    okc = tail is not None and isinstance(tail[0], ast.Slice) and tail[0].step is None and tail[0].upper is None and Aff.try_of(tail[0].lower) == Aff(const=1) \
        and tail[1].args and u(sx.expand(tail[1].args[0])) == lp_ and get_kw(tail[1], 'axis') is None
    rep.add('X8', fu.site(), 'bounds[1:] is the running total of the lengths (signature i occupies values[bounds[i] : bounds[i + 1]])', okc, expected=f'bounds[1:] = cumsum({lp_})',
            found=None if tail is None else (u(sx.expand(tail[1])), 'into [' + u(tail[0]) + ']'), stmt='_uninit_arrays running total')
    vc = sx.calls[vref]
    size = sx.expand(vc.args[0]) if vc.args else None
    vpos = next((pos for pos, e in enumerate(sx.effects) if e[0] == 'call' and e[1] == vref), -1)
    oksz = isinstance(vc.args[0] if vc.args else None, ast.Subscript) and u(vc.args[0].value) == btxt and not isinstance(vc.args[0].slice, ast.Slice) \
        and (Aff.try_of(sx.expand(vc.args[0].slice)) in (Aff(const=-1), nlen))
    okv = u(vc.func) in ('np.empty', 'np.zeros') and oksz and u(get_arg(vc, 1, 'dtype')) == dp and tail_pos is not None and vpos > tail_pos
    rep.add('X8', fu.site(), 'the values array holds exactly the total length (the last bound, read after the running total is written) in the requested dtype', okv,
            expected=f'np.empty(bounds[-1], dtype={dp}) after the cumsum', found=(u(sx.expand(_call_ref(vref))), f'effect #{vpos} vs cumsum #{tail_pos}'), stmt='_uninit_arrays values allocation')

    # ---- from_arrays / uninitialized
    ff = m.func(f'{SA}.from_arrays')
    c0, v0, b0, k0 = ff.params()[:4]

    def spec_from(sc, sx):
        news = [k for k, c in enumerate(sx.calls) if u(c) in (f'{c0}.__new__({c0})', f'object.__new__({c0})', f'super().__new__({c0})')]
        tops = sx.top_effects()
        want = f'@{news[0]}._init_from_arrays({v0}, {b0}, {k0})' if news else None
        ok = len(news) == 1 and [u(sx.calls[e[1]]) if e[0] == 'call' else e[0] for e in tops] == [want] and sx.outcome[0] == 'return' and u(sx.outcome[1]) == f'@{news[0]}'
        return [('initialisation', 'from_arrays creates one new instance, initialises it with (values, bounds, kmerspec) in that order and returns it', ok,
                 f'sa = {c0}.__new__({c0}); sa._init_from_arrays({v0}, {b0}, {k0}); return sa', ([sx.text(sx.calls[e[1]]) if e[0] == 'call' else e[0] for e in tops], sx.text(sx.outcome[1]) if sx.outcome[1] is not None else sx.outcome[0]))]
    _judge(rep, ff, [], spec_from, consts)

    fn_ = m.func(f'{SA}.uninitialized')
    c1, l1, k1, d1 = fn_.params()[:4]

    def spec_uninit(sc, sx):
        dt = f'{k1}.index_dtype' if sc[('none', d1)] else d1
        r = f'{c1}._uninit_arrays({l1}, {dt})'
        want = _ct(f'{c1}.from_arrays({r}[0], {r}[1], {k1})', sc)
        got = sx.text(sx.outcome[1], sc) if sx.outcome[0] == 'return' and sx.outcome[1] is not None else sx.outcome[0]
        tops = sx.top_effects()
        return [('construction', 'uninitialized allocates for the given lengths in the given dtype (default: the index dtype of the k-mer spec) and wraps (values, bounds, kmerspec) in that order', got == want and not tops,
                 want, (got, [e[0] for e in tops]))]
    _judge(rep, fn_, [('none', d1)], spec_uninit, consts)

    # ---- SignatureArray.__init__
    fi = m.func(f'{SA}.__init__')
    s2, k2, d2 = fi.params()[1:4]
    kA, kS = ('isinstance', s2, 'AbstractSignatureArray'), ('isinstance', s2, 'SignatureArray')

    def spec_sa(sc, sx):
        kk = f'{s2}.kmerspec' if sc[('none', k2)] and sc[kA] else k2
        tops = sx.top_effects()
        calls = [sx.text(sx.calls[e[1]], sc) for e in tops if e[0] == 'call']
        loops = [e[1] for e in tops if e[0] == 'loop']
        rest = [e[0] for e in tops if e[0] not in ('call', 'loop')]
        out = []
        if sc[kS]:
            vv = f'{s2}.values.copy()' if sc[('none', d2)] else f'{s2}.values.astype({d2})'
            want = _ct(f'self._init_from_arrays({vv}, {s2}.bounds.copy(), {kk})', sc)
            out.append(('copy', 'constructed from a SignatureArray: values (converted when a dtype is given) and bounds are copied, k-mer parameters kept', calls == [want] and not loops and not rest and _outcome_plain(sx),
                        want, (calls, len(loops), rest, sx.outcome[0])))
        else:
            dt = d2 if not sc[('none', d2)] else (f'{s2}[0].dtype' if sc[('truthy', s2)] else f'{kk}.index_dtype')
            r = f'self._uninit_arrays(list(map(len, {s2})), {dt})'
            want = _ct(f'self._init_from_arrays({r}[0], {r}[1], {kk})', sc)
            out.append(('allocation', 'constructed from a sequence: arrays are allocated for the length of each signature in order, in the given / first-signature / default dtype, and installed as (values, bounds, kmerspec)',
                        calls == [want] and not rest and _outcome_plain(sx), want, (calls, rest, sx.outcome[0])))
            okl, why = False, f'{len(loops)} loops'
            if len(loops) == 1:
                pos_l = next(p_ for p_, e in enumerate(sx.effects) if e[0] == 'loop')
                pos_c = max([p_ for p_, e in enumerate(sx.effects) if e[0] == 'call'] or [-1])
                okl, why = _copy_loop(sx, loops[0], sc, 'self', s2, f'{C}._getitem_int', m, SA)
                okl = okl and pos_l > pos_c
            out.append(('fill', 'constructed from a sequence: signature i is copied into slot i, after the arrays are installed', okl, f'for i, sig in enumerate({s2}): np.copyto(self[i], sig)', why))
        return out
    _judge(rep, fi, [('none', k2), kA, kS, ('none', d2), ('truthy', s2)], spec_sa, consts, consistent=lambda sc: not (sc[kS] and not sc[kA]))

    # ---- SignatureList.__init__
    fl_ = m.func(f'{BASE}.SignatureList.__init__')
    s3, k3, d3 = fl_.params()[1:4]
    kA3, kE3 = ('isinstance', s3, 'AbstractSignatureArray'), ('truthy', f'list({s3})')

    def spec_sl(sc, sx):
        stores = {e[1]: sx.text(e[2], sc) for e in sx.effects if e[0] == 'store'}
        kk = _ct(f'{s3}.kmerspec' if sc[('none', k3)] and sc[kA3] else k3, sc)
        dt = d3 if not sc[('none', d3)] else f'{s3}.dtype' if sc[kA3] else f'list({s3})[0].dtype' if sc[kE3] else f'{kk}.index_dtype'
        dt = _ct(dt, sc)
        tops = [e[0] for e in sx.top_effects() if e[0] != 'store']
        return [('list', 'the signatures are stored as a list in the given order', stores.get('self._list') == f'list({s3})' and not tops and _outcome_plain(sx), f'self._list = list({s3})', (stores.get('self._list'), tops, sx.outcome[0])),
                ('kmerspec', 'k-mer parameters: the given ones, else those of the source collection', stores.get('self.kmerspec') == kk, kk, stores.get('self.kmerspec')),
                ('dtype', 'dtype: the given one, else that of the source collection, else that of the first signature, else the index dtype of the k-mer spec', stores.get('self.dtype') == dt, dt, stores.get('self.dtype')),
                ('attributes', 'no other attribute is set', set(stores) <= {'self._list', 'self.kmerspec', 'self.dtype'}, '_list, kmerspec, dtype', sorted(stores))]
    _judge(rep, fl_, [('none', k3), kA3, ('none', d3), kE3], spec_sl, consts)

    # ---- AnnotatedSignatures.__init__
    fa = m.func(f'{BASE}.AnnotatedSignatures.__init__')
    s4, i4, m4 = fa.params()[1:4]
    kq = ('eq', *sorted([f'len({i4})', f'len({s4})']))

    def spec_an(sc, sx):
        stores = {e[1]: sx.text(e[2], sc) for e in sx.effects if e[0] == 'store'}
        out = [('ids length read', 'the number of ids is only looked at when ids are given', not (sc[('none', i4)] and kq in sx.read), 'len(ids) not evaluated for ids=None', 'len(ids) evaluated')]
        if not sc[('none', i4)] and not sc[kq]:
            out.append(('ids count', 'a wrong number of ids is rejected', sx.outcome == ('raise', 'ValueError'), 'raise ValueError', sx.outcome[0] if sx.outcome[0] != 'raise' else sx.outcome))
            return out
        wi = _ct(f'range(len({s4}))' if sc[('none', i4)] else i4, sc)
        wm = _ct('SignaturesMeta()' if sc[('none', m4)] else m4, sc)
        tops = [e[0] for e in sx.top_effects() if e[0] != 'store']
        out.append(('ids', 'ids default to consecutive integers from zero, one per signature; given ids are kept', stores.get('self.ids') == wi and _outcome_plain(sx) and not tops, wi, (stores.get('self.ids'), sx.outcome[0], tops)))
        out.append(('meta', 'metadata defaults to an empty SignaturesMeta; given metadata is kept', stores.get('self.meta') == wm, wm, stores.get('self.meta')))
        out.append(('signatures', 'the wrapped collection is the one given', stores.get('self.signatures') == s4, s4, stores.get('self.signatures')))
        return out
    _judge(rep, fa, [('none', i4), ('none', m4), kq], spec_an, consts, consistent=None)

    # ---- sizes(): the size of every signature, in order
    fz = m.func(f'{BASE}.AbstractSignatureArray.sizes')
    rep.functions.add(fz.qualname)
    rz = [r for r in stmts_in(fz.node.body) if isinstance(r, ast.Return)]
    okz, foundz = False, [u(r.value) for r in rz]
    if len(rz) == 1 and isinstance(rz[0].value, ast.Call) and rz[0].value.args:
        flz = Flow(fz.node)
        src = flz.value(rz[0].value.args[0], rz[0]) if u(rz[0].value.func) in ('np.fromiter', 'np.array', 'np.asarray', 'list') else flz.value(rz[0].value, rz[0])
        if isinstance(src, (ast.ListComp, ast.GeneratorExp)) and len(src.generators) == 1 and not src.generators[0].ifs:
            mp = {}
            el = _subst_names(src.elt, mp) if _bind_target(src.generators[0].target, _element(src.generators[0].iter), mp) else None
            it = src.generators[0].iter
        else:
            el, it = _element(src), src
        cnt = _length(it, {'len(self)': sym('n')})
        okz = el is not None and u(el) in (f'self.sizeof({K})', f'len(self[{K}])') and cnt == sym('n')
        foundz = (u(el), str(cnt))
    rep.add('X8', fz.site(), 'sizes() lists sizeof(i) for every position i in order', okz, expected='self.sizeof(k) for k = 0 .. len(self) - 1', found=foundz, stmt='sizes')
    fzo = m.func(f'{BASE}.AbstractSignatureArray.sizeof')
    rep.functions.add(fzo.qualname)
    rzo = [r for r in stmts_in(fzo.node.body) if isinstance(r, ast.Return)]
    rep.add('X8', fzo.site(), 'generic sizeof(i) is the length of signature i', len(rzo) == 1 and u(Flow(fzo.node).value(rzo[0].value, rzo[0])) == f'len(self[{fzo.params()[1]}])', expected=f'len(self[{fzo.params()[1]}])',
            found=[u(r.value) for r in rzo], stmt='generic sizeof')
    fzc = m.func(f'{C}.sizes')
    rep.functions.add(fzc.qualname)
    rzc = [r for r in stmts_in(fzc.node.body) if isinstance(r, ast.Return)]
    rep.add('X8', fzc.site(), 'concatenated collections: sizes are the differences of consecutive bounds', len(rzc) == 1 and u(rzc[0].value) == 'np.diff(self.bounds)', expected='np.diff(self.bounds)', found=[u(r.value) for r in rzc], stmt='concatenated sizes')


def check_hierarchy(ctx, names, rule):
    """Class-hierarchy view: for every class of the signature-collection family, each of the methods `names` resolves (by that
    class's MRO) to an implementation some rule has analysed, to nothing (inherited from the abstract Sequence protocol, which is
    built on the analysed ones), or to an abstract declaration.  An override nobody looked at is a path around the rules."""
    rep, m = ctx.rep, ctx.model
    ASA = f'{BASE}.AbstractSignatureArray'
    fam = sorted((c for c in m.classes.values() if ASA in m.mro(c.qualname)), key=lambda c: c.qualname)
    n = 0
    for c in fam:
        for nm in names:
            f = m.find_method(c.qualname, nm)
            if f is None:
                continue
            n += 1
            body = [x for x in f.node.body if not (isinstance(x, ast.Expr) and isinstance(x.value, ast.Constant))]
            abstract = any(u(d).endswith('abstractmethod') for d in f.node.decorator_list) or (len(body) == 1 and (isinstance(body[0], ast.Pass) or (isinstance(body[0], ast.Raise) and raised_name(body[0]) == 'NotImplementedError')))
            rep.require(abstract or f.qualname in rep.functions, f'{c.qualname}: `{nm}` resolves to {f.qualname}, an override no rule of this check has analysed (a path around the analysed methods)')
    rep.floor(rule, 'resolved methods of the collection family', n, 12)
    rep.add(rule, (fam[0].module.relpath, fam[0].node.lineno, ASA), 'every indexing / equality method of every collection class resolves to an analysed implementation', True,
            found=f'{n} (class, method) pairs over {len(fam)} classes', stmt=f'hierarchy {",".join(names)[:60]}')


def check_mutators(ctx):
    rep, m = ctx.rep, ctx.model
    L = m.cls(f'{BASE}.SignatureList')
    want = {'__setitem__': ('Assign', 'self._list[{0}] = {1}'), '__delitem__': ('Delete', 'del self._list[{0}]'), 'insert': ('Expr', 'self._list.insert({0}, {1})'),
            '__len__': ('Return', 'return len(self._list)'), '__iter__': ('Return', 'return iter(self._list)')}
    for name, (kind, tmpl) in want.items():
        f = L.methods.get(name)
        rep.require(f is not None, f'SignatureList.{name} missing')
        rep.functions.add(f.qualname)
        body = [s for s in f.node.body if not (isinstance(s, ast.Expr) and isinstance(s.value, ast.Constant))]
        exp = tmpl.format(*f.params()[1:])
        rep.add('X6', f.site(), f'SignatureList.{name} forwards to the same list operation with the arguments in order', len(body) == 1 and u(body[0]) == exp, expected=exp, found=[u(s) for s in body], stmt=name)
    fam = [c for c in m.classes.values() if f'{BASE}.AbstractSignatureArray' in m.mro(c.qualname)]
    rep.floor('X6', 'classes in the signature-collection family', len(fam), 5)
    muts = []
    for c in fam:
        if c.qualname == L.qualname:
            continue
        for name in ('__setitem__', '__delitem__', 'insert', 'append', 'extend', 'pop', 'remove', '__iadd__', 'clear', 'reverse', 'sort'):
            if name in c.methods:
                muts.append(f'{c.qualname}.{name}')
    rep.add('X6', L.site(), 'no other collection class defines a mutator (they are immutable sequences)', not muts, expected='none', found=muts, stmt='mutators elsewhere')


def _is_false_return(body):
    return len(body) == 1 and isinstance(body[0], ast.Return) and is_const(body[0].value, False)


def _forall(target, it, test, pol):
    """('forall', atoms over the k-th elements) for `test` having polarity `pol` on every element of `it`; None if not conjunctive."""
    mapping = {}
    if not _bind_target(target, _element(it), mapping):
        return None
    a = atoms(_subst_names(test, mapping), pol)
    return None if a is None else ('forall', a)


def _expr_conjuncts(v):
    if isinstance(v, ast.BoolOp) and isinstance(v.op, ast.And):
        out = []
        for x in v.values:
            c = _expr_conjuncts(x)
            if c is None:
                return None
            out += c
        return out
    if is_const(v, True):
        return []
    if is_const(v, False):
        return [('never',)]
    if isinstance(v, ast.Call) and isinstance(v.func, ast.Name) and v.func.id == 'all' and len(v.args) == 1 and not v.keywords:
        g = v.args[0]
        if isinstance(g, ast.Call) and isinstance(g.func, ast.Name) and g.func.id == 'map' and len(g.args) >= 2 and not g.keywords:
            # all(map(f, A, B)) = f(A[k], B[k]) for every k
            call = ast.Call(func=g.args[0], args=[_element(a) for a in g.args[1:]], keywords=[])
            return [('forall', {('true', u(call))})]
        if isinstance(g, (ast.GeneratorExp, ast.ListComp)) and len(g.generators) == 1 and not g.generators[0].ifs:
            c = _forall(g.generators[0].target, g.generators[0].iter, g.elt, True)
            return None if c is None else [c]
        return None
    if isinstance(v, ast.BoolOp) and isinstance(v.op, ast.Or):
        return [('cond', {('either', u(v))})]        # a disjunction: evaluable, and not a conjunct the rule asks for
    a = atoms(v, True)
    return None if a is None else [('cond', a)]


def _conjunction(fn):
    """Ordered conjuncts of a boolean function written as guard clauses / loops that return False, ending in `return <rest>`.
    None when a statement is outside that vocabulary."""
    body = [s for s in fn.body if not (isinstance(s, ast.Expr) and isinstance(s.value, ast.Constant))]
    out = []
    for i, s in enumerate(body):
        if isinstance(s, ast.If) and not s.orelse and _is_false_return(s.body):
            a = atoms(s.test, False)
            if a is None:
                return None
            out.append(('cond', a))
        elif isinstance(s, ast.For) and not s.orelse and len(s.body) == 1 and isinstance(s.body[0], ast.If) and not s.body[0].orelse and _is_false_return(s.body[0].body):
            c = _forall(s.target, s.iter, s.body[0].test, False)
            if c is None:
                return None
            out.append(c)
        elif isinstance(s, ast.Return) and i == len(body) - 1 and s.value is not None:
            c = _expr_conjuncts(s.value)
            if c is None:
                return None
            return out + c
        else:
            return None
    return None


def check_equality(ctx):
    rep, m = ctx.rep, ctx.model
    rep._model = m
    fe = m.func(f'{BASE}.AbstractSignatureArray.__eq__')
    rep.functions.add(fe.qualname)
    op = fe.params()[1]
    # Judged path by path, and for the EFFECTIVE equality of every class of the hierarchy: `__eq__` and every method it
    # dispatches to through `self.` are resolved by that class's MRO (hooks, overrides of hooks, super() calls are run in
    # place).  What is returned when `other` is a signature collection must be equivalent to "same k-mer parameters, same
    # length and element k equal for every k"; an override the rule cannot read is undecided, never a pass.
    ASA = f'{BASE}.AbstractSignatureArray'
    CSA = f'{BASE}.ConcatenatedSignatureArray'
    kI = ('isinstance', op, 'AbstractSignatureArray')
    kK = ('eq', *sorted([f'self.kmerspec', f'{op}.kmerspec']))
    kL = ('eq', *sorted([f'len({op})', 'len(self)']))
    fam = sorted((c for c in m.classes.values() if ASA in m.mro(c.qualname)), key=lambda c: c.qualname)
    rep.floor('X7', 'classes in the signature-collection family', len(fam), 5)
    desc_eq = 'collections are equal exactly when k-mer parameters and all signatures are equal'

    def norm(txt, len_known):          # with equal lengths known, len(self) and len(other) are the same number
        return txt.replace(f'len({op})', 'LEN_').replace('len(self)', 'LEN_') if len_known else txt

    def swap(txt):          # the same expression about the other operand
        return re.sub(r'\b(self|%s)\b' % re.escape(op), lambda mo: op if mo.group(1) == 'self' else 'self', txt)

    def used_range(txt):
        mo = re.fullmatch(r'self\.values\[self\.bounds\[0\]:self\.bounds\[(.+)\]\]', txt)
        return bool(mo) and mo.group(1) in ('-1', 'len(self)', 'LEN_')

    def about_self(x, y):
        """(x, y) ordered so that the first speaks about self and the second is the same expression about the other operand."""
        if swap(x) == y:
            return (x, y) if re.search(r'\bself\b', x) else (y, x)
        return None

    def fact_of(node, len_known):
        """Name of the fact a comparison establishes (None: not one the rule knows)."""
        a = atoms(node, True)
        if a == {kK}:
            return 'KSPEC'
        if a == {kL}:
            return 'LEN'
        t = u(node)
        if t in (f'sigarray_eq(self, {op})', f'sigarray_eq({op}, self)'):
            return 'SIGEQ'
        if isinstance(node, ast.Call) and u(node.func) in ('np.array_equal', 'numpy.array_equal') and len(node.args) == 2 and not node.keywords:
            pr = about_self(*(norm(u(z), len_known) for z in node.args))
            if pr is None:
                return None
            x = pr[0]
            if x == 'self.bounds':
                return 'BOUNDS'
            if x == 'self.values':
                return 'WHOLE'
            if x in ('self.sizes()', 'np.diff(self.bounds)'):
                return 'SIZES'
            if used_range(x):
                return 'USED'
            return None
        if a and len(a) == 1 and len(next(iter(a))) == 3:
            (k0, x, y), = a
            if k0 == 'eq' and x.startswith('len(') and y.startswith('len('):
                pr = about_self(norm(x[4:-1], len_known), norm(y[4:-1], len_known))
                if pr is not None and used_range(pr[0]):
                    return 'TOTAL'
        return None

    def judge_class(K):
        raw = sx_paths(fe, module_constants(fe.module), model=m, recv_cls=K.qualname)
        out = []          # (aspect, ok, expected, found)
        crossed = sorted({k for sc, _ in raw for k in sc if k[0] == 'isinstance' and k[2] in fe.params()})
        if crossed:
            return [('equality', False, 'isinstance(<argument>, <class>)', f'type test with its operands the wrong way round: isinstance({crossed[0][1]}, {crossed[0][2]})'),
                    ('not implemented', True, '', '')]
        for sc, sx in raw:
            ret = sx.outcome[1] if sx.outcome[0] == 'return' else None
            got = sx.text(ret, sc) if ret is not None else sx.outcome[0]
            when = _sc_text(sc)
            if kI not in sc:
                raise Undecided(f'{K.qualname}.__eq__: the result does not depend on whether the other operand is a signature collection on the path [{when}]')
            if not sc[kI]:
                out.append(('not implemented', got == 'NotImplemented' and not sx.top_effects(), 'NotImplemented', f'{got}   [when {when}]'))
                continue
            # facts known on this path: comparisons that were tested and came out true / false
            len_known = sc.get(kL) is True
            true_facts, false_facts, odd = set(), set(), []
            for k, v in sc.items():
                if k == kI or k[0] == 'isinstance':
                    continue
                f_ = 'KSPEC' if k == kK else 'LEN' if k == kL else None
                if f_ is None and k[0] == 'eq':
                    try:
                        f_ = fact_of(ast.parse(f'{k[1]} == {k[2]}', mode='eval').body, len_known)
                    except SyntaxError:
                        f_ = None
                if f_ is None:
                    odd.append(k)
                else:
                    (true_facts if v else false_facts).add(f_)
            if odd:
                raise Undecided(f'{K.qualname}: the equality of this class depends on the test {odd[0]}, which the rule cannot relate to the signatures being equal')
            necessary = {'KSPEC', 'LEN', 'TOTAL', 'SIZES', 'USED'}          # what equal collections always satisfy

            def flat(t):
                return [x for v in t.values for x in flat(v)] if isinstance(t, ast.BoolOp) and isinstance(t.op, ast.And) else [t]
            parts = [x for x in flat(sx.expand(ret)) if not is_const(x, True)] if ret is not None else []
            if any(isinstance(x, ast.Constant) and not x.value for x in parts):
                just = false_facts & necessary
                if false_facts - necessary:
                    raise Undecided(f'{K.qualname}: compares unequal when {sorted(false_facts - necessary)} differ - arrays compared as a whole; equal collections stored at different offsets '
                                    'would compare unequal, equivalence to element-wise equality cannot be shown')
                out.append(('equality', bool(just), 'False only when a necessary condition of equality fails', f'return False   [when {when}]'))
                continue
            facts, unknown, negated = set(true_facts), [], []
            for part in parts:
                f_ = fact_of(part, len_known or 'LEN' in facts)
                if f_ is None:
                    # the NEGATION of a known comparison (a != b, not f(a, b)): equality is then granted only when that aspect differs
                    pos = None
                    if isinstance(part, ast.Compare) and len(part.ops) == 1 and isinstance(part.ops[0], ast.NotEq):
                        pos = ast.Compare(left=part.left, ops=[ast.Eq()], comparators=part.comparators)
                    elif isinstance(part, ast.UnaryOp) and isinstance(part.op, ast.Not):
                        pos = part.operand
                    fn_ = fact_of(ast.fix_missing_locations(ast.copy_location(pos, part)), len_known or 'LEN' in facts) if pos is not None else None
                    if fn_ is not None:
                        negated.append(fn_)
                    elif isinstance(part, ast.BoolOp) and isinstance(part.op, ast.Or) and all(fact_of(v_, len_known or 'LEN' in facts) is not None for v_ in part.values):
                        # a disjunction of comparisons: equality is granted as soon as ONE aspect agrees
                        negated.append('all of ' + ' / '.join(sorted(fact_of(v_, len_known or 'LEN' in facts) for v_ in part.values)) + ' (only one of them is required)')
                    else:
                        unknown.append(u(part)[:80])
                else:
                    facts.add(f_)
            if negated and not unknown:
                out.append(('equality', False, 'a conjunction of comparisons that equal collections satisfy', f'{got}: does not require {sorted(negated)} to agree   [when {when}]'))
                continue
            if false_facts & necessary:
                out.append(('equality', False, 'False when a necessary condition of equality fails', f'{got} although {sorted(false_facts & necessary)} differ   [when {when}]'))
                continue
            if false_facts:
                raise Undecided(f'{K.qualname}: a comparison is made after {sorted(false_facts)} came out different')
            if ret is not None and not sx.top_effects() and unknown and all(isinstance(x, (ast.Name, ast.Constant)) for x in parts if fact_of(x, True) is None):
                out.append(('equality', False, 'a comparison of k-mer parameters and signatures', f'{got}   [when {when}]'))      # a plain value, no comparison at all
                continue
            if unknown or ret is None or sx.top_effects():
                raise Undecided(f'{K.qualname}: the equality of this class returns `{(unknown or [got])[0]}`, which the rule cannot read as a comparison of the signatures')
            if 'SIGEQ' in facts:
                sound = True
            else:
                # whole-collection comparison of a concatenated layout: needs the layout of both operands
                tself, toth = K.qualname, sx.types.get(op)
                if not (CSA in m.mro(tself) and toth is not None and CSA in m.mro(toth)):
                    raise Undecided(f'{K.qualname}: signatures are compared without sigarray_eq on operands the rule does not know to be concatenated collections')
                sound = bool(facts & {'SIZES', 'BOUNDS'}) and ('USED' in facts or ('WHOLE' in facts and 'BOUNDS' in facts))
            ok = sound and 'KSPEC' in facts
            if ok and facts - necessary - {'SIGEQ'}:
                raise Undecided(f'{K.qualname}: equality compares {sorted(facts - necessary - {"SIGEQ"})} (arrays as a whole): equal collections stored at different offsets would compare unequal; '
                                'equivalence to element-wise equality cannot be shown')
            out.append(('equality', ok, 'k-mer parameters equal, and sigarray_eq / (per-signature sizes equal and the concatenated signatures equal)',
                        f'True when only {sorted(facts)} hold   [when {when}]'))
        return out

    for Kc in fam:
        eqm, nem = m.find_method(Kc.qualname, '__eq__'), m.find_method(Kc.qualname, '__ne__')
        rep.require(eqm is not None and eqm.qualname == fe.qualname, f'{Kc.qualname} overrides __eq__ ({eqm.qualname if eqm else None}): an equality the rule does not evaluate')
        rep.require(nem is None, f'{Kc.qualname} defines __ne__ ({nem.qualname if nem else None}): an inequality the rule does not evaluate')
        res = judge_class(Kc)
        for aspect, text_ in (('equality', desc_eq), ('not implemented', 'comparison with anything else is NotImplemented')):
            rows = [r for r in res if r[0] == aspect]
            bad = [r for r in rows if not r[1]]
            rep.add('X7', fe.site(), f'{Kc.node.name}: {text_}', bool(rows) and not bad, expected=(bad or rows or [(0, 0, '', '')])[0][2], found=bad[0][3] if bad else f'holds on all {len(rows)} paths',
                    stmt=f'{Kc.node.name} {aspect}')
    fs = m.func(f'{BASE}.sigarray_eq')
    rep.functions.add(fs.qualname)
    a1, a2 = fs.params()[:2]
    # The function as an ordered conjunction: the result is True exactly when every conjunct holds, evaluated in order
    # (`A and B` expression, guard clauses `if not A: return False`, a loop `for ..: if not P: return False`, all(...)).
    conj = _conjunction(fs.node)
    rep.require(conj is not None, 'sigarray_eq: body is not a conjunction the rule can evaluate (expected `A and B`, guard clauses returning False, all(...) / a loop returning False, final return)')
    shown = [c[0] if c[0] == 'never' else (c[0], sorted(c[1])) for c in conj]
    eqs = {('true', f'np.array_equal({a1}[{K}], {a2}[{K}])'), ('true', f'np.array_equal({a2}[{K}], {a1}[{K}])')}
    oks = len(conj) == 2 and conj[0][0] == 'cond' and conj[0][1] == {('eq', f'len({a1})', f'len({a2})')} \
        and conj[1][0] == 'forall' and len(conj[1][1]) == 1 and conj[1][1] <= eqs
    rep.add('X7', fs.site(), 'sequence equality: equal lengths first, then every signature array equal', oks, expected=f'len({a1}) == len({a2}) and for every k: np.array_equal({a1}[k], {a2}[k])', found=shown, stmt='sigarray_eq')
    ks = m.cls('gambit.kmers.KmerSpec')
    eqf = {name: get_kw(v, 'eq') for name, v in ks.class_attrs.items() if isinstance(v, ast.Call) and u(v.func) == 'attrib'}
    compared = sorted(n for n, e in eqf.items() if e is None or not is_const(e, False))
    rep.add('X7', ks.site(), 'k-mer parameters compare by (k, prefix)', compared == ['k', 'prefix'], expected=['k', 'prefix'], found=compared, stmt='KmerSpec eq fields')


def check(ctx):
    rep = ctx.rep
    rep.rule('X1', 'AdvancedIndexingMixin.__getitem__: each handler under its test; exhaustive; errors')
    rep.rule('X2', 'may-alias forward analysis over the CFG: no in-place write to memory that may alias a parameter (np.asarray / views alias; copy()/arithmetic are fresh)')
    rep.rule('X3', '_check_index: negative conversion and 0 <= i2 < len(self)')
    rep.rule('X4', 'element / length / contiguous-slice arithmetic as affine forms; generic slice and mask paths')
    rep.rule('X5', 'sub-collections keep kmerspec and dtype; selection order preserved')
    rep.rule('X6', 'SignatureList mutators delegate to the list; no other class mutates')
    rep.rule('X7', 'equality = kmerspec equal and sigarray_eq; KmerSpec compares (k, prefix)')
    rep.rule('X8', 'construction: bounds = [0, cumsum(lengths)] of BOUNDS_DTYPE, values sized by the last bound; from_arrays / uninitialized / constructors hand (values, bounds, kmerspec) on in order; '
             'slot i <- signature i; defaults (kmerspec, dtype, ids, meta) decided per situation by path-by-path symbolic evaluation')
    rep.trusted += ['slice.indices, np.arange, np.flatnonzero, np.array_equal', 'np.asarray returns a view for array.array / memoryview / __array__ providers; ndarray.copy() is fresh']
    check_dispatch(ctx)
    check_alias(ctx)
    check_arith(ctx)
    check_subcollections(ctx)
    check_mutators(ctx)
    check_equality(ctx)
    check_hierarchy(ctx, ('__eq__', '__ne__', '__getitem__', '__iter__', '__contains__', '__reversed__', 'index', 'count', '__setitem__', '__delitem__', 'insert'), 'X7')


from ..variants import V  # noqa: E402

_I = 'src/gambit/util/indexing.py'
_B = 'src/gambit/sigs/base.py'
_SLICE_LOOP = "\t\t\tfor i in [index.start, index.stop, index.step]:\n\t\t\t\tif i is not None and not isinstance(i, (int, np.integer)):\n\t\t\t\t\traise TypeError('Slice indices must be integers or None')\n"
_INT_BRANCH = ("\t\t# Integer array\n\t\telif index.dtype.kind in 'iu':\n\t\t\t# Check bounds\n\t\t\tfor i in index:\n\t\t\t\tself._check_index(i)\n\n\t\t\t# Convert negative indices to positive\n"
               "\t\t\tisneg = index < 0\n\t\t\tif isneg.any():\n\t\t\t\t# Don't modify input array. np.asarray() may also return a view of memory owned by the\n"
               "\t\t\t\t# caller (array.array, memoryview, objects implementing __array__), so always copy.\n\t\t\t\tindex = index.copy()\n\t\t\t\tnp.add(index, len(self), out=index, where=isneg)\n\n"
               "\t\t\treturn self._getitem_int_array(index)\n\n\t\t# Invalid dtype\n\t\telse:\n\t\t\traise IndexError('Index arrays must have integer or boolean data type.')")
_INT_GUARDED = ("\t\tif index.dtype.kind not in '{kinds}':\n\t\t\traise IndexError('Index arrays must have integer or boolean data type.')\n\n\t\tfor i in index:\n\t\t\tself._check_index(i)\n\n"
                "\t\tisneg = index < 0\n\t\tif isneg.any():\n\t\t\tindex = index.copy()\n\t\t\tnp.add(index, len(self), out=index, where=isneg)\n\n\t\treturn self._getitem_int_array(index)")
_CONVERT = ("\t\t# Otherwise assume sequence of ints or bools, use Numpy to figure out array interpretation\n\t\telif not isinstance(index, np.ndarray):\n"
            "\t\t\t# Special case - if an empty sequence np.asarray won't be able to infer dtype and\n\t\t\t# will default to floats\n\t\t\tif len(index) == 0:\n\t\t\t\tindex = np.empty(0, dtype=int)\n\n"
            "\t\t\telse:\n\t\t\t\ttry:\n\t\t\t\t\tindex = np.asarray(index)\n\t\t\t\texcept Exception as e:\n\t\t\t\t\traise IndexError('Indices must be integers, slices, or integer or boolean sequences.') from e\n")
_LAST_RAISE = "\t\telse:\n\t\t\traise IndexError('Index arrays must have integer or boolean data type.')\n"
_HELPER = ("\n\ndef _to_index_array(index):\n\tif isinstance(index, np.ndarray):\n\t\treturn index\n\tif len(index) == 0:\n\t\treturn np.empty(0, dtype=int)\n"
           "\ttry:\n\t\treturn np.asarray(index)\n\texcept Exception as e:\n\t\traise IndexError('Indices must be integers, slices, or integer or boolean sequences.') from e\n")
_SLICE_BRANCH = _SLICE_LOOP + "\n\t\t\tif index.step == 0:\n\t\t\t\traise ValueError('Slice step cannot be zero')\n\n\t\t\treturn self._getitem_slice(index)\n"
_SLICE_HELPER = ("\n\ndef _checked_slice(index):\n\tif not all(i is None or isinstance(i, (int, np.integer)) for i in (index.start, index.stop, index.step)):\n\t\traise TypeError('Slice indices must be integers or None')\n"
                 "\tif index.step == 0:\n\t\traise ValueError('Slice step cannot be zero')\n\treturn index\n")
_ELEM_LOOP = "\t\t\tfor i in index:\n\t\t\t\tself._check_index(i)\n"
_BOUNDS_HELPER = ("\n\ndef _all_in_bounds(index, seq):\n\tif type(index) is not np.ndarray or index.dtype != np.intp:\n\t\treturn False\n\tif index.size == 0:\n\t\treturn True\n"
                  "\tn = len(seq)\n\treturn -n <= int(index.min()) and int(index.max()) < n\n")
_INIT_FILL = "\t\t\tfor i, sig in enumerate(signatures):\n\t\t\t\tnp.copyto(self[i], sig, casting='unsafe')\n"
_INIT_FROM = "\t\tself.values = values\n\t\tself.bounds = bounds\n\t\tself.kmerspec = kmerspec\n"
_FILL_METHOD = "\n\tdef _fill(self, signatures):\n\t\tfor i, sig in enumerate(signatures):\n\t\t\tnp.copyto(self[i], sig, casting='unsafe')\n"
_UNINIT = ("\t\tbounds = np.zeros(len(lengths) + 1, dtype=BOUNDS_DTYPE)\n\t\tnp.cumsum(lengths, dtype=BOUNDS_DTYPE, out=bounds[1:])\n\t\tvalues = np.empty(bounds[-1], dtype=dtype)\n\t\treturn values, bounds\n")
_SA_INIT_BODY = ("\t\tif isinstance(signatures, SignatureArray):\n\t\t\t# Can just copy arrays directly\n\t\t\tif dtype is None:\n\t\t\t\tvalues = signatures.values.copy()\n\t\t\telse:\n\t\t\t\tvalues = signatures.values.astype(dtype)\n"
                 "\t\t\tbounds = signatures.bounds.copy()\n\n\t\t\tself._init_from_arrays(values, bounds, kmerspec)\n\n\t\telse:\n\t\t\t# Prepare with uninitialized values array\n\t\t\tif dtype is None:\n"
                 "\t\t\t\t# Get dtype from first signature\n\t\t\t\tdtype = signatures[0].dtype if signatures else kmerspec.index_dtype\n\n\t\t\tlengths = list(map(len, signatures))\n"
                 "\t\t\tvalues, bounds = self._uninit_arrays(lengths, dtype)\n\t\t\tself._init_from_arrays(values, bounds, kmerspec)\n\n\t\t\t# Copy signatures to values array\n" + _INIT_FILL)
_SA_INIT_ALT = ("\t\tif isinstance(signatures, SignatureArray):\n\t\t\tvalues = signatures.values.copy() if dtype is None else signatures.values.astype(dtype)\n\t\t\tself._init_from_arrays(values, signatures.bounds.copy(), kmerspec)\n\t\t\treturn\n\n"
                "\t\tif dtype is None:\n\t\t\tif signatures:\n\t\t\t\tdtype = signatures[0].dtype\n\t\t\telse:\n\t\t\t\tdtype = kmerspec.index_dtype\n\n\t\tlengths = [len(sig) for sig in signatures]\n"
                "\t\tvalues, bounds = self._uninit_arrays(lengths, dtype)\n\t\tself._init_from_arrays(values, bounds, kmerspec)\n\t\tfor i, sig in enumerate(signatures):\n\t\t\tnp.copyto(self[i], sig, casting='unsafe')\n")
_SL_INIT_BODY = ("\t\tif kmerspec is None and isinstance(signatures, AbstractSignatureArray):\n\t\t\tself.kmerspec = signatures.kmerspec\n\t\telse:\n\t\t\tself.kmerspec = kmerspec\n\n"
                 "\t\tif dtype is not None:\n\t\t\tself.dtype = dtype\n\t\telif isinstance(signatures, AbstractSignatureArray):\n\t\t\tself.dtype = signatures.dtype\n\t\telif len(self._list) > 0:\n"
                 "\t\t\tself.dtype = self._list[0].dtype\n\t\telse:\n\t\t\tself.dtype = self.kmerspec.index_dtype\n")
_SL_INIT_ALT = ("\t\tfrom_sigarray = isinstance(signatures, AbstractSignatureArray)\n\n\t\tif kmerspec is None and from_sigarray:\n\t\t\tkmerspec = signatures.kmerspec\n\t\tself.kmerspec = kmerspec\n\n"
                "\t\tif dtype is None:\n\t\t\tif from_sigarray:\n\t\t\t\tdtype = signatures.dtype\n\t\t\telif self._list:\n\t\t\t\tdtype = self._list[0].dtype\n\t\t\telse:\n\t\t\t\tdtype = self.kmerspec.index_dtype\n\t\tself.dtype = dtype\n")
_AN_INIT_BODY = ("\t\tif ids is None:\n\t\t\tids = range(len(signatures))\n\t\telif len(ids) != len(signatures):\n\t\t\traise ValueError('Number of ids does not match number of signatures')\n\n"
                 "\t\tif meta is None:\n\t\t\tmeta = SignaturesMeta()\n\n\t\tself.signatures = signatures\n\t\tself.ids = ids\n\t\tself.meta = meta\n")
_SL_INIT_HELPER = ("\t\tif kmerspec is None and isinstance(signatures, AbstractSignatureArray):\n\t\t\tself.kmerspec = signatures.kmerspec\n\t\telse:\n\t\t\tself.kmerspec = kmerspec\n"
                   "\t\tself.dtype = self._default_dtype(signatures) if dtype is None else dtype\n\n\tdef _default_dtype(self, signatures):\n"
                   "\t\tif isinstance(signatures, AbstractSignatureArray):\n\t\t\treturn signatures.dtype\n\t\tif self._list:\n\t\t\treturn self._list[0].dtype\n\t\treturn self.kmerspec.index_dtype\n")
_AN_INIT_ALT = ("\t\tn = len(signatures)\n\n\t\tif ids is not None and len(ids) != n:\n\t\t\traise ValueError('Number of ids does not match number of signatures')\n\n"
                "\t\tself.signatures = signatures\n\t\tself.ids = range(n) if ids is None else ids\n\t\tself.meta = SignaturesMeta() if meta is None else meta\n")
_GIA = ("\t\tout = SignatureArray.uninitialized([self.sizeof(i) for i in indices], self.kmerspec, dtype=self.values.dtype)\n" + "\t\tfor i, idx in enumerate(indices):\n\t\t\tnp.copyto(out[i], self._getitem_int(idx), casting='unsafe')\n")
_GIA_ACC = ("\t\tspans = []\n\t\tlengths = []\n\t\tfor i in map(self._check_index, indices):\n\t\t\tstop, start = self.bounds[i + 1], self.bounds[i]\n\t\t\tspans.append((start, stop))\n\t\t\tlengths.append(stop - start)\n\n"
            "\t\tout = SignatureArray.uninitialized(lengths, self.kmerspec, dtype=self.values.dtype)\n\n\t\tfor (start, stop), out_start, out_stop in zip(spans, out.bounds, out.bounds[1:]):\n"
            "\t\t\tnp.copyto(out.values[out_start:out_stop], self.values[start:stop], casting='unsafe')\n")
_SL_GETINT = "\tdef _getitem_int(self, i: int):\n\t\treturn self._list[i]\n"
_EQ_HOOK = ("\t\tif not isinstance(other, AbstractSignatureArray):\n\t\t\treturn NotImplemented\n\n\t\treturn self.kmerspec == other.kmerspec and self._eq_signatures(other)\n\n"
            "\tdef _eq_signatures(self, other):\n\t\treturn sigarray_eq(self, other)\n")
_CSA_GETINT = "\tdef _getitem_int(self, i):\n\t\treturn self.values[self.bounds[i]:self.bounds[i + 1]]\n"
_EQ_OVERRIDE = ("\n\tdef _eq_signatures(self, other):\n\t\tif not isinstance(other, ConcatenatedSignatureArray):\n\t\t\treturn super()._eq_signatures(other)\n\n"
                "\t\tn = len(self)\n\t\tif len(other) != n:\n\t\t\treturn False\n\n\t\t{ret}\n")
_SLICE_FAST = "\t\tvalues = self.values[self.bounds[start]:self.bounds[stop]]\n\t\tbounds = self.bounds[start:(stop + 1)] - self.bounds[start]\n"
_FILL = "\t\tfor i, idx in enumerate(indices):\n\t\t\tnp.copyto(out[i], self._getitem_int(idx), casting='unsafe')\n"
_SIGEQ = "\treturn len(a1) == len(a2) and all(map(np.array_equal, a1, a2))"
_EQ = "\t\tif isinstance(other, AbstractSignatureArray):\n\t\t\treturn self.kmerspec == other.kmerspec and sigarray_eq(self, other)\n\t\telse:\n\t\t\treturn NotImplemented\n"
VARIANTS = [
    V('all-True mask returns the collection itself (seeded C20c)', 'B', 'src/gambit/util/indexing.py', "\t\treturn self._getitem_int_array(np.flatnonzero(index))\n",
      "\t\tif index.size > 0 and index.all():\n\t\t\treturn self\n\t\treturn self._getitem_int_array(np.flatnonzero(index))\n", 'X4'),
    V('copy only on identity (the repaired defect)', 'B', _I, "\t\t\t\tindex = index.copy()\n", "\t\t\t\tif index is input_index:\n\t\t\t\t\tindex = index.copy()\n", 'X2',
      also=[(_I, "\tdef __getitem__(self, index):\n", "\tdef __getitem__(self, index):\n\t\tinput_index = index\n")]),
    V('copy removed', 'B', _I, "\t\t\t\tindex = index.copy()\n", "", 'X2'),
    V('bounds slice stop not +1', 'B', _B, "bounds = self.bounds[start:(stop + 1)] - self.bounds[start]", "bounds = self.bounds[start:stop] - self.bounds[start]", 'X4'),
    V('bounds not rebased', 'B', _B, "bounds = self.bounds[start:(stop + 1)] - self.bounds[start]", "bounds = self.bounds[start:(stop + 1)]", 'X4'),
    V('_check_index upper bound inclusive', 'B', _I, "if not 0 <= i2 < len(self):", "if not 0 <= i2 <= len(self):", 'X3'),
    V('_check_index no negative conversion', 'B', _I, "i2 = i + len(self) if i < 0 else i", "i2 = i", 'X3'),
    V('SignatureList selection drops kmerspec', 'B', _B, "return SignatureList([self._list[i] for i in indices], self.kmerspec, self.dtype)", "return SignatureList([self._list[i] for i in indices], None, self.dtype)", 'X5'),
    V('int-array selection drops dtype', 'B', _B, "self.kmerspec, dtype=self.values.dtype)", "self.kmerspec)", 'X5'),
    V('__eq__ requires the k-mer parameters to differ (mutation probe)', 'B', _B, "return self.kmerspec == other.kmerspec and sigarray_eq(self, other)", "return self.kmerspec != other.kmerspec and sigarray_eq(self, other)", 'X7'),
    V('__eq__ accepts when one aspect agrees (mutation probe)', 'B', _B, "return self.kmerspec == other.kmerspec and sigarray_eq(self, other)", "return self.kmerspec == other.kmerspec or sigarray_eq(self, other)", 'X7'),
    V('__eq__ ignores kmerspec', 'B', _B, "return self.kmerspec == other.kmerspec and sigarray_eq(self, other)", "return sigarray_eq(self, other)", 'X7'),
    V('sigarray_eq ignores length', 'B', _B, "return len(a1) == len(a2) and all(map(np.array_equal, a1, a2))", "return all(map(np.array_equal, a1, a2))", 'X7'),
    V('element bounds check dropped', 'B', _I, "\t\t\tfor i in index:\n\t\t\t\tself._check_index(i)\n", "", 'X1'),
    V('zero step accepted', 'B', _I, "\t\t\tif index.step == 0:\n\t\t\t\traise ValueError('Slice step cannot be zero')\n", "", 'X1'),
    V('insert/setitem crossed', 'B', _B, "\t\tself._list.insert(i, sig)", "\t\tself._list[i] = sig", 'X6'),
    V('fast path taken for empty slices', 'B', _B, "if step != 1 or stop <= start:", "if step != 1:", 'X4'),
    V('fill writes slot idx instead of k', 'B', _B, "np.copyto(out[i], self._getitem_int(idx), casting='unsafe')", "np.copyto(out[idx], self._getitem_int(idx), casting='unsafe')", 'X5'),
    V('mask length not checked', 'B', _I, "\t\t\tif len(index) != len(self):\n\t\t\t\traise IndexError('Length of boolean index array does not match length of sequence.')\n", "", 'X1'),
    V('E: i2 conversion as statement order', 'E', _I, "i2 = i + len(self) if i < 0 else i", "i2 = len(self) + i if i < 0 else i"),
    V('E: stop + 1 commuted', 'E', _B, "self.bounds[start:(stop + 1)]", "self.bounds[start:1 + stop]"),
    # ---- idioms accepted since the rules speak about values / path conditions instead of statement shapes (each with its broken twin)
    V('E: slice components checked by one all(...)', 'E', _I, _SLICE_LOOP,
      "\t\t\tif not all(i is None or isinstance(i, (int, np.integer)) for i in (index.start, index.stop, index.step)):\n\t\t\t\traise TypeError('Slice indices must be integers or None')\n"),
    V('E: slice components checked by one any(...)', 'E', _I, _SLICE_LOOP,
      "\t\t\tif any(i is not None and not isinstance(i, (int, np.integer)) for i in [index.start, index.stop, index.step]):\n\t\t\t\traise TypeError('Slice indices must be integers or None')\n"),
    V('all(...) form rejects None components', 'B', _I, _SLICE_LOOP,
      "\t\t\tif not all(isinstance(i, (int, np.integer)) for i in (index.start, index.stop, index.step)):\n\t\t\t\traise TypeError('Slice indices must be integers or None')\n", 'X1'),
    V('all(...) form forgets the step', 'B', _I, _SLICE_LOOP,
      "\t\t\tif not all(i is None or isinstance(i, (int, np.integer)) for i in (index.start, index.stop)):\n\t\t\t\traise TypeError('Slice indices must be integers or None')\n", 'X1'),
    V('any(...) form with the test the wrong way round', 'B', _I, _SLICE_LOOP,
      "\t\t\tif any(i is None or not isinstance(i, (int, np.integer)) for i in [index.start, index.stop, index.step]):\n\t\t\t\traise TypeError('Slice indices must be integers or None')\n", 'X1'),
    V('E: dtype kind read once into a local', 'E', _I, "\t\t# Boolean array\n\t\tif index.dtype.kind == 'b':", "\t\tkind = index.dtype.kind\n\t\tif kind == 'b':",
      also=[(_I, "\t\telif index.dtype.kind in 'iu':", "\t\telif kind in 'iu':")]),
    V('local holds dtype.char instead of the kind', 'B', _I, "\t\t# Boolean array\n\t\tif index.dtype.kind == 'b':", "\t\tkind = index.dtype.char\n\t\tif kind == 'b':", 'X1',
      also=[(_I, "\t\telif index.dtype.kind in 'iu':", "\t\telif kind in 'iu':")]),
    V('kind local is stale: index converted to another dtype after it was read', 'B', _I, "\t\tif index.ndim != 1:\n", "\t\tkind = index.dtype.kind\n\t\tindex = index.astype(int)\n\t\tif index.ndim != 1:\n", 'X1',
      also=[(_I, "\t\t# Boolean array\n\t\tif index.dtype.kind == 'b':", "\t\tif kind == 'b':"), (_I, "\t\telif index.dtype.kind in 'iu':", "\t\telif index.dtype.kind in 'iu':")]),
    V('E: invalid dtype rejected by a guard clause before the integer branch', 'E', _I, _INT_BRANCH, _INT_GUARDED.format(kinds='iu')),
    V('guard clause lets float arrays through to the integer branch', 'B', _I, _INT_BRANCH, _INT_GUARDED.format(kinds='iuf'), 'X1'),
    V('guard-clause integer branch without the element bounds check', 'B', _I, _INT_BRANCH, _INT_GUARDED.format(kinds='iu').replace("\t\tfor i in index:\n\t\t\tself._check_index(i)\n", ""), 'X1'),
    V('E: array conversion extracted into a module-level helper with early returns and try/return', 'E', _I, _CONVERT, "\t\tindex = _to_index_array(index)\n",
      also=[(_I, _LAST_RAISE, _LAST_RAISE + _HELPER)]),
    V('extracted conversion helper loses the empty-sequence case', 'B', _I, _CONVERT, "\t\tindex = _to_index_array(index)\n", 'X1',
      also=[(_I, _LAST_RAISE, _LAST_RAISE + _HELPER.replace("\tif len(index) == 0:\n\t\treturn np.empty(0, dtype=int)\n", ""))]),
    V('extracted conversion helper lets the conversion error escape', 'B', _I, _CONVERT, "\t\tindex = _to_index_array(index)\n", 'X1',
      also=[(_I, _LAST_RAISE, _LAST_RAISE + _HELPER.replace("\ttry:\n\t\treturn np.asarray(index)\n\texcept Exception as e:\n\t\traise IndexError('Indices must be integers, slices, or integer or boolean sequences.') from e\n", "\treturn np.asarray(index)\n"))]),
    V('E: _check_index reads len(self) once and names the sign test', 'E', _I, "\t\ti2 = i + len(self) if i < 0 else i\n\t\tif not 0 <= i2 < len(self):", "\t\tisneg = i < 0\n\t\tn = len(self)\n\t\ti2 = i + n if isneg else i\n\t\tif not 0 <= i2 < n:"),
    V('_check_index named sign test includes zero', 'B', _I, "\t\ti2 = i + len(self) if i < 0 else i\n\t\tif not 0 <= i2 < len(self):", "\t\tisneg = i <= 0\n\t\tn = len(self)\n\t\ti2 = i + n if isneg else i\n\t\tif not 0 <= i2 < n:", 'X3'),
    V('_check_index length local off by one', 'B', _I, "\t\ti2 = i + len(self) if i < 0 else i\n\t\tif not 0 <= i2 < len(self):", "\t\tn = len(self) + 1\n\t\ti2 = i + len(self) if i < 0 else i\n\t\tif not 0 <= i2 < n:", 'X3'),
    V('_check_index bound local rebound between definition and test', 'B', _I, "\t\ti2 = i + len(self) if i < 0 else i\n\t\tif not 0 <= i2 < len(self):", "\t\tn = len(self)\n\t\ti2 = i + n if i < 0 else i\n\t\tn = n + 1\n\t\tif not 0 <= i2 < n:", 'X3'),
    V('E: slice offset read once', 'E', _B, _SLICE_FAST,
      "\t\toffset = self.bounds[start]\n\t\tvalues = self.values[offset:self.bounds[stop]]\n\t\tbounds = self.bounds[start:(stop + 1)] - offset\n"),
    V('slice offset local taken at stop', 'B', _B, _SLICE_FAST,
      "\t\toffset = self.bounds[stop]\n\t\tvalues = self.values[self.bounds[start]:offset]\n\t\tbounds = self.bounds[start:(stop + 1)] - offset\n", 'X4'),
    V('E: bounds section read once, values delimited by its ends', 'E', _B, _SLICE_FAST,
      "\t\tsection = self.bounds[start:(stop + 1)]\n\t\tvalues = self.values[section[0]:section[-1]]\n\t\tbounds = section - section[0]\n"),
    V('bounds section one short: values end at bounds[stop - 1]', 'B', _B, _SLICE_FAST,
      "\t\tsection = self.bounds[start:stop]\n\t\tvalues = self.values[section[0]:section[-1]]\n\t\tbounds = section - section[0]\n", 'X4'),
    V('bounds section rebased on its last element', 'B', _B, _SLICE_FAST,
      "\t\tsection = self.bounds[start:(stop + 1)]\n\t\tvalues = self.values[section[0]:section[-1]]\n\t\tbounds = section - section[-1]\n", 'X4'),
    V('section ends used although the fast path admits empty slices', 'B', _B, _SLICE_FAST,
      "\t\tsection = self.bounds[start:(stop + 1)]\n\t\tvalues = self.values[section[0]:section[-1]]\n\t\tbounds = section - section[0]\n", 'X4',
      also=[(_B, "if step != 1 or stop <= start:", "if step != 1 or stop < start:")]),
    V('section ends read before the empty-slice guard (raises IndexError on empty slices)', 'B', _B, "\t\tif step != 1 or stop <= start:\n\t\t\treturn super()._getitem_slice(s)\n\n" + _SLICE_FAST,
      "\t\tsection = self.bounds[start:(stop + 1)]\n\t\tvalues = self.values[section[0]:section[-1]]\n\t\tif step != 1 or stop <= start:\n\t\t\treturn super()._getitem_slice(s)\n\n\t\tbounds = section - section[0]\n", 'X4'),
    V('E: slice offset read before the guard', 'E', _B, "\t\tif step != 1 or stop <= start:\n\t\t\treturn super()._getitem_slice(s)\n\n" + _SLICE_FAST,
      "\t\toffset = self.bounds[start]\n\t\tif step != 1 or stop <= start:\n\t\t\treturn super()._getitem_slice(s)\n\n\t\tvalues = self.values[offset:self.bounds[stop]]\n\t\tbounds = self.bounds[start:(stop + 1)] - offset\n"),
    V('E: sizes list bound to a local', 'E', _B, "\t\tout = SignatureArray.uninitialized([self.sizeof(i) for i in indices], self.kmerspec, dtype=self.values.dtype)",
      "\t\tsizes = [self.sizeof(i) for i in indices]\n\t\tout = SignatureArray.uninitialized(sizes, self.kmerspec, dtype=self.values.dtype)"),
    V('sizes local computed in sorted order', 'B', _B, "\t\tout = SignatureArray.uninitialized([self.sizeof(i) for i in indices], self.kmerspec, dtype=self.values.dtype)",
      "\t\tsizes = [self.sizeof(i) for i in sorted(indices)]\n\t\tout = SignatureArray.uninitialized(sizes, self.kmerspec, dtype=self.values.dtype)", 'X5'),
    V('E: fill loop zips the result slots with the indices', 'E', _B, _FILL, "\t\tfor dest, idx in zip(out, indices):\n\t\t\tnp.copyto(dest, self._getitem_int(idx), casting='unsafe')\n"),
    V('zip fill loop pairs slots with the sorted indices', 'B', _B, _FILL, "\t\tfor dest, idx in zip(out, sorted(indices)):\n\t\t\tnp.copyto(dest, self._getitem_int(idx), casting='unsafe')\n", 'X5'),
    V('zip fill loop starts at the second slot', 'B', _B, _FILL, "\t\tfor dest, idx in zip(out[1:], indices):\n\t\t\tnp.copyto(dest, self._getitem_int(idx), casting='unsafe')\n", 'X5'),
    V('E: fill loop writes each section of the result values directly', 'E', _B, _FILL,
      "\t\tfor idx, begin, end in zip(indices, out.bounds[:-1], out.bounds[1:]):\n\t\t\tnp.copyto(out.values[begin:end], self._getitem_int(idx), casting='unsafe')\n"),
    V('E: section fill loop by position', 'E', _B, _FILL,
      "\t\tfor k in range(len(indices)):\n\t\t\tnp.copyto(out.values[out.bounds[k]:out.bounds[k + 1]], self._getitem_int(indices[k]), casting='unsafe')\n"),
    V('section fill loop with begin / end crossed', 'B', _B, _FILL,
      "\t\tfor idx, end, begin in zip(indices, out.bounds[:-1], out.bounds[1:]):\n\t\t\tnp.copyto(out.values[begin:end], self._getitem_int(idx), casting='unsafe')\n", 'X5'),
    V('section fill loop shifted by one bound', 'B', _B, _FILL,
      "\t\tfor idx, begin, end in zip(indices, out.bounds[1:], out.bounds[2:]):\n\t\t\tnp.copyto(out.values[begin:end], self._getitem_int(idx), casting='unsafe')\n", 'X5'),
    V('positional fill loop stops one short', 'B', _B, _FILL,
      "\t\tfor k in range(len(indices) - 1):\n\t\t\tnp.copyto(out[k], self._getitem_int(indices[k]), casting='unsafe')\n", 'X5'),
    V('E: sigarray_eq as length guard plus loop with early return', 'E', _B, _SIGEQ,
      "\tif len(a1) != len(a2):\n\t\treturn False\n\n\tfor sig1, sig2 in zip(a1, a2):\n\t\tif not np.array_equal(sig1, sig2):\n\t\t\treturn False\n\n\treturn True"),
    V('E: sigarray_eq with a generator expression', 'E', _B, _SIGEQ, "\treturn len(a1) == len(a2) and all(np.array_equal(x, y) for x, y in zip(a1, a2))"),
    V('loop form of sigarray_eq without the length guard', 'B', _B, _SIGEQ,
      "\tfor sig1, sig2 in zip(a1, a2):\n\t\tif not np.array_equal(sig1, sig2):\n\t\t\treturn False\n\n\treturn True", 'X7'),
    V('loop form of sigarray_eq returns False on the first EQUAL pair', 'B', _B, _SIGEQ,
      "\tif len(a1) != len(a2):\n\t\treturn False\n\n\tfor sig1, sig2 in zip(a1, a2):\n\t\tif np.array_equal(sig1, sig2):\n\t\t\treturn False\n\n\treturn True", 'X7'),
    V('loop form of sigarray_eq compares a signature with itself', 'B', _B, _SIGEQ,
      "\tif len(a1) != len(a2):\n\t\treturn False\n\n\tfor sig1, sig2 in zip(a1, a1):\n\t\tif not np.array_equal(sig1, sig2):\n\t\t\treturn False\n\n\treturn True", 'X7'),
    V('loop form of sigarray_eq checks the length last', 'B', _B, _SIGEQ,
      "\tfor sig1, sig2 in zip(a1, a2):\n\t\tif not np.array_equal(sig1, sig2):\n\t\t\treturn False\n\n\treturn len(a1) == len(a2)", 'X7'),
    V('E: __eq__ with a NotImplemented guard clause', 'E', _B, _EQ,
      "\t\tif not isinstance(other, AbstractSignatureArray):\n\t\t\treturn NotImplemented\n\n\t\treturn self.kmerspec == other.kmerspec and sigarray_eq(self, other)\n"),
    V('guard-clause __eq__ drops the kmerspec comparison', 'B', _B, _EQ,
      "\t\tif not isinstance(other, AbstractSignatureArray):\n\t\t\treturn NotImplemented\n\n\t\treturn sigarray_eq(self, other)\n", 'X7'),
    # ---- second pass: idioms of the held-out corpus, each with its broken twin
    V('E: the integer types tuple gets a module-level name', 'E', _I, "(int, np.integer)", "_INT_TYPES", count=2, also=[(_I, "import numpy as np\n", "import numpy as np\n\n_INT_TYPES = (int, np.integer)\n")]),
    V('named integer types tuple forgets the NumPy integers', 'B', _I, "(int, np.integer)", "_INT_TYPES", 'X1', count=2, also=[(_I, "import numpy as np\n", "import numpy as np\n\n_INT_TYPES = (int,)\n")]),
    V('E: slice validated by a module-level helper that hands the slice back', 'E', _I, _SLICE_BRANCH, "\t\t\treturn self._getitem_slice(_checked_slice(index))\n", also=[(_I, _LAST_RAISE, _LAST_RAISE + _SLICE_HELPER)]),
    V('slice helper hands back a slice without the step', 'B', _I, _SLICE_BRANCH, "\t\t\treturn self._getitem_slice(_checked_slice(index))\n", 'X1',
      also=[(_I, _LAST_RAISE, _LAST_RAISE + _SLICE_HELPER.replace("\treturn index\n", "\treturn slice(index.start, index.stop)\n"))]),
    V('slice helper forgets the zero-step test', 'B', _I, _SLICE_BRANCH, "\t\t\treturn self._getitem_slice(_checked_slice(index))\n", 'X1',
      also=[(_I, _LAST_RAISE, _LAST_RAISE + _SLICE_HELPER.replace("\tif index.step == 0:\n\t\traise ValueError('Slice step cannot be zero')\n", ""))]),
    V('E: array-wide bounds test before the per-element loop', 'E', _I, _ELEM_LOOP,
      "\t\t\tn = len(self)\n\t\t\tif not (index.size == 0 or (-n <= index.min() and index.max() < n)):\n\t\t\t\tfor i in index:\n\t\t\t\t\tself._check_index(i)\n"),
    V('E: array-wide bounds test in a helper returning a flag', 'E', _I, _ELEM_LOOP, "\t\t\tif not _all_in_bounds(index, self):\n\t\t\t\tfor i in index:\n\t\t\t\t\tself._check_index(i)\n",
      also=[(_I, _LAST_RAISE, _LAST_RAISE + _BOUNDS_HELPER)]),
    V('array-wide bounds test accepts max == len', 'B', _I, _ELEM_LOOP,
      "\t\t\tn = len(self)\n\t\t\tif not (index.size == 0 or (-n <= index.min() and index.max() <= n)):\n\t\t\t\tfor i in index:\n\t\t\t\t\tself._check_index(i)\n", 'X1'),
    V('bounds helper forgets the lower bound', 'B', _I, _ELEM_LOOP, "\t\t\tif not _all_in_bounds(index, self):\n\t\t\t\tfor i in index:\n\t\t\t\t\tself._check_index(i)\n", 'X1',
      also=[(_I, _LAST_RAISE, _LAST_RAISE + _BOUNDS_HELPER.replace("-n <= int(index.min()) and ", ""))]),
    V('per-element loop skipped for every native-int array', 'B', _I, _ELEM_LOOP, "\t\t\tif index.dtype != np.intp:\n\t\t\t\tfor i in index:\n\t\t\t\t\tself._check_index(i)\n", 'X1'),
    V('E: fill loop writes through the element hook of the result', 'E', _B, _FILL, "\t\tfor i, idx in enumerate(indices):\n\t\t\tnp.copyto(out._getitem_int(i), self._getitem_int(idx), casting='unsafe')\n"),
    V('element-hook fill loop addresses the slot by the requested index', 'B', _B, _FILL, "\t\tfor i, idx in enumerate(indices):\n\t\t\tnp.copyto(out._getitem_int(idx), self._getitem_int(idx), casting='unsafe')\n", 'X5'),
    V('E: copy loop shared with the constructor in a method fed with a lazy map', 'E', _B, _FILL, "\t\tout._fill(map(self._getitem_int, indices))\n",
      also=[(_B, _INIT_FILL, "\t\t\tself._fill(signatures)\n"), (_B, _INIT_FROM, _INIT_FROM + _FILL_METHOD)]),
    V('shared copy loop fed with the indices in reverse', 'B', _B, _FILL, "\t\tout._fill(map(self._getitem_int, indices[::-1]))\n", 'X5',
      also=[(_B, _INIT_FILL, "\t\t\tself._fill(signatures)\n"), (_B, _INIT_FROM, _INIT_FROM + _FILL_METHOD)]),
    V('shared copy loop writes every signature into slot 0', 'B', _B, _FILL, "\t\tout._fill(map(self._getitem_int, indices))\n", 'X5',
      also=[(_B, _INIT_FILL, "\t\t\tself._fill(signatures)\n"), (_B, _INIT_FROM, _INIT_FROM + _FILL_METHOD.replace("self[i]", "self[0]"))]),
    # ---- X1: conversions decided by their meaning
    V('negative conversion computed but not stored (out= dropped; mutation probe)', 'B', _I, "np.add(index, len(self), out=index, where=isneg)", "np.add(index, len(self), where=isneg)", 'X1'),
    V('negative entries converted only when there are none', 'B', _I, "\t\t\tif isneg.any():\n", "\t\t\tif not isneg.any():\n", 'X1'),
    V('E: negative conversion without the any() shortcut', 'E', _I, "\t\t\tif isneg.any():\n\t\t\t\t# Don't", "\t\t\tif True:\n\t\t\t\t# Don't"),
    V('empty sequence becomes a one-element index', 'B', _I, "index = np.empty(0, dtype=int)", "index = np.empty(1, dtype=int)", 'X1'),
    V('arrays are converted, sequences are not', 'B', _I, "\t\telif not isinstance(index, np.ndarray):\n", "\t\telif isinstance(index, np.ndarray):\n", 'X1'),
    # ---- X8: construction arithmetic
    V('E: bounds allocated uninitialised, first bound set explicitly', 'E', _B, _UNINIT,
      "\t\tn = len(lengths)\n\t\tbounds = np.empty(n + 1, dtype=BOUNDS_DTYPE)\n\t\tbounds[0] = 0\n\t\tnp.cumsum(lengths, dtype=BOUNDS_DTYPE, out=bounds[1:])\n\t\ttotal = bounds[n]\n\t\treturn np.empty(total, dtype=dtype), bounds\n"),
    V('E: running total assigned instead of written through out=', 'E', _B, "\t\tnp.cumsum(lengths, dtype=BOUNDS_DTYPE, out=bounds[1:])\n", "\t\tbounds[1:] = np.cumsum(lengths, dtype=BOUNDS_DTYPE)\n"),
    V('uninitialised bounds without the first bound', 'B', _B, _UNINIT,
      "\t\tn = len(lengths)\n\t\tbounds = np.empty(n + 1, dtype=BOUNDS_DTYPE)\n\t\tnp.cumsum(lengths, dtype=BOUNDS_DTYPE, out=bounds[1:])\n\t\ttotal = bounds[n]\n\t\treturn np.empty(total, dtype=dtype), bounds\n", 'X8'),
    V('running total never written', 'B', _B, "\t\tnp.cumsum(lengths, dtype=BOUNDS_DTYPE, out=bounds[1:])\n", "", 'X8'),
    V('bounds array one entry short', 'B', _B, "bounds = np.zeros(len(lengths) + 1, dtype=BOUNDS_DTYPE)", "bounds = np.zeros(len(lengths), dtype=BOUNDS_DTYPE)", 'X8'),
    V('running total written from the first bound on', 'B', _B, "out=bounds[1:])", "out=bounds[:-1])", 'X8'),
    V('values sized by the last but one bound', 'B', _B, "values = np.empty(bounds[-1], dtype=dtype)", "values = np.empty(bounds[-2], dtype=dtype)", 'X8'),
    V('values allocated before the running total is written', 'B', _B, _UNINIT,
      "\t\tbounds = np.zeros(len(lengths) + 1, dtype=BOUNDS_DTYPE)\n\t\tvalues = np.empty(bounds[-1], dtype=dtype)\n\t\tnp.cumsum(lengths, dtype=BOUNDS_DTYPE, out=bounds[1:])\n\t\treturn values, bounds\n", 'X8'),
    V('_uninit_arrays returns (bounds, values)', 'B', _B, "\t\tvalues = np.empty(bounds[-1], dtype=dtype)\n\t\treturn values, bounds\n", "\t\tvalues = np.empty(bounds[-1], dtype=dtype)\n\t\treturn bounds, values\n", 'X8'),
    V('bounds in the default integer dtype', 'B', _B, "bounds = np.zeros(len(lengths) + 1, dtype=BOUNDS_DTYPE)", "bounds = np.zeros(len(lengths) + 1, dtype=np.int32)", 'X8'),
    V('constructor never copies the signatures', 'B', _B, _INIT_FILL, "\t\t\tpass\n", 'X8'),
    V('constructor copies the slot into the signature', 'B', _B, "np.copyto(self[i], sig, casting='unsafe')", "np.copyto(sig, self[i], casting='unsafe')", 'X8'),
    V('constructor installs (bounds, values)', 'B', _B, "\t\t\tself._init_from_arrays(values, bounds, kmerspec)\n\n\t\t\t# Copy signatures", "\t\t\tself._init_from_arrays(bounds, values, kmerspec)\n\n\t\t\t# Copy signatures", 'X8'),
    V('constructor measures the signatures in sorted order', 'B', _B, "lengths = list(map(len, signatures))", "lengths = sorted(map(len, signatures))", 'X8'),
    V('constructor default dtype logic inverted', 'B', _B, "\t\t\tif dtype is None:\n\t\t\t\t# Get dtype from first signature", "\t\t\tif dtype is not None:\n\t\t\t\t# Get dtype from first signature", 'X8'),
    V('copy constructor shares the bounds array', 'B', _B, "bounds = signatures.bounds.copy()", "bounds = signatures.bounds", 'X8'),
    V('copy constructor ignores the requested dtype', 'B', _B, "values = signatures.values.astype(dtype)", "values = signatures.values.copy()", 'X8'),
    V('constructor fills before the arrays are installed', 'B', _B, "\t\t\tself._init_from_arrays(values, bounds, kmerspec)\n\n\t\t\t# Copy signatures to values array\n" + _INIT_FILL,
      "\t\t\t# Copy signatures to values array\n" + _INIT_FILL + "\t\t\tself._init_from_arrays(values, bounds, kmerspec)\n", 'X8'),
    V('E: constructor with comprehension, conditional expression and early return', 'E', _B, _SA_INIT_BODY, _SA_INIT_ALT),
    V('from_arrays never initialises the instance', 'B', _B, "\t\tsa._init_from_arrays(values, bounds, kmerspec)\n", "", 'X8'),
    V('from_arrays installs (bounds, values)', 'B', _B, "sa._init_from_arrays(values, bounds, kmerspec)", "sa._init_from_arrays(bounds, values, kmerspec)", 'X8'),
    V('uninitialized wraps (bounds, values)', 'B', _B, "return cls.from_arrays(values, bounds, kmerspec)", "return cls.from_arrays(bounds, values, kmerspec)", 'X8'),
    V('uninitialized default dtype inverted', 'B', _B, "kmerspec.index_dtype if dtype is None else dtype", "kmerspec.index_dtype if dtype is not None else dtype", 'X8'),
    V('E: uninitialized resolves the default dtype in a statement', 'E', _B, "\t\tvalues, bounds = cls._uninit_arrays(lengths, kmerspec.index_dtype if dtype is None else dtype)\n",
      "\t\tif dtype is None:\n\t\t\tdtype = kmerspec.index_dtype\n\n\t\tvalues, bounds = cls._uninit_arrays(lengths, dtype)\n"),
    V('E: SignatureList constructor as resolve-then-assign', 'E', _B, _SL_INIT_BODY, _SL_INIT_ALT),
    V('resolve-then-assign SignatureList takes the source kmerspec even when one is given', 'B', _B, _SL_INIT_BODY, _SL_INIT_ALT.replace("if kmerspec is None and from_sigarray:", "if from_sigarray:"), 'X8'),
    V('SignatureList kmerspec default with or', 'B', _B, "\t\tself._list = list(signatures)\n\n\t\tif kmerspec is None and isinstance(signatures, AbstractSignatureArray):", "\t\tself._list = list(signatures)\n\n\t\tif kmerspec is None or isinstance(signatures, AbstractSignatureArray):", 'X8'),
    V('SignatureList ignores a given dtype', 'B', _B, "\t\tif dtype is not None:\n\t\t\tself.dtype = dtype\n\t\telif", "\t\tif dtype is None:\n\t\t\tself.dtype = dtype\n\t\telif", 'X8'),
    V('SignatureList takes the dtype of the second signature', 'B', _B, "self.dtype = self._list[0].dtype", "self.dtype = self._list[1].dtype", 'X8'),
    V('SignatureList first-signature dtype for empty lists', 'B', _B, "\t\telif len(self._list) > 0:\n", "\t\telif len(self._list) >= 0:\n", 'X8'),
    V('AnnotatedSignatures default ids test inverted', 'B', _B, "\t\tif ids is None:\n\t\t\tids = range(len(signatures))", "\t\tif ids is not None:\n\t\t\tids = range(len(signatures))", 'X8'),
    V('AnnotatedSignatures rejects the right number of ids', 'B', _B, "elif len(ids) != len(signatures):", "elif len(ids) == len(signatures):", 'X8'),
    V('AnnotatedSignatures default meta test inverted', 'B', _B, "\t\tif meta is None:\n\t\t\tmeta = SignaturesMeta()", "\t\tif meta is not None:\n\t\t\tmeta = SignaturesMeta()", 'X8'),
    V('AnnotatedSignatures default ids one short', 'B', _B, "ids = range(len(signatures))", "ids = range(len(signatures) - 1)", 'X8'),
    V('E: AnnotatedSignatures with one length read and conditional expressions', 'E', _B, _AN_INIT_BODY, _AN_INIT_ALT),
    V('conditional-expression AnnotatedSignatures keeps the default ids when ids are given', 'B', _B, _AN_INIT_BODY, _AN_INIT_ALT.replace("range(n) if ids is None else ids", "ids if ids is None else range(n)"), 'X8'),
    V('sizes() skips the last signature', 'B', _B, "map(self.sizeof, range(len(self)))", "map(self.sizeof, range(len(self) - 1))", 'X8'),
    V('constructor type test with crossed operands', 'B', _B, "\t\tif isinstance(signatures, SignatureArray):\n\t\t\t# Can just copy", "\t\tif isinstance(SignatureArray, signatures):\n\t\t\t# Can just copy", 'X8'),
    V('__eq__ type test with crossed operands', 'B', _B, "\t\tif isinstance(other, AbstractSignatureArray):\n\t\t\treturn self.kmerspec", "\t\tif isinstance(AbstractSignatureArray, other):\n\t\t\treturn self.kmerspec", 'X7'),
    V('sigarray_eq with or instead of and', 'B', _B, _SIGEQ, "\treturn len(a1) == len(a2) or all(map(np.array_equal, a1, a2))", 'X7'),
    V('E: __eq__ as one conditional expression', 'E', _B, _EQ, "\t\treturn (self.kmerspec == other.kmerspec and sigarray_eq(self, other)) if isinstance(other, AbstractSignatureArray) else NotImplemented\n"),
    V('conditional-expression __eq__ with the arms crossed', 'B', _B, _EQ, "\t\treturn NotImplemented if isinstance(other, AbstractSignatureArray) else (self.kmerspec == other.kmerspec and sigarray_eq(self, other))\n", 'X7'),
    V('E: __eq__ compares the k-mer parameters in a guard of its own', 'E', _B, _EQ,
      "\t\tif not isinstance(other, AbstractSignatureArray):\n\t\t\treturn NotImplemented\n\t\tif self.kmerspec != other.kmerspec:\n\t\t\treturn False\n\t\treturn sigarray_eq(self, other)\n"),
    V('guarded __eq__ returns True for different k-mer parameters', 'B', _B, _EQ,
      "\t\tif not isinstance(other, AbstractSignatureArray):\n\t\t\treturn NotImplemented\n\t\tif self.kmerspec != other.kmerspec:\n\t\t\treturn True\n\t\treturn sigarray_eq(self, other)\n", 'X7'),
    V('E: sizes() as a comprehension', 'E', _B, "np.fromiter(map(self.sizeof, range(len(self))), dtype=int)", "np.array([self.sizeof(i) for i in range(len(self))], dtype=int)"),
    # ---- third pass
    V('E: extents read once into lists, sizes and copies taken from them', 'E', _B, _GIA, _GIA_ACC),
    V('accumulated extents with the two bounds crossed', 'B', _B, _GIA, _GIA_ACC.replace("stop, start = self.bounds[i + 1], self.bounds[i]", "stop, start = self.bounds[i], self.bounds[i + 1]"), 'X5'),
    V('accumulated extents collected in sorted order', 'B', _B, _GIA, _GIA_ACC.replace("map(self._check_index, indices)", "map(self._check_index, sorted(indices))"), 'X5'),
    V('accumulated extents: destinations shifted by one bound', 'B', _B, _GIA, _GIA_ACC.replace("zip(spans, out.bounds, out.bounds[1:])", "zip(spans, out.bounds[1:], out.bounds[2:])"), 'X5'),
    V('accumulated extents: every span is empty', 'B', _B, _GIA, _GIA_ACC.replace("spans.append((start, stop))", "spans.append((start, start))"), 'X5'),
    V('E: list-backed selection hands a lazy map to the constructor', 'E', _B, "SignatureList([self._list[i] for i in indices], self.kmerspec, self.dtype)", "SignatureList(map(self._list.__getitem__, indices), self.kmerspec, self.dtype)"),
    V('lazy-map list selection in sorted order', 'B', _B, "SignatureList([self._list[i] for i in indices], self.kmerspec, self.dtype)", "SignatureList(map(self._list.__getitem__, sorted(indices)), self.kmerspec, self.dtype)", 'X5'),
    V('lazy-map list selection skips the first position', 'B', _B, "SignatureList([self._list[i] for i in indices], self.kmerspec, self.dtype)", "SignatureList(map(self._list.__getitem__, indices[1:]), self.kmerspec, self.dtype)", 'X5'),
    V('E: SignatureList dtype default in a method of its own', 'E', _B, _SL_INIT_BODY, _SL_INIT_HELPER),
    V('dtype-default method looks at the first signature before the source collection', 'B', _B, _SL_INIT_BODY,
      _SL_INIT_HELPER.replace("\t\tif isinstance(signatures, AbstractSignatureArray):\n\t\t\treturn signatures.dtype\n\t\tif self._list:\n\t\t\treturn self._list[0].dtype\n",
                              "\t\tif self._list:\n\t\t\treturn self._list[0].dtype\n\t\tif isinstance(signatures, AbstractSignatureArray):\n\t\t\treturn signatures.dtype\n"), 'X8'),
    V('dtype-default method is used even when a dtype is given', 'B', _B, _SL_INIT_BODY, _SL_INIT_HELPER.replace("self._default_dtype(signatures) if dtype is None else dtype", "self._default_dtype(signatures)"), 'X8'),
    V('E: non-contiguous slices go straight to the index-array path', 'E', _B, "\t\t\treturn super()._getitem_slice(s)\n", "\t\t\treturn self._getitem_int_array(np.arange(start, stop, step))\n"),
    V('direct index-array path drops the step', 'B', _B, "\t\t\treturn super()._getitem_slice(s)\n", "\t\t\treturn self._getitem_int_array(np.arange(start, stop))\n", 'X4'),
    V('direct index-array path after the bounds were shifted', 'B', _B, "\t\t\treturn super()._getitem_slice(s)\n", "\t\t\tstart += 1\n\t\t\treturn self._getitem_int_array(np.arange(start, stop, step))\n", 'X4'),
    V('E: list-backed slices taken by list slicing', 'E', _B, _SL_GETINT, _SL_GETINT + "\n\tdef _getitem_slice(self, index: slice):\n\t\treturn SignatureList(self._list[index], self.kmerspec, self.dtype)\n"),
    V('list-slicing fast path loses the dtype', 'B', _B, _SL_GETINT, _SL_GETINT + "\n\tdef _getitem_slice(self, index: slice):\n\t\treturn SignatureList(self._list[index], self.kmerspec)\n", 'X5'),
    V('list-slicing fast path drops the step', 'B', _B, _SL_GETINT, _SL_GETINT + "\n\tdef _getitem_slice(self, index: slice):\n\t\treturn SignatureList(self._list[index.start:index.stop], self.kmerspec, self.dtype)\n", 'X5'),
    # ---- fourth pass: the effective equality of every class (hooks and their overrides)
    V('E: signature comparison behind an overridable hook with the default only', 'E', _B, _EQ, _EQ_HOOK),
    V('concatenated override of the equality hook ignores where signatures end (seeded C20d)', 'B', _B, _EQ, _EQ_HOOK, 'X7',
      also=[(_B, _CSA_GETINT, _CSA_GETINT + _EQ_OVERRIDE.format(ret="v1 = self.values[self.bounds[0]:self.bounds[n]]\n\t\tv2 = other.values[other.bounds[0]:other.bounds[n]]\n\t\treturn len(v1) == len(v2) and np.array_equal(v1, v2)"))]),
    V('concatenated override of the equality hook compares the bounds but not the values', 'B', _B, _EQ, _EQ_HOOK, 'X7',
      also=[(_B, _CSA_GETINT, _CSA_GETINT + _EQ_OVERRIDE.format(ret="return np.array_equal(np.diff(self.bounds), np.diff(other.bounds))"))]),
    V('concatenated override of the equality hook answers True for equal counts', 'B', _B, _EQ, _EQ_HOOK, 'X7',
      also=[(_B, _CSA_GETINT, _CSA_GETINT + _EQ_OVERRIDE.format(ret="return True"))]),
    V('E: concatenated override comparing the per-signature sizes and the concatenated signatures', 'E', _B, _EQ, _EQ_HOOK,
      also=[(_B, _CSA_GETINT, _CSA_GETINT + _EQ_OVERRIDE.format(ret="return np.array_equal(self.sizes(), other.sizes()) and np.array_equal(self.values[self.bounds[0]:self.bounds[n]], other.values[other.bounds[0]:other.bounds[n]])"))]),
    V('E: the same override written with the last bound', 'E', _B, _EQ, _EQ_HOOK,
      also=[(_B, _CSA_GETINT, _CSA_GETINT + _EQ_OVERRIDE.format(ret="return np.array_equal(np.diff(self.bounds), np.diff(other.bounds)) and np.array_equal(self.values[self.bounds[0]:self.bounds[-1]], other.values[other.bounds[0]:other.bounds[-1]])"))]),
    V('E: out-of-place conversion', 'E', _I, "\t\t\t\tindex = index.copy()\n\t\t\t\tnp.add(index, len(self), out=index, where=isneg)\n", "\t\t\t\tindex = np.where(isneg, index + len(self), index)\n"),
]
